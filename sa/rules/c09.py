"""C09 - kernels and correctors."""
import ast
from ..core import RuleResult, Finding, AnalysisError, dotted, src, norm_construct, ClassInfo, guarded, guarded_list
from ..expr import inline_straight, returns_of, dump, subst
from .. import paths

KER = 'pypose.optim.kernel'
COR = 'pypose.optim.corrector'
OPT = 'pypose.optim.optimizer'


def kernel_classes(repo):
    m = repo.module(KER)
    out = []
    for c in m.classes.values():
        if 'forward' in c.methods and any(b.split('.')[-1] == 'Module' for b in c.base_exprs):
            out.append(c)
    return out


def _nonneg_guard(test, pname, truth=True):
    """does `test` (asserted / assumed with `truth`) establish  pname >= 0 elementwise?"""
    if isinstance(test, ast.UnaryOp) and isinstance(test.op, ast.Not):
        return _nonneg_guard(test.operand, pname, not truth)
    if isinstance(test, ast.BoolOp) and isinstance(test.op, ast.And) and truth:
        return any(_nonneg_guard(v, pname, True) for v in test.values)
    if isinstance(test, ast.BoolOp) and isinstance(test.op, ast.Or) and not truth:
        return any(_nonneg_guard(v, pname, False) for v in test.values)
    # reductions
    if isinstance(test, ast.Call):
        d = dotted(test.func) or ''
        red = d.split('.')[-1] if d else (test.func.attr if isinstance(test.func, ast.Attribute) else '')
        inner = None
        if d in ('torch.all', 'torch.any', 'all', 'any') and test.args:
            inner = test.args[0]
        elif isinstance(test.func, ast.Attribute) and red in ('all', 'any'):
            inner = test.func.value
        if inner is not None:
            cmp_ = _cmp(inner, pname)
            if cmp_ is None:
                return False
            if red == 'all':
                return truth and cmp_ == 'ge'
            if red == 'any':
                return (not truth) and cmp_ == 'lt'
        if d.endswith('bool') and test.args:
            return _nonneg_guard(test.args[0], pname, truth)
    return False


def _cmp(e, pname):
    """'ge' for  p >= 0 / 0 <= p ;  'lt' for p < 0 / 0 > p ; else None"""
    if isinstance(e, ast.Compare) and len(e.ops) == 1:
        l, r, op = e.left, e.comparators[0], e.ops[0]
        def isp(x): return isinstance(x, ast.Name) and x.id == pname
        def is0(x): return isinstance(x, ast.Constant) and x.value in (0, 0.0) and not isinstance(x.value, bool)
        if isp(l) and is0(r):
            return 'ge' if isinstance(op, ast.GtE) else 'lt' if isinstance(op, ast.Lt) else None
        if is0(l) and isp(r):
            return 'ge' if isinstance(op, ast.LtE) else 'lt' if isinstance(op, ast.Gt) else None
    return None


@guarded
def rule_guard(repo, tier):
    res = RuleResult('C09.GUARD', 'every kernel forward establishes input >= 0 (assert / raising branch) before computing with it', floor=7)
    for c in kernel_classes(repo):
        f = c.methods['forward']
        pp = f.pos_params
        if len(pp) < 2:
            raise AnalysisError('C09.GUARD: %s.forward has no input parameter' % c.name)
        pname = pp[1]
        pths, _ = paths.function_paths(f.node, limit=512)
        ok_all = True
        first_use = None
        for ev, ex in pths:
            if ex == 'raise':
                continue
            guarded = False
            for e in ev:
                if e[0] == 'stmt':
                    st = e[1]
                    if isinstance(st, ast.Assert) and _nonneg_guard(st.test, pname):
                        guarded = True
                        continue
                    if isinstance(st, ast.Expr) and isinstance(st.value, ast.Call) and dotted(st.value.func) in ('torch._assert', 'torch._check') \
                            and st.value.args and _nonneg_guard(st.value.args[0], pname):
                        guarded = True
                        continue
                    if isinstance(st, ast.Expr) and isinstance(st.value, ast.Constant):
                        continue
                    uses = any(isinstance(n, ast.Name) and n.id == pname and isinstance(n.ctx, ast.Load) for n in ast.walk(st))
                    if uses and not guarded:
                        ok_all = False
                        first_use = first_use or st
                        break
                elif e[0] == 'assume':
                    # `if (input < 0).any(): raise` : on the surviving branch the guard holds
                    if _nonneg_guard(e[1], pname, e[2]):
                        guarded = True
        res.inst({'function': f.fq, 'guarded': ok_all}, f.fq)
        if not ok_all:
            res.add(Finding('C09.GUARD', f, '%s.forward computes with `%s` without first rejecting negative input (first use: %s)'
                            % (c.name, pname, src(first_use)[:70]), construct='%s.forward unguarded' % c.name))
    return res




# ---------------------------------------------------------------- KIND (nominal dimension typing of the correctors)

from ..shapes import Interp, TV, IntV, NONE, TOP, sym, lit   # noqa: E402

Bt = ('batch', 'B')


@guarded
def rule_kind(repo, tier):
    res = RuleResult('C09.KIND', 'correctors: every definition of the returned residual carries the last dimension d of R (a masked '
                     'store whose right-hand side has last dimension 1 is a broadcast fill: the residual lost R); the returned '
                     'Jacobian carries the parameter dimension of J', floor=4)
    for cname in ('FastTriggs', 'Triggs'):
        f = repo.func(COR, cname + '.forward')
        R = TV([Bt, sym('d')])
        J = TV([sym('prod(B*d)'), sym('k')])       # documented: the rows of J are the residual entries, residual-major
        reports = []
        it = Interp(repo, lambda node, msg: reports.append((node, msg)))
        stores = []
        it.store_hook = lambda target, base, tgt, rhs, st: stores.append((target, base, tgt, rhs, st))
        rets = it.run_function(f, {'R': R, 'J': J, 'self.func': TOP, 'self.kernel': TOP})
        if not rets:
            raise AnalysisError('C09.KIND: %s.forward has no analysable return path' % cname)
        # names of the returned residual / Jacobian (to attribute masked stores)
        from ..expr import returns_of
        rnodes = returns_of(f.node)
        ret_names = []
        from ..expr import ret_elts
        for r in rnodes:
            el = ret_elts(f.node, r)
            if el is not None and len(el) == 2:
                ret_names.append([_root_name(x) for x in el])
        seen_rep = set()
        for node, msg in reports:
            if msg not in seen_rep:
                seen_rep.add(msg)
                res.add(Finding('C09.KIND', f, msg, node=node if isinstance(node, ast.AST) and hasattr(node, 'lineno') else None,
                                construct='flatten order ' + msg[-60:]))
        for rv in rets:
            ok_r = ok_j = None
            if hasattr(rv, 'items') and len(rv.items) == 2:
                r0, j0 = rv.items
                if isinstance(r0, TV) and r0.shape:
                    ok_r = r0.shape[-1] == sym('d')
                if isinstance(j0, TV) and j0.shape:
                    ok_j = j0.shape[-1] == sym('k')
            res.inst({'function': f.fq, 'returned': repr(rv), 'residual_carries_d': ok_r, 'jacobian_carries_k': ok_j}, (f.fq, 'ret'))
            if ok_r is False:
                res.add(Finding('C09.KIND', f, 'returned residual has last dimension %s, not the dimension d of R' % (rv.items[0],),
                                construct='returned residual'))
            if ok_j is False:
                res.add(Finding('C09.KIND', f, 'returned Jacobian has last dimension %s, not the parameter dimension of J' % (rv.items[1],),
                                construct='returned Jacobian'))
            if ok_r is None or ok_j is None:
                res.unresolved += 1
        for target, base, tgt, rhs, st in stores:
            name = _root_name(target)
            role = None
            for rn in ret_names:
                if name == rn[0]:
                    role = 'residual'
                elif name == rn[1]:
                    role = 'jacobian'
            if role is None or not isinstance(tgt, TV) or not tgt.shape:
                continue
            verdict = None
            if isinstance(rhs, TV) and rhs.shape:
                want = tgt.shape[-1]
                if role == 'jacobian' and len(tgt.shape) >= 2 and len(rhs.shape) >= 2:
                    verdict = not (rhs.shape[-1] == lit(1) and want != lit(1)) and not (rhs.shape[-2] == lit(1) and tgt.shape[-2] != lit(1))
                else:
                    verdict = not (rhs.shape[-1] == lit(1) and want != lit(1))
            res.inst({'function': f.fq, 'store': src(target)[:40], 'role': role, 'target': repr(tgt), 'rhs': repr(rhs), 'ok': verdict},
                     (f.fq, src(target)))
            if verdict is False:
                res.add(Finding('C09.KIND', f, 'masked store into the returned %s: right-hand side %s is broadcast over the '
                                'dimension `%s` of %s - the stored value no longer depends on the individual components of R'
                                % (role, rhs, tgt.shape[-1][1], tgt), node=st))
    return res


def _root_name(e):
    while isinstance(e, (ast.Subscript, ast.Attribute, ast.Call)):
        if isinstance(e, ast.Call):
            if isinstance(e.func, ast.Attribute):
                e = e.func.value
            else:
                return None
        else:
            e = e.value
    return e.id if isinstance(e, ast.Name) else None


# ---------------------------------------------------------------- MP (Huber), UNIT, SEL, AXIS, CONTR

from fractions import Fraction                      # noqa: E402
from .lie_common import rule_masks                  # noqa: E402

# documented meaning of the constructor parameters, in powers of the residual unit u (the kernel argument is |r|^2 : u^2)
BASE_UNITS = {'Huber.delta': 1, 'PseudoHuber.delta': 1, 'Cauchy.delta': 1, 'SoftLOne.delta': 1, 'Arctan.delta': 1,
              'Tolerant.a': 2, 'Tolerant.b': 2, 'Scale.delta': 0}
UNIT_EXEMPT = {'SoftLOne': 'documented closed form 2(delta*sqrt(1/delta^2 + x) - 1) is not dimensionally homogeneous by design'}


class UnitErr(Exception):
    pass


def _units(e, env, problems):
    """unit exponent (Fraction) of e, None = dimensionless constant compatible with anything (literal zero) ; records mismatches"""
    if isinstance(e, ast.Constant):
        if isinstance(e.value, (int, float)) and e.value == 0:
            return None
        return Fraction(0)
    if isinstance(e, ast.Name):
        return env.get(e.id, 'unknown')
    if isinstance(e, ast.Attribute):
        d = dotted(e)
        if d in env:
            return env[d]
        if e.attr in ('pi', 'e'):
            return Fraction(0)
        return 'unknown'
    if isinstance(e, ast.UnaryOp):
        return _units(e.operand, env, problems)
    if isinstance(e, ast.Subscript):
        return _units(e.value, env, problems)
    if isinstance(e, ast.BinOp):
        l, r = _units(e.left, env, problems), _units(e.right, env, problems)
        if 'unknown' in (l, r):
            return 'unknown'
        if isinstance(e.op, ast.Mult):
            return (l or Fraction(0)) + (r or Fraction(0))
        if isinstance(e.op, ast.Div):
            return (l or Fraction(0)) - (r or Fraction(0))
        if isinstance(e.op, ast.Pow):
            if isinstance(e.right, ast.Constant) and isinstance(e.right.value, (int, float)):
                return (l or Fraction(0)) * Fraction(e.right.value).limit_denominator(12)
            return 'unknown'
        if isinstance(e.op, (ast.Add, ast.Sub)):
            if l is None:
                return r
            if r is None:
                return l
            if l != r:
                problems.append((e, 'adds/subtracts quantities of unit u^%s and u^%s in `%s`' % (l, r, src(e)[:60])))
            return l
        return 'unknown'
    if isinstance(e, ast.Compare):
        l = _units(e.left, env, problems)
        r = _units(e.comparators[0], env, problems)
        if 'unknown' not in (l, r) and l is not None and r is not None and l != r:
            problems.append((e, 'compares a quantity of unit u^%s with one of unit u^%s in `%s`' % (l, r, src(e)[:60])))
        return Fraction(0)
    if isinstance(e, ast.Call):
        d = dotted(e.func) or ''
        name = d.split('.')[-1] if d else (e.func.attr if isinstance(e.func, ast.Attribute) else '')
        recv = e.func.value if isinstance(e.func, ast.Attribute) and not d.startswith(('torch.', 'math.')) else (e.args[0] if e.args else None)
        if name in ('sqrt',):
            u = _units(recv, env, problems)
            return u if u in ('unknown', None) else u / 2
        if name in ('log', 'exp', 'arctan', 'atan', 'log1p', 'expm1', 'tanh', 'sin', 'cos'):
            u = _units(recv, env, problems)
            if u not in ('unknown', None) and u != 0:
                problems.append((e, 'transcendental function `%s` applied to a quantity of unit u^%s' % (name, u)))
            return Fraction(0)
        if name in ('abs', 'clone', 'clamp', 'sum', 'mean', 'zeros_like', 'square_'):
            return _units(recv, env, problems) if name != 'zeros_like' else None
        if name == 'square':
            u = _units(recv, env, problems)
            return u if u in ('unknown', None) else u * 2
        if name in ('all', 'any'):
            return _units(recv, env, problems)
        if name in ('stack', 'cat', 'concat') and e.args and isinstance(e.args[0], (ast.List, ast.Tuple)):
            us = [_units(x, env, problems) for x in e.args[0].elts]
            if 'unknown' in us:
                return 'unknown'
            known = [u for u in us if u is not None]
            if known and any(u != known[0] for u in known):
                problems.append((e, 'stacks components of different units %s in `%s`' % (sorted({str(u) for u in known}), src(e)[:60])))
            return known[0] if known else None
        if name in ('unsqueeze', 'squeeze', 'expand', 'expand_as', 'view', 'reshape', 'contiguous', 'to', 'type_as'):
            return _units(recv, env, problems)
        if name == '$upd':
            a = _units(e.args[0], env, problems)
            b = _units(e.args[2], env, problems)
            if isinstance(e.args[1], ast.Subscript):
                _units(e.args[1].slice, env, problems)
            if a is None:
                return b
            if 'unknown' not in (a, b) and b is not None and a != b:
                problems.append((e, 'stores a quantity of unit u^%s into a tensor of unit u^%s' % (b, a)))
            return a
        return 'unknown'
    return 'unknown'


@guarded
def rule_unit(repo, tier):
    res = RuleResult('C09.UNIT', 'dimensional homogeneity of the kernels: with the argument in u^2 (squared residual) and the constructor '
                     'parameters in their documented units, every sum / comparison / masked store combines equal units, transcendental '
                     'functions take dimensionless arguments and the value returned is again in u^2', floor=6)
    for c in kernel_classes(repo):
        if c.name in UNIT_EXEMPT:
            res.notes.append('%s exempt: %s' % (c.name, UNIT_EXEMPT[c.name]))
            continue
        init = c.methods.get('__init__')
        env = {}
        if init is None:
            raise AnalysisError('C09.UNIT: %s has no __init__' % c.name)
        for p in init.pos_params[1:]:
            key = '%s.%s' % (c.name, p)
            if key not in BASE_UNITS:
                raise AnalysisError('C09.UNIT: no documented unit for constructor parameter %s' % key)
            env[p] = Fraction(BASE_UNITS[key])
        problems = []
        inl = inline_straight(init.node)
        for k, v in inl.env.items():
            if k.startswith('self.') and isinstance(v, ast.AST):
                env[k] = _units(v, env, problems)
        f = c.methods['forward']
        env2 = {k: v for k, v in env.items() if k.startswith('self.')}
        env2[f.pos_params[1]] = Fraction(2)
        rets = returns_of(f.node)
        out_units = []
        finl = inline_straight(f.node)
        for st, _e in finl.log:
            if isinstance(st, ast.Assert):
                continue
        for r in rets:
            v = inline_straight(f.node, upto=r).value(r.value)
            out_units.append(_units(v, env2, problems))
        res.inst({'function': f.fq, 'attribute_units': {k: str(v) for k, v in env2.items()}, 'returns': [str(u) for u in out_units],
                  'mismatches': len(problems)}, f.fq)
        seen = set()
        for node, msg in problems:
            if msg not in seen:
                seen.add(msg)
                res.add(Finding('C09.UNIT', f, '%s: %s' % (c.name, msg), construct=msg[:120]))
        for u in out_units:
            if u not in ('unknown', None) and u != 2:
                res.add(Finding('C09.UNIT', f, '%s.forward returns a quantity of unit u^%s; a kernel maps u^2 to u^2' % (c.name, u), construct='return unit'))
            if u == 'unknown':
                res.unresolved += 1
    return res


def _sq_axis(e):
    """axis over which a squared norm  X.square().sum(axis)  /  (X*X).sum(axis) / X.pow(2).sum(axis)  is taken, with X name"""
    for n in [e]:
        if isinstance(n, ast.Call) and isinstance(n.func, ast.Attribute) and n.func.attr == 'sum' and n.args:
            inner = n.func.value
            base = None
            if isinstance(inner, ast.Call) and isinstance(inner.func, ast.Attribute) and inner.func.attr in ('square',):
                base = inner.func.value
            elif isinstance(inner, ast.Call) and isinstance(inner.func, ast.Attribute) and inner.func.attr == 'pow' and inner.args and src(inner.args[0]) == '2':
                base = inner.func.value
            elif isinstance(inner, ast.BinOp) and isinstance(inner.op, ast.Pow) and src(inner.right) == '2':
                base = inner.left
            elif isinstance(inner, ast.BinOp) and isinstance(inner.op, ast.Mult) and src(inner.left) == src(inner.right):
                base = inner.left
            if base is not None:
                return src(n.args[0]), dotted(base)
    return None


@guarded
def rule_sel_axis(repo, tier):
    res = RuleResult('C09.AXIS', 'the kernel argument is the squared norm over the last axis in the three places that must agree (robust loss, '
                     'FastTriggs, Triggs); the robust loss pairs kernels with residuals like the optimisers pair correctors (one for all, '
                     'or one per residual)', floor=4)
    sites = [(OPT, 'RobustModel.loss'), (COR, 'FastTriggs.forward'), (COR, 'Triggs.compute_grads')]
    axes = {}
    for mod, q in sites:
        f = repo.func(mod, q)
        founds = []
        for n in ast.walk(f.node):
            if isinstance(n, ast.Call) and isinstance(n.func, ast.Attribute) and n.func.attr == 'sum':
                a = _sq_axis(n)
                if a and a not in founds:
                    founds.append(a)
        axes[q] = founds
        res.inst({'function': f.fq, 'squared_norms': founds}, f.fq)
        if not founds:
            res.add(Finding('C09.AXIS', f, '%s no longer forms the squared norm X.square().sum(axis) of the residual' % q, construct='no sqnorm'))
        for found in founds:
            if found[0] != '-1':
                res.add(Finding('C09.AXIS', f, '%s reduces the squared residual over axis %s; the loss and both correctors must agree on the last axis' % (q, found[0]),
                                construct='axis ' + found[0]))
    # the kernel is applied PER RESIDUAL ROW: its argument is the squared norm over the last axis itself, and the sum over rows is taken of the kernel's
    # output - rho(sum_i |r_i|^2) is another function than sum_i rho(|r_i|^2) for every non-linear kernel
    f = __import__('sa.core', fromlist=['x']).ifstmt_view(repo.func(OPT, 'RobustModel.loss'))
    for c in ast.walk(f.node):
        if isinstance(c, (ast.ListComp, ast.GeneratorExp)):
            for a in ast.walk(c.elt):
                if isinstance(a, ast.Call) and a.args and ((isinstance(a.func, ast.Name) and any(isinstance(g.target, ast.Tuple) and any(isinstance(t_, ast.Name) and t_.id == a.func.id
                                                                                                         for t_ in g.target.elts) for g in c.generators)) or
                                                            (isinstance(a.func, ast.Subscript) and dotted(a.func.value) == 'self.kernel')):
                    okarg = _sq_axis(a.args[0]) is not None
                    res.inst({'function': f.fq, 'kernel application': src(a)[:60], 'argument is the per-row squared norm': okarg}, ('karg', src(a)[:70]))
                    if not okarg:
                        res.add(Finding('C09.AXIS', f, 'the kernel is applied to `%s`, not to the squared norm of each residual row: rho of the TOTAL squared error is reported '
                                        'instead of the sum of rho over the rows' % src(a.args[0])[:50], node=a, construct='kernel argument|' + src(a.args[0])[:40]))
    # selection in RobustModel.loss
    pths, _ = paths.function_paths(f.node, limit=256)
    ok_multi = ok_single = False
    for ev, ex in pths:
        for e in ev:
            if e[0] == 'assume' and 'len(self.kernel)' in src(e[1]):
                def _truth(n_, test=e[1]):
                    # the test `len(self.kernel) <op> k` (either orientation) evaluated for n_ kernels
                    import operator as _op
                    OPS = {ast.Gt: _op.gt, ast.GtE: _op.ge, ast.Lt: _op.lt, ast.LtE: _op.le, ast.Eq: _op.eq, ast.NotEq: _op.ne}
                    neg_ = False
                    while isinstance(test, ast.UnaryOp) and isinstance(test.op, ast.Not):
                        test, neg_ = test.operand, not neg_
                    if not (isinstance(test, ast.Compare) and len(test.ops) == 1 and type(test.ops[0]) in OPS):
                        return None
                    vals = []
                    for side in (test.left, test.comparators[0]):
                        if isinstance(side, ast.Constant) and isinstance(side.value, int):
                            vals.append(side.value)
                        elif 'len(self.kernel)' in src(side) and isinstance(side, ast.Call):
                            vals.append(n_)
                        else:
                            return None
                    r_ = OPS[type(test.ops[0])](vals[0], vals[1])
                    return (not r_) if neg_ else r_
                t1, t2 = _truth(1), _truth(2)
                if t1 is None or t2 is None or t1 == t2:
                    continue
                multi = (bool(e[2]) == t2)                         # this path is the one several kernels take
                comps = [n for x in ev if x[0] == 'stmt' for n in ast.walk(x[1]) if isinstance(n, (ast.ListComp, ast.GeneratorExp))]
                for c in comps:
                    g = c.generators[0]
                    applied = [n for n in ast.walk(c.elt) if isinstance(n, ast.Call)]
                    if isinstance(g.iter, ast.Call) and dotted(g.iter.func) == 'zip' and len(g.iter.args) == 2 and dotted(g.iter.args[0]) == 'self.kernel' \
                            and isinstance(g.target, ast.Tuple) and len(g.target.elts) == 2:
                        kn, rn = g.target.elts[0].id, g.target.elts[1].id
                        if multi and any(isinstance(a.func, ast.Name) and a.func.id == kn and any(isinstance(y, ast.Name) and y.id == rn for x in a.args for y in ast.walk(x))
                                         for a in applied):
                            ok_multi = True
                    elif isinstance(g.target, ast.Name):
                        rn = g.target.id
                        if (not multi) and any(isinstance(a.func, ast.Subscript) and dotted(a.func.value) == 'self.kernel' and src(a.func.slice) == '0'
                                               and any(isinstance(y, ast.Name) and y.id == rn for x in a.args for y in ast.walk(x)) for a in applied):
                            ok_single = True
    res.inst({'function': f.fq, 'one_kernel_for_all': ok_single, 'one_kernel_per_residual': ok_multi}, f.fq + 'sel')
    if not (ok_multi and ok_single):
        res.add(Finding('C09.SEL', f, 'RobustModel.loss no longer selects kernel[0] for a single kernel and zip(kernel, residuals) otherwise', construct='selection'))
    return res


@guarded
def rule_contr(repo, tier):
    res = RuleResult('C09.CONTR', 'Triggs: the rank-one Jacobian correction contracts over the residual dimension (J\' = sJ - alpha/x * R (R^T sJ)): '
                     'the term subtracted from the scaled Jacobian rows is produced by a contraction over d (einsum / matmul / sum), not by an '
                     'elementwise product', floor=1)
    f = repo.func(COR, 'Triggs.forward')
    R = TV([Bt, sym('d')])
    J = TV([sym('Nd'), sym('k')])
    stores = []
    it = Interp(repo, lambda node, msg: None)
    it.store_hook = lambda target, base, tgt, rhs, st: stores.append((target, base, tgt, rhs, st))
    it.run_function(f, {'R': R, 'J': J, 'self.func': TOP, 'self.kernel': TOP})
    from ..expr import returns_of as _ro
    jname = None
    for r in _ro(f.node):
        from ..expr import ret_elts
        el = ret_elts(f.node, r)
        if el is not None and len(el) == 2:
            jname = _root_name(el[1])
    n = 0
    for target, base, tgt, rhs, st in stores:
        if _root_name(target) != jname:
            continue
        n += 1
        contr = getattr(rhs, 'contr', frozenset()) if isinstance(rhs, TV) else None
        ok = contr is not None and sym('d') in contr
        res.inst({'function': f.fq, 'store': src(target)[:40], 'rhs': repr(rhs), 'contracted': sorted(str(c[1]) for c in (contr or [])), 'ok': ok},
                 src(target))
        if contr is None:
            res.unresolved += 1
        elif not ok:
            res.add(Finding('C09.CONTR', f, 'the correction stored into the returned Jacobian is computed without contracting over the residual '
                            'dimension d (contracted: %s): an elementwise product replaces R (R^T J)' % sorted(str(c[1]) for c in contr), node=st))
    if n == 0:
        raise AnalysisError('C09.CONTR: no masked store into the returned Jacobian found in Triggs.forward')
    return res


# ---------------------------------------------------------------- TRIGGS: the correction in the abstraction "along R / across R"

class _S(float):
    '''per-residual scalar'''


class _V:
    '''c * R'''
    def __init__(self, c): self.c = c


class _M:
    '''(a I + b P) J with P = R R^T / |R|^2 (P P = P)'''
    def __init__(self, a, b): self.a, self.b = a, b


class _Row:
    '''k * R^T J (the residual contracted with the Jacobian)'''
    def __init__(self, k): self.k = k


def _triggs_eval(f, X, G1, G2):
    """abstract evaluation of the straight-line body of Triggs.forward at one point (x, rho', rho'') on the branch of the mask (x != 0, rho'' > 0).  Values: scalars
    per residual, multiples c R of the residual, operators (a I + b P) J applied to the Jacobian.  Indexing / view / expand / unsqueeze do not change the class of a
    value.  Anything else raises AnalysisError."""
    import math
    env = {}
    pos = f.pos_params
    env[pos[1]] = _V(1.0)
    env[pos[2]] = _M(1.0, 0.0)
    SHAPEY = {'unsqueeze', 'squeeze', 'expand_as', 'expand', 'view', 'view_as', 'reshape', 'clone', 'contiguous', 'detach', 'to', 'type_as', 'flatten'}

    def ev(e):
        if isinstance(e, ast.Constant) and isinstance(e.value, (int, float)) and not isinstance(e.value, bool):
            return _S(e.value)
        if isinstance(e, ast.Name):
            if e.id not in env:
                raise AnalysisError('C09.TRIGGS: `%s` is read before the evaluator bound it' % e.id)
            return env[e.id]
        if isinstance(e, ast.Tuple):
            return tuple(ev(x) for x in e.elts)
        if isinstance(e, ast.Subscript):
            b = ev(e.value)
            if isinstance(b, tuple) and isinstance(e.slice, ast.Constant) and isinstance(e.slice.value, int):
                return b[e.slice.value]
            return b
        if isinstance(e, ast.UnaryOp) and isinstance(e.op, ast.USub):
            v = ev(e.operand)
            return _S(-v) if isinstance(v, _S) else _V(-v.c) if isinstance(v, _V) else _M(-v.a, -v.b)
        if isinstance(e, ast.BinOp):
            l, r = ev(e.left), ev(e.right)
            if isinstance(e.op, (ast.Add, ast.Sub)):
                sg = 1.0 if isinstance(e.op, ast.Add) else -1.0
                if isinstance(l, _S) and isinstance(r, _S):
                    return _S(l + sg * r)
                if isinstance(l, _V) and isinstance(r, _V):
                    return _V(l.c + sg * r.c)
                if isinstance(l, _M) and isinstance(r, _M):
                    return _M(l.a + sg * r.a, l.b + sg * r.b)
            elif isinstance(e.op, ast.MatMult):
                # c R^T (a I + b P) J = c (a + b) R^T J ;  (c R)(k R^T J) = c k |R|^2 P J
                if isinstance(l, _V) and isinstance(r, _M):
                    return _Row(l.c * (r.a + r.b))
                if isinstance(l, _V) and isinstance(r, _Row):
                    return _M(0.0, l.c * r.k * X)
            elif isinstance(e.op, ast.Mult):
                if isinstance(l, _S) and isinstance(r, _S):
                    return _S(l * r)
                for s, o in ((l, r), (r, l)):
                    if isinstance(s, _S) and isinstance(o, _Row):
                        return _Row(s * o.k)
                    if isinstance(s, _S) and isinstance(o, _V):
                        return _V(s * o.c)
                    if isinstance(s, _S) and isinstance(o, _M):
                        return _M(s * o.a, s * o.b)
            elif isinstance(e.op, ast.Div):
                if isinstance(r, _S):
                    if r == 0:
                        raise ZeroDivisionError
                    return _S(l / r) if isinstance(l, _S) else _V(l.c / r) if isinstance(l, _V) else _M(l.a / r, l.b / r)
            elif isinstance(e.op, ast.Pow) and isinstance(l, _S) and isinstance(r, _S):
                return _S(l ** r)
            raise AnalysisError('C09.TRIGGS: cannot evaluate `%s` in the along-R abstraction' % src(e)[:60])
        if isinstance(e, ast.Call):
            fn = dotted(e.func) or ''
            if isinstance(e.func, ast.Attribute):
                m = e.func.attr
                if m in SHAPEY:
                    return ev(e.func.value)
                if m in ('sqrt', 'clamp', 'clamp_min', 'abs', 'square', 'reciprocal', 'neg') and not fn.startswith('torch.'):
                    v = ev(e.func.value)
                    if isinstance(v, _S):
                        if m == 'sqrt':
                            return _S(math.sqrt(v))
                        if m in ('clamp', 'clamp_min'):
                            lo = next((ev(k.value) for k in e.keywords if k.arg == 'min'), ev(e.args[0]) if e.args else None)
                            hi = next((ev(k.value) for k in e.keywords if k.arg == 'max'), ev(e.args[1]) if len(e.args) > 1 else None)
                            w = float(v)
                            w = max(w, lo) if lo is not None else w
                            w = min(w, hi) if hi is not None else w
                            return _S(w)
                        return _S({'abs': abs(v), 'square': v * v, 'reciprocal': 1 / v, 'neg': -v}[m])
            if fn in ('torch.sqrt',) and len(e.args) == 1 and isinstance(ev(e.args[0]), _S):
                return _S(math.sqrt(ev(e.args[0])))
            if fn == 'torch.einsum' and len(e.args) == 4 and isinstance(e.args[0], ast.Constant):
                spec = str(e.args[0].value).replace(' ', '')
                a, b, c = ev(e.args[1]), ev(e.args[2]), ev(e.args[3])
                ins, out = spec.split('->')
                i1, i2, i3 = [t.replace('...', '') for t in ins.split(',')]
                out = out.replace('...', '')
                # v1_d v2_k M_kl -> dl : (c1 R)(c2 R)^T (a I + b P) J = c1 c2 |R|^2 (a + b) P J
                if isinstance(a, _V) and isinstance(b, _V) and isinstance(c, _M) and len(i1) == 1 and len(i2) == 1 and len(i3) == 2 and i3[0] == i2 and out == i1 + i3[1] and i1 != i2:
                    return _M(0.0, a.c * b.c * X * (c.a + c.b))
            raise AnalysisError('C09.TRIGGS: cannot evaluate the call `%s` in the along-R abstraction' % src(e)[:60])
        raise AnalysisError('C09.TRIGGS: cannot evaluate `%s` in the along-R abstraction' % src(e)[:60])

    def bind(t, v):
        if isinstance(t, ast.Name):
            env[t.id] = v
        elif isinstance(t, ast.Subscript) and isinstance(t.value, ast.Name):
            env[t.value.id] = v                      # masked store: the evaluation follows the masked branch
        else:
            raise AnalysisError('C09.TRIGGS: cannot bind `%s`' % src(t)[:40])
    mask_seen = False
    for st in f.node.body:
        if isinstance(st, ast.Expr) and isinstance(st.value, ast.Constant):
            continue
        if isinstance(st, ast.Return):
            v = ev(st.value)
            if not (isinstance(v, tuple) and len(v) == 2):
                raise AnalysisError('C09.TRIGGS: Triggs.forward no longer returns the pair (residual, Jacobian)')
            return v
        if isinstance(st, ast.AugAssign) and isinstance(st.op, (ast.Add, ast.Sub, ast.Mult, ast.Div)):
            load = ast.parse(src(st.target), mode='eval').body
            bind(st.target, ev(ast.BinOp(left=load, op=st.op, right=st.value)))
            continue
        if not (isinstance(st, ast.Assign) and len(st.targets) == 1):
            raise AnalysisError('C09.TRIGGS: statement `%s` of Triggs.forward is outside the straight-line form the evaluator reads' % src(st)[:50])
        t, v = st.targets[0], st.value
        if isinstance(v, ast.Call) and isinstance(v.func, ast.Attribute) and v.func.attr == 'compute_grads' and isinstance(t, ast.Tuple) and len(t.elts) == 3:
            for n, val in zip(t.elts, (X, G1, G2)):
                env[n.id] = _S(val)
            continue
        # the mask itself (comparisons / boolean algebra) is not a value of the abstraction
        if any(isinstance(n, ast.Compare) for n in ast.walk(v)):
            if isinstance(t, ast.Name):
                env[t.id] = None
                mask_seen = True
                continue
        val = ev(v)
        if isinstance(t, ast.Tuple):
            if not (isinstance(val, tuple) and len(val) == len(t.elts)):
                raise AnalysisError('C09.TRIGGS: cannot unpack `%s`' % src(st)[:50])
            for tt, vv in zip(t.elts, val):
                bind(tt, vv)
        else:
            bind(t, val)
    raise AnalysisError('C09.TRIGGS: Triggs.forward has no return')


def _inline_expression_helpers(repo, f):
    """a copy of the function in which every call of a package function / method whose body is one returned expression is replaced by that expression (parameters
    substituted): a formula moved into a helper reads like the formula in place"""
    import copy

    class _Shim:
        pass

    class T(ast.NodeTransformer):
        def visit_Call(self, c):
            self.generic_visit(c)
            try:
                cands, how = repo.resolve_call(f, c, by_name=False)
            except Exception:
                return c
            if len(cands) != 1 or how not in ('direct', 'self', 'cls'):
                return c
            g = cands[0]
            body = [st for st in g.node.body if not (isinstance(st, ast.Expr) and isinstance(st.value, ast.Constant))]
            if len(body) != 1 or not isinstance(body[0], ast.Return) or body[0].value is None or c.keywords:
                return c
            params = list(g.pos_params)
            if how in ('self', 'cls') and params and not g.is_static():
                params = params[1:]
            if len(params) != len(c.args):
                return c
            return subst(copy.deepcopy(body[0].value), dict(zip(params, c.args)))
    sh = _Shim()
    sh.node = T().visit(copy.deepcopy(f.node))
    ast.fix_missing_locations(sh.node)
    sh.pos_params, sh.fq, sh.cls, sh.module = f.pos_params, f.fq, f.cls, f.module
    sh.relpath = getattr(f, 'relpath', None)
    return sh


@guarded
def rule_triggs(repo, tier):
    """The three identities that make (R', J') the Triggs correction, decided in the abstraction in which every quantity of forward() is a scalar per residual, a
    multiple c R of the residual, or an operator (a I + b P) J on the Jacobian (P the projector on R): with R' = c R, J' = (a I + b P) J
        J'^T R' = c (a + b) J^T R                     must be rho' J^T R            (the descent direction is the gradient of the robust loss)
        J'^T J' = J^T (a^2 (I - P) + (a + b)^2 P) J   must be J^T (rho' I + 2 rho'' R R^T) J = J^T (rho' (I - P) + (rho' + 2 rho'' |R|^2) P) J
    i.e. c (a + b) = rho', a^2 = rho', (a + b)^2 = rho' + 2 rho'' |R|^2 - three polynomial identities in (|R|^2, rho', rho''), evaluated on a grid of the region the
    masked branch covers (|R|^2 > 0, rho' > 0, rho'' > 0).  The source is read, never run: the evaluator interprets the statements of forward() over these three
    classes of values."""
    res = RuleResult('C09.TRIGGS', 'Triggs.forward on the masked branch (|R| != 0, rho\'\' > 0), in the along-R / across-R abstraction R\' = c R, J\' = (a I + b P) J: '
                     'c (a + b) = rho\' (gradient of the robust loss), a^2 = rho\' and (a + b)^2 = rho\' + 2 rho\'\' |R|^2 (Triggs Gauss-Newton Hessian), on a grid of '
                     '(|R|^2, rho\', rho\'\')', floor=27)
    f = repo.func(COR, 'Triggs.forward')
    fe = _inline_expression_helpers(repo, f)
    bad = {}
    for X in (0.2, 1.0, 4.0):
        for G1 in (0.3, 1.0, 2.5):
            for G2 in (0.1, 0.7, 3.0):
                r, j = _triggs_eval(fe, X, G1, G2)
                if not (isinstance(r, _V) and isinstance(j, _M)):
                    raise AnalysisError('C09.TRIGGS: the returned pair is not (multiple of R, operator on J) in the abstraction')
                grad, across, along = r.c * (j.a + j.b), j.a * j.a, (j.a + j.b) ** 2
                ok = [abs(grad - G1) < 1e-9 * max(1, G1), abs(across - G1) < 1e-9 * max(1, G1), abs(along - (G1 + 2 * G2 * X)) < 1e-9 * max(1, G1 + 2 * G2 * X)]
                res.inst({'|R|^2': X, "rho'": G1, "rho''": G2, 'c(a+b)': round(grad, 9), 'a^2': round(across, 9), '(a+b)^2': round(along, 9), 'identities hold': all(ok)}, (X, G1, G2))
                for k, name in zip(ok, ('gradient c (a + b) = rho\'', 'Hessian across R: a^2 = rho\'', 'Hessian along R: (a + b)^2 = rho\' + 2 rho\'\' |R|^2')):
                    if not k:
                        bad.setdefault(name, (X, G1, G2, grad, across, along))
    for name, (X, G1, G2, grad, across, along) in bad.items():
        res.add(Finding('C09.TRIGGS', f, 'Triggs.forward violates the identity "%s" on the masked branch, e.g. at |R|^2 = %g, rho\' = %g, rho\'\' = %g: c (a + b) = %.6g, '
                        'a^2 = %.6g, (a + b)^2 = %.6g (wanted %g, %g, %g)' % (name, X, G1, G2, grad, across, along, G1, G1, G1 + 2 * G2 * X), construct='triggs identity|' + name))
    return res


@guarded
def rule_grad2(repo, tier):
    """Triggs needs rho'' = d(rho')/dx by differentiating the graph of rho'.  A kernel with constant slope (Scale, any linear user kernel, Huber
    on inliers only is NOT such a case because of its masked assignment) gives a rho' WITHOUT a graph, and autograd.grad on it raises instead
    of returning zero.  Every second-order grad call - a grad whose output stems from an earlier grad(..., create_graph=True) - is therefore
    dominated by a test that this output requires grad (with a zero second derivative otherwise)."""
    res = RuleResult('C09.GRAD2', 'correctors: a second-order autograd.grad (of the result of a create_graph=True grad) is taken only under a test '
                     'that the first derivative carries a graph; a constant rho\' has rho\'\' = 0, it must not raise', floor=1)
    m = repo.module('pypose.optim.corrector')
    n = 0
    for f in m.functions.values():
        first = {}
        for a in ast.walk(f.node):
            if isinstance(a, ast.Assign) and len(a.targets) == 1 and isinstance(a.targets[0], ast.Name):
                for c in ast.walk(a.value):
                    if isinstance(c, ast.Call) and (dotted(c.func) or '').split('.')[-1] == 'grad' and \
                            any(k.arg == 'create_graph' and isinstance(k.value, ast.Constant) and k.value.value is True for k in c.keywords):
                        first[a.targets[0].id] = a
        if not first:
            continue
        parents = {}
        for p_ in ast.walk(f.node):
            for c_ in ast.iter_child_nodes(p_):
                parents[id(c_)] = p_
        for c in ast.walk(f.node):
            if isinstance(c, ast.Call) and (dotted(c.func) or '').split('.')[-1] == 'grad' and c.args:
                used = {x.id for x in ast.walk(c.args[0]) if isinstance(x, ast.Name)} & set(first)
                via = None
                if not used:
                    # grad(s1, x) with s1 = g1.sum(): one level of local names
                    for nm in {x.id for x in ast.walk(c.args[0]) if isinstance(x, ast.Name)}:
                        for a in ast.walk(f.node):
                            if isinstance(a, ast.Assign) and len(a.targets) == 1 and isinstance(a.targets[0], ast.Name) and a.targets[0].id == nm:
                                u2 = {x.id for x in ast.walk(a.value) if isinstance(x, ast.Name)} & set(first)
                                if u2:
                                    used, via = u2, (nm, a)
                if not used:
                    continue
                n += 1
                g = sorted(used)[0]
                # everything from the first derivative to the second runs with grad ENABLED: optimizers call the correctors under no_grad, and
                # an op executed outside enable_grad (g1.sum()) carries no graph there - rho'' silently becomes zero
                def in_enable_grad(node):
                    if any('enable_grad' in (dotted(d.func if isinstance(d, ast.Call) else d) or '') for d in f.node.decorator_list):
                        return True
                    cur_ = node
                    while id(cur_) in parents:
                        cur_ = parents[id(cur_)]
                        if isinstance(cur_, ast.With) and any('enable_grad' in src(it.context_expr) for it in cur_.items):
                            return True
                    return False
                chain = [first[g], c] + ([via[1]] if via else [])
                outside = [x for x in chain if not in_enable_grad(x)]
                res.inst({'function': f.fq, 'derivative chain under enable_grad': not outside}, (f.fq, 'scope', src(c)))
                for x in outside:
                    res.add(Finding('C09.GRAD2', f, '`%s` belongs to the chain rho\' -> rho\'\' but is executed outside torch.enable_grad(): GN / LM call the corrector '
                                    'under no_grad, where it produces no graph, so the second derivative is silently taken as zero and Triggs degrades to '
                                    'FastTriggs' % src(x)[:60], node=x, construct='outside enable_grad|' + norm_construct(x, f.node)))
                if via:
                    g = via[0] if False else g
                # guarded: an enclosing If / IfExp whose test reads <g>.requires_grad (or grad_fn)
                ok = False
                cur = c
                while id(cur) in parents:
                    par = parents[id(cur)]
                    if isinstance(par, (ast.If, ast.IfExp)) and cur is not par.test:
                        tnames = {dotted(x) for x in ast.walk(par.test) if isinstance(x, ast.Attribute)}
                        positive = (isinstance(par, ast.IfExp) and cur is par.body) or (isinstance(par, ast.If) and any(cur is s_ or any(cur is y for y in ast.walk(s_)) for s_ in par.body))
                        gnames = {g} | ({via[0]} if via else set())
                        if ({x + sfx for x in gnames for sfx in ('.requires_grad', '.grad_fn')} & tnames) and positive and not (isinstance(par.test, ast.UnaryOp) and isinstance(par.test.op, ast.Not)):
                            ok = True
                    cur = par
                res.inst({'function': f.fq, 'second-order grad': src(c)[:50], 'of': g, 'under a requires_grad test': ok}, (f.fq, src(c)))
                if not ok:
                    res.add(Finding('C09.GRAD2', f, '`%s` differentiates `%s` unconditionally: for a kernel with constant slope (Scale, a linear kernel) `%s` has '
                                    'no graph and autograd raises "does not require grad" - Triggs fails where it should coincide with FastTriggs'
                                    % (src(c)[:50], g, g), node=c))
    if n == 0:
        raise AnalysisError('C09.GRAD2: no second-order grad call found in the correctors')
    return res


@guarded
def rule_defcorr(repo, tier):
    """GN and LM build their default corrector the same way: a kernel without an explicit corrector gets FastTriggs(kernel) per kernel (the step is then
    the gradient step of the robust loss that is reported), no kernel gets Trivial.  The two constructors are siblings; their corrector set-up is
    compared statement by statement after normalisation."""
    res = RuleResult('C09.DEFCORR', 'GaussNewton.__init__ and LevenbergMarquardt.__init__ set up self.corrector identically; a kernel given without a '
                     'corrector is wrapped in FastTriggs', floor=2)
    forms = {}
    for cname in ('GaussNewton', 'LevenbergMarquardt'):
        f = repo.func(OPT, cname + '.__init__')
        stmts = []
        def collect(body):
            for st in body:
                if isinstance(st, ast.If):
                    inner_before = len(stmts)
                    collect(st.body); collect(st.orelse)
                    if len(stmts) > inner_before:
                        stmts.insert(inner_before, 'if ' + src(st.test).replace(' ', ''))
                elif isinstance(st, ast.Assign) and any((dotted(t) or '') == 'self.corrector' for t in st.targets):
                    stmts.append(src(st).replace(' ', ''))
        collect(f.node.body)
        forms[cname] = stmts
        wraps = any('FastTriggs(' in x for x in stmts)
        res.inst({'function': f.fq, 'corrector set-up': stmts, 'wraps a bare kernel in FastTriggs': wraps}, f.fq)
        if not wraps:
            res.add(Finding('C09.DEFCORR', f, '%s.__init__ no longer wraps a kernel given without a corrector in FastTriggs: the loss reported is the robust one, '
                            'the step solved is the uncorrected J d = -R' % cname, construct='no FastTriggs default'))
    if forms['GaussNewton'] != forms['LevenbergMarquardt'] and all(any('FastTriggs(' in x for x in v) for v in forms.values()):
        res.add(Finding('C09.DEFCORR', repo.func(OPT, 'GaussNewton.__init__'), 'GN and LM set up their default corrector differently: %s vs %s'
                        % (forms['GaussNewton'], forms['LevenbergMarquardt']), construct='siblings differ'))
    return res


@guarded
def rule_xdef(repo, tier):
    """Both correctors evaluate the kernel at the SAME quantity, the squared norm of each residual block over the last (residual) dimension,
    x = R.square().sum(-1, keepdim=True), for every rank of R: the optimizer documents the last dimension as the residual dimension and the loss
    sums kernel(|R_i|^2) accordingly.  The two definitions are compared after inlining; a rank test or another reduction in one of them makes
    that corrector's J'^T R' the gradient of a different loss than the one reported."""
    res = RuleResult('C09.XDEF', 'FastTriggs and Triggs evaluate the kernel at the same expression of R: the squared norm over the last dimension with '
                     'keepdim, unconditionally', floor=2)
    from ..expr import inline_straight
    defs = {}
    for q in ('FastTriggs.forward', 'Triggs.compute_grads'):
        f = repo.func('pypose.optim.corrector', q)
        cands = []
        for n in ast.walk(f.node):
            if isinstance(n, ast.Assign) and len(n.targets) == 1 and isinstance(n.targets[0], ast.Name):
                v = n.value
                if any(isinstance(c, ast.Call) and isinstance(c.func, ast.Attribute) and c.func.attr in ('square', 'pow', 'norm') for c in ast.walk(v)) or \
                        any(isinstance(c, ast.BinOp) and isinstance(c.op, ast.Pow) for c in ast.walk(v)):
                    cands.append(v)
        if not cands:
            raise AnalysisError('C09.XDEF: the squared-norm definition of %s was not found' % q)
        v = cands[0]
        # strip the autograd bookkeeping
        while isinstance(v, ast.Call) and isinstance(v.func, ast.Attribute) and v.func.attr in ('requires_grad_', 'detach', 'clone'):
            v = v.func.value
        defs[q] = (f, v)
        cond = isinstance(v, ast.IfExp) or any(isinstance(x, ast.IfExp) for x in ast.walk(v))
        canon = isinstance(v, ast.Call) and isinstance(v.func, ast.Attribute) and v.func.attr == 'sum' and [src(a) for a in v.args] == ['-1'] and \
            any(k.arg == 'keepdim' and isinstance(k.value, ast.Constant) and k.value.value is True for k in v.keywords) and \
            isinstance(v.func.value, ast.Call) and isinstance(v.func.value.func, ast.Attribute) and v.func.value.func.attr == 'square'
        res.inst({'function': f.fq, 'x': src(v)[:70], 'unconditional squared norm over the last dimension': canon and not cond}, f.fq)
        if cond:
            res.add(Finding('C09.XDEF', f, '`%s` chooses the evaluation point of the kernel by a test on the residual: one corrector then treats a residual of '
                            'that rank as other blocks than the loss and the sibling corrector do' % src(v)[:70], node=v, construct='xdef conditional'))
        elif not canon:
            res.add(Finding('C09.XDEF', f, '`%s` is not the squared norm over the last dimension (R.square().sum(-1, keepdim=True))' % src(v)[:70], node=v,
                            construct='xdef form'))
    return res


@guarded
def rule_pure9(repo, tier):
    from ..effects import rule_pure
    t = [('pypose.optim.corrector', 'FastTriggs.forward'), ('pypose.optim.corrector', 'Triggs.forward'), ('pypose.optim.corrector', 'Triggs.compute_grads')] + \
        [(KER, k + '.forward') for k in ('Huber', 'PseudoHuber', 'Cauchy', 'SoftLOne', 'Arctan', 'Tolerant', 'Scale')]
    return rule_pure(repo, 'C09.PURE', 'kernels and correctors return new tensors: the residual and the Jacobian handed to a corrector are not rescaled in place '
                     '(the caller corrects the same linearisation with another kernel, or compares Triggs with FastTriggs)', t)


@guarded
def rule_div(repo, tier):
    """Triggs divides by the squared residual norm x = |R_i|^2.  A residual block that is exactly zero (an already satisfied constraint) is inside the
    stated range and must coincide with FastTriggs; so every division by x happens on a gather `x[M]` whose mask M excludes x == 0 - selecting
    afterwards with where() keeps the 0/0 = NaN of the unselected branch in the result's J' rows."""
    res = RuleResult('C09.DIV', 'Triggs.forward divides by the squared residual norm only through a gather under a mask that excludes x == 0', floor=1)
    f = repo.func('pypose.optim.corrector', 'Triggs.forward')
    assigns = {}
    for n in ast.walk(f.node):
        if isinstance(n, ast.Assign):
            for t in n.targets:
                if isinstance(t, ast.Name):
                    assigns.setdefault(t.id, []).append(n.value)
                elif isinstance(t, ast.Tuple) and isinstance(n.value, ast.Call):
                    for k, x in enumerate(t.elts):
                        if isinstance(x, ast.Name):
                            assigns.setdefault(x.id, []).append(('item', k, n.value))
    # the name bound to the first result of compute_grads (x)
    xs = [nm for nm, vs in assigns.items() for v in vs if isinstance(v, tuple) and v[1] == 0 and isinstance(v[2].func, ast.Attribute) and v[2].func.attr == 'compute_grads']
    if len(xs) != 1:
        raise AnalysisError('C09.DIV: the squared residual norm of Triggs.forward was not identified')
    x = xs[0]

    def excludes_zero(m, depth=0):
        if depth > 4:
            return False
        if isinstance(m, ast.Name):
            vs = [v for v in assigns.get(m.id, []) if not isinstance(v, tuple)]
            return len(vs) == 1 and excludes_zero(vs[0], depth + 1)
        if isinstance(m, ast.Call) and isinstance(m.func, ast.Attribute) and m.func.attr in ('squeeze', 'unsqueeze', 'view', 'reshape'):
            return excludes_zero(m.func.value, depth + 1)
        if isinstance(m, ast.UnaryOp) and isinstance(m.op, ast.Invert):
            inner = m.operand
            while isinstance(inner, ast.Call) and isinstance(inner.func, ast.Attribute) and inner.func.attr in ('squeeze', 'unsqueeze', 'view', 'reshape'):
                inner = inner.func.value            # ~(...).squeeze(-1) parses as ~((...).squeeze(-1))
            # ~( (x == 0) | ... )
            parts = []
            def ors(e):
                if isinstance(e, ast.BinOp) and isinstance(e.op, ast.BitOr):
                    ors(e.left); ors(e.right)
                else:
                    parts.append(e)
            ors(inner)
            return any(isinstance(q, ast.Compare) and len(q.ops) == 1 and isinstance(q.ops[0], (ast.Eq, ast.LtE)) and dotted(q.left) == x and
                       isinstance(q.comparators[0], ast.Constant) and q.comparators[0].value == 0 for q in parts)
        if isinstance(m, ast.BinOp) and isinstance(m.op, ast.BitAnd):
            return excludes_zero(m.left, depth + 1) or excludes_zero(m.right, depth + 1)
        if isinstance(m, ast.Compare) and len(m.ops) == 1 and dotted(m.left) == x and isinstance(m.comparators[0], ast.Constant) and m.comparators[0].value == 0:
            return isinstance(m.ops[0], (ast.Gt, ast.NotEq))
        return False
    n = 0
    for d in ast.walk(f.node):
        if isinstance(d, ast.BinOp) and isinstance(d.op, ast.Div):
            den = d.right
            names = {q.id for q in ast.walk(den) if isinstance(q, ast.Name)}
            if x not in names:
                continue
            n += 1
            ok = isinstance(den, ast.Subscript) and dotted(den.value) == x and excludes_zero(den.slice)
            res.inst({'function': f.fq, 'division': src(d)[:60], 'denominator gathered under a mask excluding x == 0': ok}, src(d))
            if not ok:
                res.add(Finding('C09.DIV', f, '`%s` divides by the squared residual norm `%s` without first gathering it under a mask that excludes zero: a zero '
                                'residual block gives 0/0 = NaN in its J\' rows, where Triggs must coincide with FastTriggs' % (src(d)[:60], src(den)[:20]), node=d))
    if n == 0:
        raise AnalysisError('C09.DIV: no division by the squared residual norm found in Triggs.forward')
    # the rank-one (alpha) branch is documented "wherever rho'' > 0": the mask it is applied under also excludes rho'' <= 0 (g2, the third result of
    # compute_grads).  With `g2 == 0` only, negative curvature enters 1 + 2 x rho''/rho', whose clamped root gives alpha = 1 and a division by 1 - alpha = 0
    g2s = [nm for nm, vs in assigns.items() for v in vs if isinstance(v, tuple) and v[1] == 2 and isinstance(v[2].func, ast.Attribute) and v[2].func.attr == 'compute_grads']
    if len(g2s) == 1:
        g2 = g2s[0]
        cmps = [c for c in ast.walk(f.node) if isinstance(c, ast.Compare) and len(c.ops) == 1 and
                ((dotted(c.left) == g2 and isinstance(c.comparators[0], ast.Constant) and c.comparators[0].value == 0) or
                 (dotted(c.comparators[0]) == g2 and isinstance(c.left, ast.Constant) and c.left.value == 0))]
        okc = bool(cmps) and all(isinstance(c.ops[0], (ast.LtE, ast.Gt, ast.Lt, ast.GtE)) for c in cmps) and \
            any((isinstance(c.ops[0], (ast.LtE, ast.Gt)) and dotted(c.left) == g2) or (isinstance(c.ops[0], (ast.GtE, ast.Lt)) and dotted(c.comparators[0]) == g2) for c in cmps)
        res.inst({'function': f.fq, 'curvature tests': [src(c) for c in cmps], "excludes rho'' <= 0": okc}, 'curv')
        if not okc:
            res.add(Finding('C09.DIV', f, "the curvature guard `%s` of the rank-one branch does not exclude rho'' < 0: there 1 + 2 x rho''/rho' can be <= 0, the clamped root gives "
                            'alpha = 1 and sR = se / (1 - alpha) R divides by zero (and Triggs no longer coincides with FastTriggs for the built-in kernels)'
                            % (', '.join(src(c) for c in cmps) or 'missing'), node=cmps[0] if cmps else f.node, construct='curvature guard'))
    return res


SINGULAR_AT_ZERO = {'sqrt', 'rsqrt', 'log', 'log2', 'log10', 'reciprocal'}


@guarded
def rule_sing(repo, tier):
    """Kernels are differentiated by the correctors (rho' through autograd) at every residual, an exactly fitted sample (x = 0) included.  A
    function whose derivative is singular at 0 (sqrt, log, 1/x) may sit on the differentiable path to the returned value only if its operand
    is bounded away from zero BEFORE it is applied: x + positive constant, or a gather under the complement of an upper-bound mask (`x[~(sqrt(x)
    < delta)]`).  Selecting afterwards (`x.sqrt()[~mask]`) does not help: backward multiplies the masked-out zero cotangent by the infinite local
    derivative, 0 * inf = NaN.  Uses inside comparisons carry no gradient and are free."""
    res = RuleResult('C09.SING', 'kernel forward: every sqrt / log / reciprocal on the differentiable path to the result has an operand bounded away '
                     'from zero before it is applied (positive offset, or gathered under the complement of an upper-bound mask)', floor=3)
    m = repo.module(KER)
    for ci in m.classes.values():
        f = ci.methods.get('forward')
        if f is None:
            continue
        x = f.pos_params[1] if len(f.pos_params) > 1 else None
        if x is None:
            continue
        assigns = {}
        for n in ast.walk(f.node):
            if isinstance(n, ast.Assign) and len(n.targets) == 1 and isinstance(n.targets[0], ast.Name):
                assigns.setdefault(n.targets[0].id, []).append(n.value)

        def upper_mask(e, depth=0):
            """e is a boolean mask that holds only where the input is BELOW a bound: its complement bounds the input away from zero"""
            if isinstance(e, ast.UnaryOp) and isinstance(e.op, (ast.Invert, ast.Not)) and depth < 6:
                return lower_mask(e.operand, depth + 1)
            if isinstance(e, ast.Name) and depth < 4:
                return any(upper_mask(v, depth + 1) for v in assigns.get(e.id, [])) and len(assigns.get(e.id, [])) == 1
            if isinstance(e, ast.Compare) and len(e.ops) == 1:
                l, r = e.left, e.comparators[0]
                lx = x in {n.id for n in ast.walk(l) if isinstance(n, ast.Name)}
                rx = x in {n.id for n in ast.walk(r) if isinstance(n, ast.Name)}
                if isinstance(e.ops[0], (ast.Lt, ast.LtE)) and lx and not rx:
                    return True
                if isinstance(e.ops[0], (ast.Gt, ast.GtE)) and rx and not lx:
                    return True
            return False

        def lower_mask(e, depth=0):
            if isinstance(e, ast.UnaryOp) and isinstance(e.op, (ast.Invert, ast.Not)) and depth < 6:
                return upper_mask(e.operand, depth + 1)
            if isinstance(e, ast.Name) and depth < 4:
                vs = assigns.get(e.id, [])
                return len(vs) == 1 and lower_mask(vs[0], depth + 1)
            if isinstance(e, ast.Compare) and len(e.ops) == 1:
                l, r = e.left, e.comparators[0]
                lx = x in {n.id for n in ast.walk(l) if isinstance(n, ast.Name)}
                rx = x in {n.id for n in ast.walk(r) if isinstance(n, ast.Name)}
                if isinstance(e.ops[0], (ast.Gt, ast.GtE)) and lx and not rx:
                    return True
                if isinstance(e.ops[0], (ast.Lt, ast.LtE)) and rx and not lx:
                    return True
            return False

        def positive(e, depth=0):
            """operand provably > 0 given input >= 0 (asserted by C09.GUARD) and positive hyper-parameters"""
            if depth > 6:
                return False
            if isinstance(e, ast.Name):
                vs = assigns.get(e.id, [])
                return e.id != x and len(vs) == 1 and positive(vs[0], depth + 1)
            if isinstance(e, ast.Subscript):
                # gather of the input under a mask that bounds it from below
                if x in {n.id for n in ast.walk(e.value) if isinstance(n, ast.Name)}:
                    return lower_mask(e.slice) or positive(e.value, depth + 1)
                return False
            if isinstance(e, ast.BinOp) and isinstance(e.op, ast.Add):
                def poscst(t):
                    return (isinstance(t, ast.Constant) and isinstance(t.value, (int, float)) and t.value > 0) or \
                        (isinstance(t, ast.BinOp) and isinstance(t.op, ast.Div) and poscst(t.left) and (dotted(t.right) or '').startswith('self.')) or \
                        ((dotted(t) or '').startswith('self.') and dotted(t).split('.')[-1] in ('delta2', 'delta', 'c2', 'b'))
                def nonneg(t):
                    names = {n.id for n in ast.walk(t) if isinstance(n, ast.Name)}
                    return names <= {x, 'self'} and not any(isinstance(n, (ast.Sub, ast.USub)) for n in ast.walk(t)) or \
                        (isinstance(t, ast.Call) and isinstance(t.func, ast.Attribute) and t.func.attr == 'exp')
                return (poscst(e.left) and nonneg(e.right)) or (poscst(e.right) and nonneg(e.left))
            return False
        # differentiable path: everything except comparison operands
        in_compare = set()
        for n in ast.walk(f.node):
            if isinstance(n, ast.Compare):
                for c in ast.walk(n):
                    in_compare.add(id(c))
            if isinstance(n, ast.Assert):
                for c in ast.walk(n):
                    in_compare.add(id(c))
        # names that only feed comparisons (mask = x.sqrt() < d is handled above; norm = x.sqrt() used in a compare AND in the output is not)
        n_sites = 0
        for n in ast.walk(f.node):
            if isinstance(n, ast.Call) and isinstance(n.func, ast.Attribute) and n.func.attr in SINGULAR_AT_ZERO and id(n) not in in_compare:
                opnd = n.func.value
            elif isinstance(n, ast.Call) and (dotted(n.func) or '').split('.')[-1] in SINGULAR_AT_ZERO and (dotted(n.func) or '').startswith(('torch.',)) \
                    and n.args and id(n) not in in_compare:
                opnd = n.args[0]
            elif isinstance(n, ast.BinOp) and isinstance(n.op, ast.Pow) and isinstance(n.right, ast.Constant) and isinstance(n.right.value, float) \
                    and n.right.value < 1 and id(n) not in in_compare:
                opnd = n.left
            else:
                continue
            if x not in {q.id for q in ast.walk(opnd) if isinstance(q, ast.Name)} and not any(
                    isinstance(q, ast.Name) and q.id in assigns for q in ast.walk(opnd)):
                continue        # a constant expression (math.log of hyper-parameters)
            n_sites += 1
            ok = positive(opnd)
            res.inst({'function': f.fq, 'site': src(n)[:60], 'operand bounded away from zero before the call': ok}, (f.fq, src(n)))
            if not ok:
                res.add(Finding('C09.SING', f, '`%s` lies on the differentiable path of the kernel and its operand `%s` can be exactly zero (a perfectly fitted '
                                'residual): the derivative there is infinite and a mask applied afterwards turns it into 0 * inf = NaN in rho\''
                                % (src(n)[:60], src(opnd)[:40]), node=n))
        if n_sites == 0:
            res.inst({'function': f.fq, 'singular sites on the differentiable path': 0}, f.fq)
    return res


def _effective_compare(mask_expr):
    """(Compare node, effective operator) of a mask expression that is one comparison under any number of ~ / not and shape-only wrappers"""
    e, neg = mask_expr, False
    while True:
        if isinstance(e, ast.UnaryOp) and isinstance(e.op, (ast.Invert, ast.Not)):
            e, neg = e.operand, not neg
        elif isinstance(e, ast.Call) and isinstance(e.func, ast.Attribute) and e.func.attr in ('bool', 'unsqueeze', 'squeeze', 'clone', 'detach') and not (dotted(e.func) or '').startswith('torch.'):
            e = e.func.value
        elif isinstance(e, ast.Call) and dotted(e.func) == 'torch.logical_not' and e.args:
            e, neg = e.args[0], not neg
        else:
            break
    if not (isinstance(e, ast.Compare) and len(e.ops) == 1):
        return None
    op = {ast.Lt: '<', ast.LtE: '<=', ast.Gt: '>', ast.GtE: '>='}.get(type(e.ops[0]))
    if op is None:
        return None
    if neg:
        op = {'<': '>=', '<=': '>', '>': '<=', '>=': '<'}[op]
    # orientation: the data side on the left, the threshold (a constant or a hyper-parameter self.x) on the right - `self.delta > input.sqrt()` is `input.sqrt() < self.delta`
    def is_threshold(x):
        return isinstance(x, ast.Constant) or (dotted(x) or '').startswith('self.')
    if is_threshold(e.left) and not is_threshold(e.comparators[0]):
        e = ast.copy_location(ast.Compare(e.comparators[0], [e.ops[0]], [e.left]), e)
        op = {'<': '>', '<=': '>=', '>': '<', '>=': '<='}[op]
    return e, op


def _init_attrs(init):
    """self.attr -> expression over the constructor's parameters (straight-line assignments of __init__)"""
    out = {}
    for st in init.node.body:
        if isinstance(st, ast.Assign):
            for t in st.targets:
                pairs = list(zip(t.elts, st.value.elts)) if isinstance(t, ast.Tuple) and isinstance(st.value, ast.Tuple) and len(t.elts) == len(st.value.elts) else [(t, st.value)]
                for tt, vv in pairs:
                    d = dotted(tt)
                    if d and d.startswith('self.') and d.count('.') == 1:
                        out[d] = subst(vv, out)
    return out


@guarded
def rule_form(repo, tier):
    """Each kernel "maps non-negative input elementwise to its documented closed form, ... zero at zero ... (Huber with continuous value and slope
    at its threshold)".  The closed form is written twice in the source: as LaTeX in the class docstring and as the expression forward() returns.
    Both are parsed (sa.texmath for the LaTeX) and interpreted in the truncated-series domain over s = sqrt(x) (so that sqrt(x) is a power series) with the
    hyper-parameters as free inner variables; the expansions must agree to every order explored.  From the code alone: the s^0 coefficient is zero
    (rho(0) = 0), and at the Huber threshold, x = delta^2 (1 + t)^2, the two branches agree at orders t^0 and t^1 (value and slope)."""
    from ..texmath import parse_definition, math_blocks, TexError
    from .. import series, masks
    from ..limits import Evaluator
    from ..series import Unsupported, Inconclusive
    res = RuleResult('C09.FORM', 'every kernel\'s forward() is its documented closed form (LaTeX of the class docstring vs returned expression, compared as series in '
                     'sqrt(x) with the hyper-parameters free), vanishes at x = 0, and Huber\'s two branches join with equal value and slope at the threshold', floor=7)
    mod = repo.module(KER)
    decided = 0
    for cname, ci in mod.classes.items():
        fwd, init = ci.methods.get('forward'), ci.methods.get('__init__')
        if fwd is None or init is None:
            continue
        doc = ast.get_docstring(ci.node, clean=True) or ''
        attrs = _init_attrs(init)
        hyper = [p_ for p_ in init.pos_params if p_ != 'self']
        xin = [p_ for p_ in fwd.pos_params if p_ != 'self'][0]
        # code branches: (mask formula | None, mask expr | None, value)
        groups, guards, inl = masks.analyse_function(fwd.node)
        rets = returns_of(fwd.node)
        branches = []
        if len(rets) == 1:
            v = inline_straight(fwd.node, upto=rets[0]).value(rets[0].value)
            sg = [g for g in groups if g.kind == 'store']
            if sg and isinstance(v, ast.Call) and dotted(v.func) == '$upd':
                for m in sg[0].members:
                    branches.append((m[0], m[2], m[1]))
            else:
                branches.append((None, None, v))
        if not branches:
            raise AnalysisError('C09.FORM: cannot read the value returned by %s.forward' % cname)
        try:
            cases = None
            for b in math_blocks(doc):
                try:
                    cases = parse_definition(b)
                    break
                except TexError:
                    continue
            if cases is None:
                raise TexError('no parsable definition in the docstring')
        except TexError as ex:
            res.inst({'kernel': ci.fq, 'decided': False, 'reason': 'docstring formula: %s' % ex}, ci.fq)
            continue

        def evaluator(order):
            ring, gens, rings = series.tower(order)
            x = ring.mul(gens['s'], gens['s']) if 's' in gens else None
            vm = {}
            for h in hyper:
                if h in gens:
                    vm[dump(ast.Name(h, ast.Load()))] = gens[h]
            return ring, gens, vm

        def ev_code(e, ring, vm, xval):
            e2 = subst(e, dict(attrs))
            vm2 = dict(vm)
            vm2[dump(ast.Name(xin, ast.Load()))] = xval
            return Evaluator(ring, vm2, ('atom', ('none',))).ev(e2)

        def ev_doc(e, ring, vm, xval):
            vm2 = dict(vm)
            vm2[dump(ast.Name('x', ast.Load()))] = xval
            return Evaluator(ring, vm2, ('atom', ('none',))).ev(e)

        order = ['s'] + hyper
        ring, gens, vm = evaluator(order)
        xs = ring.mul(gens['s'], gens['s'])
        # pair code branches with documented cases
        pairs = []
        if len(cases) == 1 and len(branches) == 1:
            pairs.append((branches[0], cases[0]))
        elif len(cases) == len(branches) == 2:
            cif = [c for c in cases if c[0] is not None]
            cel = [c for c in cases if c[0] is None]
            eff = [_effective_compare(b[1]) for b in branches]
            if len(cif) == len(cel) == 1 and all(e is not None for e in eff) and eff[0][1][0] != eff[1][1][0]:
                same = [i for i in (0, 1) if eff[i][1][0] == cif[0][0][1][0]]
                if len(same) == 1:
                    pairs = [(branches[same[0]], cif[0]), (branches[1 - same[0]], cel[0])]
        if not pairs:
            res.inst({'kernel': ci.fq, 'decided': False, 'reason': 'branches of the code (%d) and cases of the docstring (%d) cannot be paired' % (len(branches), len(cases))}, ci.fq)
            res.add(Finding('C09.FORM', fwd, '%s.forward has %d branch(es), its documented closed form %d case(s)' % (cname, len(branches), len(cases)),
                            construct='branch count'))
            continue
        for (bf, bmask, bval), (ccond, cval) in pairs:
            inst = {'kernel': ci.fq, 'code': src(bval)[:60], 'documented': src(cval)[:60]}
            try:
                C = ev_code(bval, ring, vm, xs)
                D = ev_doc(cval, ring, vm, xs)
                diff = series.compare(ring, C, D, ['free'] * len(order))
                cond_diff = None
                if ccond is not None and bmask is not None:
                    ec = _effective_compare(bmask)
                    if ec is not None:
                        # the two inequalities are the same condition iff both sides cross at the same threshold in the same direction: on the curve
                        # x = thr (1 + t)^2 through the DOCUMENTED threshold both `lhs - rhs` vanish at t = 0 and grow with the same sign
                        cmp_node, opn = ec
                        thr_ring, thr_gens, _ = series.tower(['t'] + hyper)
                        tvm = {dump(ast.Name(h, ast.Load())): thr_gens[h] for h in hyper}
                        one_ = thr_ring.one()
                        # documented threshold: solve  lhs(x) = rhs  for the Huber form sqrt(x) = delta / x = delta^2 by trying x = rhs^2 and x = rhs
                        cands = []
                        for xcand in (ast.BinOp(ccond[2], ast.Pow(), ast.Constant(2)), ccond[2]):
                            try:
                                xt_ = thr_ring.mul(Evaluator(thr_ring, tvm, ('atom', ('none',))).ev(xcand), thr_ring.mul(thr_ring.add(one_, thr_gens['t']), thr_ring.add(one_, thr_gens['t'])))
                                dl = thr_ring.sub(ev_doc(ccond[0], thr_ring, tvm, xt_), ev_doc(ccond[2], thr_ring, tvm, xt_))
                            except (Unsupported, Inconclusive):
                                continue
                            if dl.c and all(e_ > 0 or thr_ring.base.maybe_zero(v_) for e_, v_ in dl.c.items()):
                                cands.append((xt_, dl))
                        if not cands:
                            raise Unsupported('threshold of the documented condition not recognised')
                        xt_, dl = cands[0]
                        try:
                            cl = thr_ring.sub(ev_code(cmp_node.left, thr_ring, tvm, xt_), ev_code(cmp_node.comparators[0], thr_ring, tvm, xt_))
                        except Unsupported:
                            # e.g. sqrt(delta (1 + t)^2): the code's threshold is not a rational function of the documented one - a different threshold
                            cl = thr_ring.one()
                        def lead_sign(z):
                            e0 = min(z.c)
                            v_ = z.c[e0]
                            while not isinstance(v_, Fraction):
                                v_ = v_.c[min(v_.c)]
                            return e0, (v_ > 0) - (v_ < 0)
                        vanishes = all(e_ > 0 or thr_ring.base.maybe_zero(v_) for e_, v_ in cl.c.items()) and cl.c
                        if not vanishes or lead_sign(cl)[1] != lead_sign(dl)[1] or opn[0] != ccond[1][0]:
                            cond_diff = 'the branch condition `%s` is not the documented `%s %s %s` (different threshold or direction)' % (src(cmp_node)[:40], src(ccond[0]), ccond[1], src(ccond[2]))
                inst.update({'decided': True, 'agree': diff is None and cond_diff is None})
                res.inst(inst, (ci.fq, src(bval)[:80]))
                decided += 1
                for dmsg in ([('value', diff)] if diff else []) + ([('condition', cond_diff)] if cond_diff else []):
                    res.add(Finding('C09.FORM', fwd, '%s.forward returns `%s`, its docstring defines `%s`: as functions of s = sqrt(x) and the hyper-parameters they differ - %s'
                                    % (cname, src(bval)[:60], src(cval)[:60], dmsg[1].replace('s^', 'sqrt(x)^')), node=rets[0],
                                    construct='closed form|%s|%s' % (cname, dmsg[0])))
                # zero at zero: the branch that contains x = 0 (the unconditional one, or the `if` branch of sqrt(x) < delta)
                if bf is None or bf[0] == 'atom':
                    zero_ok = all(e > 0 or ring.base.maybe_zero(v) for e, v in C.c.items()) and C.prec > 0
                    res.inst({'kernel': ci.fq, 'clause': 'rho(0) = 0', 'ok': zero_ok}, (ci.fq, 'zero'))
                    if not zero_ok:
                        res.add(Finding('C09.FORM', fwd, '%s.forward does not vanish at x = 0: constant term %s' % (cname, ring.base.show(C.c.get(0)) if 0 in C.c else '?'),
                                        node=rets[0], construct='zero at zero|' + cname))
            except (Unsupported, Inconclusive) as ex:
                inst.update({'decided': False, 'reason': '%s: %s' % (type(ex).__name__, ex)})
                res.inst(inst, (ci.fq, src(bval)[:80]))
        # Huber join: value and slope continuous at the threshold sqrt(x) = delta
        if len(branches) == 2 and hyper == ['delta']:
            try:
                ring2, gens2, rings2 = series.tower(['t', 'delta'])
                one = ring2.one()
                xt = ring2.mul(ring2.mul(gens2['delta'], gens2['delta']), ring2.mul(ring2.add(one, gens2['t']), ring2.add(one, gens2['t'])))
                vm2 = {dump(ast.Name('delta', ast.Load())): gens2['delta']}
                vals = [ev_code(b[2], ring2, vm2, xt) for b in branches]
                jd = series.compare(ring2, vals[0], vals[1], [('limit', 1), 'free'])
                res.inst({'kernel': ci.fq, 'clause': 'value and slope continuous at the threshold x = delta^2', 'ok': jd is None}, (ci.fq, 'join'))
                decided += 1
                if jd is not None:
                    res.add(Finding('C09.FORM', fwd, '%s.forward: the two branches do not join at the threshold x = delta^2 with equal value and slope (x = delta^2 (1+t)^2): %s'
                                    % (cname, jd), node=rets[0], construct='threshold join|' + cname))
            except (Unsupported, Inconclusive) as ex:
                res.inst({'kernel': ci.fq, 'clause': 'threshold join', 'decided': False, 'reason': str(ex)}, (ci.fq, 'join'))
    res.notes.append('%d comparisons decided' % decided)
    if decided < 6 and not res.findings:
        raise AnalysisError('C09.FORM: only %d closed-form comparisons could be decided (expected >= 6)' % decided)
    return res


def _rules_core(repo, tier):
    return [rule_guard(repo, tier), rule_kind(repo, tier)] + rule_masks(repo, 'C09.MP', 'C09.GD', [(KER, 'Huber.forward')], floor=1) + \
        [rule_unit(repo, tier), rule_sel_axis(repo, tier), rule_contr(repo, tier), rule_triggs(repo, tier), rule_sing(repo, tier), rule_grad2(repo, tier), rule_div(repo, tier),
         rule_pure9(repo, tier), rule_xdef(repo, tier), rule_defcorr(repo, tier), rule_form(repo, tier)]


def rules(repo, tier):
    from ..memo import rule_memo
    from ..optional import rule_optional
    from ..mode import mode_rules
    from ..callsig import rule_callsig
    from ..docsig import rule_docsig
    from ..axisdefault import rule_axisdefault
    return list(_rules_core(repo, tier)) + __import__('sa.core', fromlist=['x']).reid([__import__('sa.rules.c08', fromlist=['x']).rule_rej_exc_strat(repo, tier), __import__('sa.rules.c08', fromlist=['x']).rule_ts(repo, tier)], 'C09') + [rule_memo(repo, 'C09.MEMO', 'history independence: nothing computed from the contents of a tensor argument is kept '
                                                      'under the identity, address or version of that tensor, in module-level storage, or published from a generator '
                                                      'before it is complete - a later call with the same object and other contents must not be answered from it',
                                                      ['pypose.optim.corrector', 'pypose.optim.kernel', 'pypose.optim.optimizer'], floor=3),
            rule_optional(repo, 'C09.OPT', ['pypose.optim.corrector', 'pypose.optim.kernel', 'pypose.optim.optimizer'])] + mode_rules(repo, 'C09', ['pypose.optim.corrector', 'pypose.optim.kernel', 'pypose.optim.optimizer']) + [rule_callsig(repo, 'C09.SIG', ['pypose.optim.corrector', 'pypose.optim.kernel', 'pypose.optim.optimizer']), rule_docsig(repo, 'C09.DOC', ['pypose.optim.corrector', 'pypose.optim.kernel', 'pypose.optim.optimizer'])] + [
            rule_axisdefault(repo, 'C09.AXDEF', ['pypose.optim.corrector', 'pypose.optim.kernel'])]
