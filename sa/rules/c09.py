"""C09 - kernels and correctors."""
import ast
from ..core import RuleResult, Finding, AnalysisError, dotted, src, norm_construct, ClassInfo
from ..expr import inline_straight, returns_of, dump, subst
from .. import paths

KER = 'pypose.optim.kernel'
COR = 'pypose.optim.corrector'
OPT = 'pypose.optim.optimizer'


def kernel_classes(repo):
    m = repo.module(KER)
    out = []
    for c in m.classes.values():
        if 'forward' in c.methods and any(b.split('.')[-1] == 'Module' for b in c.base_exprs):
            out.append(c)
    return out


def _nonneg_guard(test, pname, truth=True):
    """does `test` (asserted / assumed with `truth`) establish  pname >= 0 elementwise?"""
    if isinstance(test, ast.UnaryOp) and isinstance(test.op, ast.Not):
        return _nonneg_guard(test.operand, pname, not truth)
    if isinstance(test, ast.BoolOp) and isinstance(test.op, ast.And) and truth:
        return any(_nonneg_guard(v, pname, True) for v in test.values)
    if isinstance(test, ast.BoolOp) and isinstance(test.op, ast.Or) and not truth:
        return any(_nonneg_guard(v, pname, False) for v in test.values)
    # reductions
    if isinstance(test, ast.Call):
        d = dotted(test.func) or ''
        red = d.split('.')[-1]
        inner = None
        if d in ('torch.all', 'torch.any', 'all', 'any') and test.args:
            inner = test.args[0]
        elif isinstance(test.func, ast.Attribute) and red in ('all', 'any'):
            inner = test.func.value
        if inner is not None:
            cmp_ = _cmp(inner, pname)
            if cmp_ is None:
                return False
            if red == 'all':
                return truth and cmp_ == 'ge'
            if red == 'any':
                return (not truth) and cmp_ == 'lt'
        if d.endswith('bool') and test.args:
            return _nonneg_guard(test.args[0], pname, truth)
    return False


def _cmp(e, pname):
    """'ge' for  p >= 0 / 0 <= p ;  'lt' for p < 0 / 0 > p ; else None"""
    if isinstance(e, ast.Compare) and len(e.ops) == 1:
        l, r, op = e.left, e.comparators[0], e.ops[0]
        def isp(x): return isinstance(x, ast.Name) and x.id == pname
        def is0(x): return isinstance(x, ast.Constant) and x.value in (0, 0.0) and not isinstance(x.value, bool)
        if isp(l) and is0(r):
            return 'ge' if isinstance(op, ast.GtE) else 'lt' if isinstance(op, ast.Lt) else None
        if is0(l) and isp(r):
            return 'ge' if isinstance(op, ast.LtE) else 'lt' if isinstance(op, ast.Gt) else None
    return None


def rule_guard(repo, tier):
    res = RuleResult('C09.GUARD', 'every kernel forward establishes input >= 0 (assert / raising branch) before computing with it', floor=7)
    for c in kernel_classes(repo):
        f = c.methods['forward']
        pp = f.pos_params
        if len(pp) < 2:
            raise AnalysisError('C09.GUARD: %s.forward has no input parameter' % c.name)
        pname = pp[1]
        pths, _ = paths.function_paths(f.node, limit=512)
        ok_all = True
        first_use = None
        for ev, ex in pths:
            if ex == 'raise':
                continue
            guarded = False
            for e in ev:
                if e[0] == 'stmt':
                    st = e[1]
                    if isinstance(st, ast.Assert) and _nonneg_guard(st.test, pname):
                        guarded = True
                        continue
                    if isinstance(st, ast.Expr) and isinstance(st.value, ast.Call) and dotted(st.value.func) in ('torch._assert', 'torch._check') \
                            and st.value.args and _nonneg_guard(st.value.args[0], pname):
                        guarded = True
                        continue
                    if isinstance(st, ast.Expr) and isinstance(st.value, ast.Constant):
                        continue
                    uses = any(isinstance(n, ast.Name) and n.id == pname and isinstance(n.ctx, ast.Load) for n in ast.walk(st))
                    if uses and not guarded:
                        ok_all = False
                        first_use = first_use or st
                        break
                elif e[0] == 'assume':
                    # `if (input < 0).any(): raise` : on the surviving branch the guard holds
                    if _nonneg_guard(e[1], pname, e[2]):
                        guarded = True
        res.inst({'function': f.fq, 'guarded': ok_all}, f.fq)
        if not ok_all:
            res.add(Finding('C09.GUARD', f, '%s.forward computes with `%s` without first rejecting negative input (first use: %s)'
                            % (c.name, pname, src(first_use)[:70]), construct='%s.forward unguarded' % c.name))
    return res




# ---------------------------------------------------------------- KIND (nominal dimension typing of the correctors)

from ..shapes import Interp, TV, IntV, NONE, TOP, sym, lit   # noqa: E402

Bt = ('batch', 'B')


def rule_kind(repo, tier):
    res = RuleResult('C09.KIND', 'correctors: every definition of the returned residual carries the last dimension d of R (a masked '
                     'store whose right-hand side has last dimension 1 is a broadcast fill: the residual lost R); the returned '
                     'Jacobian carries the parameter dimension of J', floor=4)
    for cname in ('FastTriggs', 'Triggs'):
        f = repo.func(COR, cname + '.forward')
        R = TV([Bt, sym('d')])
        J = TV([sym('Nd'), sym('k')])
        reports = []
        it = Interp(repo, lambda node, msg: reports.append((node, msg)))
        stores = []
        it.store_hook = lambda target, base, tgt, rhs, st: stores.append((target, base, tgt, rhs, st))
        rets = it.run_function(f, {'R': R, 'J': J, 'self.func': TOP, 'self.kernel': TOP})
        if not rets:
            raise AnalysisError('C09.KIND: %s.forward has no analysable return path' % cname)
        # names of the returned residual / Jacobian (to attribute masked stores)
        from ..expr import returns_of
        rnodes = returns_of(f.node)
        ret_names = []
        for r in rnodes:
            if isinstance(r.value, ast.Tuple) and len(r.value.elts) == 2:
                ret_names.append([_root_name(x) for x in r.value.elts])
        for rv in rets:
            ok_r = ok_j = None
            if hasattr(rv, 'items') and len(rv.items) == 2:
                r0, j0 = rv.items
                if isinstance(r0, TV) and r0.shape:
                    ok_r = r0.shape[-1] == sym('d')
                if isinstance(j0, TV) and j0.shape:
                    ok_j = j0.shape[-1] == sym('k')
            res.inst({'function': f.fq, 'returned': repr(rv), 'residual_carries_d': ok_r, 'jacobian_carries_k': ok_j}, (f.fq, 'ret'))
            if ok_r is False:
                res.add(Finding('C09.KIND', f, 'returned residual has last dimension %s, not the dimension d of R' % (rv.items[0],),
                                construct='returned residual'))
            if ok_j is False:
                res.add(Finding('C09.KIND', f, 'returned Jacobian has last dimension %s, not the parameter dimension of J' % (rv.items[1],),
                                construct='returned Jacobian'))
            if ok_r is None or ok_j is None:
                res.unresolved += 1
        for target, base, tgt, rhs, st in stores:
            name = _root_name(target)
            role = None
            for rn in ret_names:
                if name == rn[0]:
                    role = 'residual'
                elif name == rn[1]:
                    role = 'jacobian'
            if role is None or not isinstance(tgt, TV) or not tgt.shape:
                continue
            verdict = None
            if isinstance(rhs, TV) and rhs.shape:
                want = tgt.shape[-1]
                if role == 'jacobian' and len(tgt.shape) >= 2 and len(rhs.shape) >= 2:
                    verdict = not (rhs.shape[-1] == lit(1) and want != lit(1)) and not (rhs.shape[-2] == lit(1) and tgt.shape[-2] != lit(1))
                else:
                    verdict = not (rhs.shape[-1] == lit(1) and want != lit(1))
            res.inst({'function': f.fq, 'store': src(target)[:40], 'role': role, 'target': repr(tgt), 'rhs': repr(rhs), 'ok': verdict},
                     (f.fq, src(target)))
            if verdict is False:
                res.add(Finding('C09.KIND', f, 'masked store into the returned %s: right-hand side %s is broadcast over the '
                                'dimension `%s` of %s - the stored value no longer depends on the individual components of R'
                                % (role, rhs, tgt.shape[-1][1], tgt), node=st))
    return res


def _root_name(e):
    while isinstance(e, (ast.Subscript, ast.Attribute, ast.Call)):
        if isinstance(e, ast.Call):
            if isinstance(e.func, ast.Attribute):
                e = e.func.value
            else:
                return None
        else:
            e = e.value
    return e.id if isinstance(e, ast.Name) else None


def rules(repo, tier):
    return [rule_guard(repo, tier), rule_kind(repo, tier)]
