"""C09 - kernels and correctors."""
import ast
from ..core import RuleResult, Finding, AnalysisError, dotted, src, norm_construct, ClassInfo
from ..expr import inline_straight, returns_of, dump, subst
from .. import paths

KER = 'pypose.optim.kernel'
COR = 'pypose.optim.corrector'
OPT = 'pypose.optim.optimizer'


def kernel_classes(repo):
    m = repo.module(KER)
    out = []
    for c in m.classes.values():
        if 'forward' in c.methods and any(b.split('.')[-1] == 'Module' for b in c.base_exprs):
            out.append(c)
    return out


def _nonneg_guard(test, pname, truth=True):
    """does `test` (asserted / assumed with `truth`) establish  pname >= 0 elementwise?"""
    if isinstance(test, ast.UnaryOp) and isinstance(test.op, ast.Not):
        return _nonneg_guard(test.operand, pname, not truth)
    if isinstance(test, ast.BoolOp) and isinstance(test.op, ast.And) and truth:
        return any(_nonneg_guard(v, pname, True) for v in test.values)
    if isinstance(test, ast.BoolOp) and isinstance(test.op, ast.Or) and not truth:
        return any(_nonneg_guard(v, pname, False) for v in test.values)
    # reductions
    if isinstance(test, ast.Call):
        d = dotted(test.func) or ''
        red = d.split('.')[-1]
        inner = None
        if d in ('torch.all', 'torch.any', 'all', 'any') and test.args:
            inner = test.args[0]
        elif isinstance(test.func, ast.Attribute) and red in ('all', 'any'):
            inner = test.func.value
        if inner is not None:
            cmp_ = _cmp(inner, pname)
            if cmp_ is None:
                return False
            if red == 'all':
                return truth and cmp_ == 'ge'
            if red == 'any':
                return (not truth) and cmp_ == 'lt'
        if d.endswith('bool') and test.args:
            return _nonneg_guard(test.args[0], pname, truth)
    return False


def _cmp(e, pname):
    """'ge' for  p >= 0 / 0 <= p ;  'lt' for p < 0 / 0 > p ; else None"""
    if isinstance(e, ast.Compare) and len(e.ops) == 1:
        l, r, op = e.left, e.comparators[0], e.ops[0]
        def isp(x): return isinstance(x, ast.Name) and x.id == pname
        def is0(x): return isinstance(x, ast.Constant) and x.value in (0, 0.0) and not isinstance(x.value, bool)
        if isp(l) and is0(r):
            return 'ge' if isinstance(op, ast.GtE) else 'lt' if isinstance(op, ast.Lt) else None
        if is0(l) and isp(r):
            return 'ge' if isinstance(op, ast.LtE) else 'lt' if isinstance(op, ast.Gt) else None
    return None


def rule_guard(repo, tier):
    res = RuleResult('C09.GUARD', 'every kernel forward establishes input >= 0 (assert / raising branch) before computing with it', floor=7)
    for c in kernel_classes(repo):
        f = c.methods['forward']
        pp = f.pos_params
        if len(pp) < 2:
            raise AnalysisError('C09.GUARD: %s.forward has no input parameter' % c.name)
        pname = pp[1]
        pths, _ = paths.function_paths(f.node, limit=512)
        ok_all = True
        first_use = None
        for ev, ex in pths:
            if ex == 'raise':
                continue
            guarded = False
            for e in ev:
                if e[0] == 'stmt':
                    st = e[1]
                    if isinstance(st, ast.Assert) and _nonneg_guard(st.test, pname):
                        guarded = True
                        continue
                    if isinstance(st, ast.Expr) and isinstance(st.value, ast.Call) and dotted(st.value.func) in ('torch._assert', 'torch._check') \
                            and st.value.args and _nonneg_guard(st.value.args[0], pname):
                        guarded = True
                        continue
                    if isinstance(st, ast.Expr) and isinstance(st.value, ast.Constant):
                        continue
                    uses = any(isinstance(n, ast.Name) and n.id == pname and isinstance(n.ctx, ast.Load) for n in ast.walk(st))
                    if uses and not guarded:
                        ok_all = False
                        first_use = first_use or st
                        break
                elif e[0] == 'assume':
                    # `if (input < 0).any(): raise` : on the surviving branch the guard holds
                    if _nonneg_guard(e[1], pname, e[2]):
                        guarded = True
        res.inst({'function': f.fq, 'guarded': ok_all}, f.fq)
        if not ok_all:
            res.add(Finding('C09.GUARD', f, '%s.forward computes with `%s` without first rejecting negative input (first use: %s)'
                            % (c.name, pname, src(first_use)[:70]), construct='%s.forward unguarded' % c.name))
    return res


def rules(repo, tier):
    return [rule_guard(repo, tier)]
