"""C06 - non-mutation of arguments (MUT), patch pairing (PATCH), wrapper tables, broadcast protocol, handled functions."""
import ast, re
from ..core import RuleResult, Finding, AnalysisError, dotted, src, norm_construct, ClassInfo
from ..expr import inline_straight, returns_of, dump, subst
from .. import paths, effects

LT = 'pypose.lietensor.lietensor'
EXEMPT_MODULES = {'pypose.utils.collect_env', 'pypose.testing.comparison', 'pypose.testing'}
# documented mutators of their own arguments that do not carry a trailing underscore (one line of reason each)
EXEMPT_FUNCS = {
    'pypose.optim.optimizer:_Optimizer.update_parameter': 'documented effect: updates the model parameters in place',
    'pypose.optim.optimizer:LevenbergMarquardt.update_parameter': 'documented effect: updates the model parameters in place',
}


def tensor_self(repo, ci):
    """is `self` of this class a tensor (LieTensor family)?"""
    for c in repo.mro(ci):
        n = c.name if isinstance(c, ClassInfo) else c
        if n.split('.')[-1] in ('Tensor', 'LieTensor', 'Parameter'):
            return True
    return False


def is_public_api(repo, f):
    if f.module.name in EXEMPT_MODULES or f.fq in EXEMPT_FUNCS:
        return False
    if f.parent is not None:
        return False                      # nested helper
    n = f.name
    if n.startswith('_') or n.endswith('_'):
        return False
    if any(d.endswith('.setter') for d in f.decorator_names()):
        return False
    if f.cls is not None and f.cls.name.split('.')[-1].startswith('_'):
        # methods of private base classes are reached through their public subclasses
        return bool(repo.subclasses_of(f.cls))
    if any(part.startswith('_') for part in f.module.name.split('.')):
        return False
    return True


def rule_mut(repo, tier):
    res = RuleResult('C06.MUT', 'no public API function without a trailing underscore mutates storage reachable from a tensor '
                     'argument, along any resolved call chain (alias/effect analysis with interprocedural summaries)', floor=150)
    S, stats = effects.compute_summaries(repo)
    res.notes.append('effect analysis: %s' % stats)
    classified = stats.get('inplace_sites', 0) + stats.get('store_sites', 0) + stats.get('augassign_sites', 0)
    if classified < 120:
        raise AnalysisError('C06.MUT: only %d in-place/store/augmented-assignment sites classified (expected > 120)' % classified)
    n_api = 0
    for f in repo.all_functions():
        if not is_public_api(repo, f):
            continue
        n_api += 1
        s = S[f.fq]
        bad = []
        for (pi, path) in sorted(s.mut, key=str):
            pname = f.params[pi] if pi < len(f.params) else '?'
            if f.cls is not None and not f.is_static() and pi == 0:
                if f.is_classmethod() or not tensor_self(repo, f.cls):
                    continue             # a module's / optimizer's own state is not an argument
            if pname == 'out':
                continue                 # explicit output parameter
            if pname in ('memo', 'pg', 'kwargs', 'state_dict'):
                continue                 # dict-typed protocol parameters (the clause is about tensors)
            bad.append((pi, path, pname))
        res.inst({'function': f.fq, 'mutated_params': ['%s%s' % (p, ''.join('.' + x for x in path)) for _, path, p in bad]}, f.fq)
        for pi, path, pname in bad:
            node, why, chain = s.sinks[(pi, path)]
            target = pname + ''.join('.' + x for x in path)
            res.add(Finding('C06.MUT', f, 'public function without trailing underscore may overwrite its argument `%s`: %s%s'
                            % (target, why, (' via ' + ' -> '.join(chain)) if chain else ''),
                            node=node, construct='%s <- %s' % (target, norm_construct(node, f.node) if isinstance(node, ast.AST) else ''),
                            detail={'chain': list(chain)}))
    res.notes.append('public API functions examined: %d' % n_api)
    return res


def rules(repo, tier):
    return [rule_mut(repo, tier)]
