"""C06 - non-mutation of arguments (MUT), patch pairing (PATCH), wrapper tables, broadcast protocol, handled functions."""
import ast, re
from ..core import RuleResult, Finding, AnalysisError, dotted, src, norm_construct, ClassInfo, guarded, guarded_list
from ..expr import inline_straight, returns_of, dump, subst, rv
from .. import paths, effects

LT = 'pypose.lietensor.lietensor'
EXEMPT_MODULES = {'pypose.utils.collect_env', 'pypose.testing.comparison', 'pypose.testing'}
# documented mutators of their own arguments that do not carry a trailing underscore (one line of reason each)
EXEMPT_FUNCS = {
    'pypose.optim.optimizer:_Optimizer.update_parameter': 'documented effect: updates the model parameters in place',
    'pypose.optim.optimizer:LevenbergMarquardt.update_parameter': 'documented effect: updates the model parameters in place',
}


def tensor_self(repo, ci):
    """is `self` of this class a tensor (LieTensor family)?"""
    for c in repo.mro(ci):
        n = c.name if isinstance(c, ClassInfo) else c
        if n.split('.')[-1] in ('Tensor', 'LieTensor', 'Parameter'):
            return True
    return False


def is_public_api(repo, f):
    if f.module.name in EXEMPT_MODULES or f.fq in EXEMPT_FUNCS:
        return False
    if f.parent is not None:
        return False                      # nested helper
    n = f.name
    if n.startswith('_') or n.endswith('_'):
        return False
    if any(d.endswith('.setter') for d in f.decorator_names()):
        return False
    if f.cls is not None and f.cls.name.split('.')[-1].startswith('_'):
        # methods of private base classes are reached through their public subclasses
        return bool(repo.subclasses_of(f.cls))
    if any(part.startswith('_') for part in f.module.name.split('.')):
        return False
    return True


@guarded
def rule_mut(repo, tier):
    res = RuleResult('C06.MUT', 'no public API function without a trailing underscore mutates storage reachable from a tensor '
                     'argument, along any resolved call chain (alias/effect analysis with interprocedural summaries)', floor=150)
    S, stats = effects.compute_summaries(repo)
    res.notes.append('effect analysis: %s' % stats)
    classified = stats.get('inplace_sites', 0) + stats.get('store_sites', 0) + stats.get('augassign_sites', 0)
    if classified < 120:
        raise AnalysisError('C06.MUT: only %d in-place/store/augmented-assignment sites classified (expected > 120)' % classified)
    n_api = 0
    for f in repo.all_functions():
        if not is_public_api(repo, f):
            continue
        n_api += 1
        s = S[f.fq]
        bad = []
        for (pi, path) in sorted(s.mut, key=str):
            pname = f.params[pi] if pi < len(f.params) else '?'
            if f.cls is not None and not f.is_static() and pi == 0:
                if f.is_classmethod() or not tensor_self(repo, f.cls):
                    continue             # a module's / optimizer's own state is not an argument
            if pname == 'out':
                continue                 # explicit output parameter
            if pname in ('memo', 'pg', 'kwargs', 'state_dict'):
                continue                 # dict-typed protocol parameters (the clause is about tensors)
            bad.append((pi, path, pname))
        res.inst({'function': f.fq, 'mutated_params': ['%s%s' % (p, ''.join('.' + x for x in path)) for _, path, p in bad]}, f.fq)
        for pi, path, pname in bad:
            node, why, chain = s.sinks[(pi, path)]
            target = pname + ''.join('.' + x for x in path)
            res.add(Finding('C06.MUT', f, 'public function without trailing underscore may overwrite its argument `%s`: %s%s'
                            % (target, why, (' via ' + ' -> '.join(chain)) if chain else ''),
                            node=node, construct='%s <- %s' % (target, norm_construct(node, f.node) if isinstance(node, ast.AST) else ''),
                            detail={'chain': list(chain)}))
    res.notes.append('public API functions examined: %d' % n_api)
    # SHARED: in-place writes into storage that outlives the call (memoised results, module-level tensors), in any function
    n_sh = 0
    for f in repo.all_functions():
        s = S[f.fq]
        for lab, (node, why, chain) in s.shared.items():
            n_sh += 1
            res.add(Finding('C06.SHARED', f, 'in-place write into %s: %s%s - later calls observe the modified object, results depend on call '
                            'history' % (lab, why, (' via ' + ' -> '.join(chain)) if chain else ''), node=node if isinstance(node, ast.AST) else None,
                            construct='shared <- %s' % lab))
    # positive fixture for the expected-zero rule
    fx = '''
import functools, torch
@functools.lru_cache(maxsize=None)
def _eye(n):
    return torch.eye(n)
def bad(X):
    A = _eye(3).expand(X.shape[:-1] + (3, 3)).contiguous()
    A[..., :2, :2] = 0
    return A
'''
    try:
        from ..core import ModuleInfo
        import types
        fr = _fixture_repo(repo, fx)
        S2, _ = effects.compute_summaries(fr, max_rounds=3, only_module='pypose._fixture')
        if not S2['pypose._fixture:bad'].shared:
            raise AnalysisError('C06.SHARED: positive fixture (write into a memoised tensor) not recognised')
    except KeyError:
        raise AnalysisError('C06.SHARED: positive fixture could not be analysed')
    res.notes.append('shared-storage writes found: %d (fixture recognised)' % n_sh)
    return res


def _fixture_repo(repo, text):
    from ..core import ModuleInfo
    import copy
    fr = copy.copy(repo)
    fr.modules = dict(repo.modules)
    fr.modules['pypose._fixture'] = ModuleInfo('pypose._fixture', 'pypose/_fixture.py', text, False)
    fr._by_method = None
    fr._mro_cache = {}
    return fr




# ---------------------------------------------------------------- PATCH: retain_ltype restores what it patches

@guarded
def rule_patch(repo, tier):
    res = RuleResult('C06.PATCH', 'retain_ltype: every setattr(module, name, wrapper) executed in the try body is matched by a restoring '
                     'setattr(module, name, original) over the same collection in a finally clause that every exit of the try passes '
                     '(normal, exception at the yield, exception while patching); the yield is inside the try; retain_ltype is used only '
                     'as a context manager / decorator', floor=3)
    if not repo.has_func(LT, 'retain_ltype') and 'retain_ltype' in repo.module(LT).classes:
        return _patch_class_form(repo, res, repo.module(LT).classes['retain_ltype'])
    f = repo.func(LT, 'retain_ltype')
    if 'contextmanager' not in ' '.join(f.decorator_names()):
        res.add(Finding('C06.PATCH', f, 'retain_ltype is no longer a contextmanager', construct='decorator'))
    tries = [n for n in ast.walk(f.node) if isinstance(n, ast.Try)]
    pths, _ = paths.function_paths(f.node, limit=4096)
    n_exc = 0
    bad = {}

    def classify(call, inl_env):
        """('patch'|'restore', collection key) for a setattr on a function slot"""
        if dotted(call.func) != 'setattr' or len(call.args) != 3:
            return None
        val = call.args[2]
        # restoring = the value is the loop variable itself (the original function object); patching = anything derived from it
        return val
    def restoring_loops(trynode):
        """collections K such that the finally clause holds `for v in K: ... setattr(module, name, v)`"""
        out = set()
        for st in trynode.finalbody:
            for n in ast.walk(st):
                if isinstance(n, ast.For) and isinstance(n.target, ast.Name):
                    for c in paths.calls_in(n):
                        if dotted(c.func) == 'setattr' and len(c.args) == 3 and isinstance(c.args[2], ast.Name) and c.args[2].id == n.target.id:
                            out.add(src(n.iter))
        return out
    for ev, ex in pths:
        raised = False
        patched, restored = [], set()
        cur_iter = None
        for e in ev:
            if e[0] == 'iter':
                cur_iter = (dump_iter(e[1]), e[1].target.id if isinstance(e[1].target, ast.Name) else None)
            if e[0] == 'raised':
                raised = True
                n_exc += 1
            if e[0] == 'finally':
                # both loops run over the same collection: the restoring loop undoes every slot the patching loop touched,
                # however many iterations this enumerated path happened to unroll
                restored |= restoring_loops(e[1])
            if e[0] == 'stmt':
                st = e[1]
                if isinstance(st, ast.Expr) and isinstance(st.value, (ast.Yield, ast.YieldFrom)):
                    if not any(any(x is st for x in ast.walk(b)) for t in tries for b in t.body):
                        bad.setdefault('the yield is outside the try block: an exception in the wrapped code skips the restoration', st)
                for c in paths.calls_in(st):
                    if dotted(c.func) == 'setattr' and len(c.args) == 3 and cur_iter is not None:
                        val = c.args[2]
                        if not (isinstance(val, ast.Name) and val.id == cur_iter[1]):
                            patched.append(cur_iter[0])
                            restored.discard(cur_iter[0])      # patched again after a restoration
        for k in set(patched):
            if k not in restored:
                bad.setdefault('a path (%s%s) patches torch internals over `%s` and leaves without passing a finally clause that restores '
                               'the same collection' % ('exit=' + ex, ', exception raised' if raised else '', k[:60]), f.node)
    res.inst({'function': f.fq, 'paths': len(pths), 'exception_paths': n_exc}, f.fq)
    if not tries:
        bad.setdefault('retain_ltype patches torch internals without any try/finally: an exception raised in the wrapped code (at the yield) '
                       'leaves them patched', f.node)
    elif n_exc == 0:
        raise AnalysisError('C06.PATCH: no exception path was explored in retain_ltype')
    for msg, node in bad.items():
        res.add(Finding('C06.PATCH', f, msg, node=node if node is not f.node else None, construct=msg[:100] if node is f.node else ''))
    # who-may-call: only as `with retain_ltype():` or `@retain_ltype()`
    n_use = 0
    for g in repo.all_functions():
        for n in ast.walk(g.node):
            if isinstance(n, ast.Call) and (dotted(n.func) or '').split('.')[-1] == 'retain_ltype':
                n_use += 1
                ok = False
                for m in ast.walk(g.node):
                    if isinstance(m, (ast.With, ast.AsyncWith)) and any(it.context_expr is n for it in m.items):
                        ok = True
                    if isinstance(m, (ast.FunctionDef, ast.AsyncFunctionDef)) and any(d is n for d in m.decorator_list):
                        ok = True
                res.inst({'function': g.fq, 'use': src(n), 'as_context_or_decorator': ok}, (g.fq, getattr(n, 'lineno', 0)))
                if not ok:
                    res.add(Finding('C06.PATCH', g, 'retain_ltype() is called without entering it as a context manager / decorator', node=n))
    if n_use == 0:
        res.notes.append('no user of retain_ltype inside the package besides func.jacrev')
    return res


def _patch_class_form(repo, res, ci):
    """retain_ltype written as a class with __enter__/__exit__: the slots patched on entry are restored on exit from originals that belong
    to THIS activation (an instance attribute bound in __init__/__enter__), not from a container shared by all activations - activations
    nest (jacrev inside `with retain_ltype()`, jacrev of jacrev), and an inner entry that overwrites the outer's saved originals with the
    outer's wrappers leaves torch patched after the outermost exit"""
    en, exi = ci.methods.get('__enter__'), ci.methods.get('__exit__')
    if en is None or exi is None:
        raise AnalysisError('C06.PATCH: class retain_ltype has no __enter__/__exit__ pair')
    patches = [c for c in paths.calls_in(en.node) if dotted(c.func) == 'setattr' and len(c.args) == 3]
    restores = [c for c in paths.calls_in(exi.node) if dotted(c.func) == 'setattr' and len(c.args) == 3]
    res.inst({'class': ci.fq, 'patching setattr in __enter__': len(patches), 'restoring setattr in __exit__': len(restores)}, ci.fq)
    if not patches:
        raise AnalysisError('C06.PATCH: __enter__ of retain_ltype patches nothing')
    if not restores:
        res.add(Finding('C06.PATCH', exi, '__exit__ restores none of the slots __enter__ patches', construct='no restore'))
    # where are the originals kept?
    class_level = set()
    for st in ci.node.body:
        if isinstance(st, (ast.Assign, ast.AnnAssign)):
            tg = st.targets if isinstance(st, ast.Assign) else [st.target]
            v = st.value
            mutable = isinstance(v, (ast.Dict, ast.List, ast.Set)) or (isinstance(v, ast.Call) and (dotted(v.func) or '').split('.')[-1] in
                                                                      ('dict', 'list', 'set', 'defaultdict', 'OrderedDict', 'deque'))
            for t in tg:
                if isinstance(t, ast.Name) and mutable:
                    class_level.add(t.id)
    rebound = set()
    for m in ci.methods.values():
        for n in ast.walk(m.node):
            if isinstance(n, ast.Attribute) and isinstance(n.ctx, ast.Store) and dotted(n.value) == 'self':
                rebound.add(n.attr)
    stores = []
    for n in ast.walk(en.node):
        tgt = None
        if isinstance(n, ast.Assign):
            for t in n.targets:
                if isinstance(t, ast.Subscript) and (dotted(t.value) or '').startswith(('self.', 'cls.', ci.name + '.')):
                    tgt = dotted(t.value).split('.', 1)[1]
        elif isinstance(n, ast.Call) and isinstance(n.func, ast.Attribute) and n.func.attr in ('append', 'update', 'setdefault', 'add', 'extend') \
                and (dotted(n.func.value) or '').startswith(('self.', 'cls.', ci.name + '.')):
            tgt = dotted(n.func.value).split('.', 1)[1]
        if tgt is not None:
            stores.append((n, tgt))
    for n, tgt in stores:
        shared = tgt in class_level and tgt not in rebound
        res.inst({'class': ci.fq, 'originals kept in': 'self.' + tgt, 'shared by all activations': shared}, (ci.fq, tgt))
        if shared:
            res.add(Finding('C06.PATCH', en, '`%s` saves the original functions in the class-level container `%s`, shared by every activation: a nested '
                            'activation overwrites the outer one\'s originals with the outer one\'s wrappers, and after the outermost exit the torch '
                            'internals stay patched' % (src(n)[:60], tgt), node=n, construct='shared originals|' + tgt))
    if not stores:
        res.notes.append('no container store found in __enter__')
    return res


def dump_iter(fornode):
    return src(fornode.iter)


# ---------------------------------------------------------------- BCAST / BSHAPE

GROUPS = ['SO3', 'SE3', 'RxSO3', 'Sim3']
ALG = {'SO3': 'so3', 'SE3': 'se3', 'RxSO3': 'rxso3', 'Sim3': 'sim3'}
BINOPS = {'Act': None, 'Mul': 'G', 'Adj': 'g', 'AdjT': 'g', 'Jinvp': 'g'}


def protocol_signature(repo, f):
    """abstract signature of one binary Type method: for every autograd-op / helper application
       (ops applied, whether its operands come from broadcast_inputs, whether the result is viewed to out_shape+(dim,),
        the empty-batch fallback)"""
    sig = {'broadcast': False, 'ops': set(), 'view_out_shape': False, 'empty_fallback': False, 'ops_on_broadcast': True}
    f = __import__('sa.core', fromlist=['x']).ifexp_view(f)
    inl = inline_straight(f.node)
    bnames = set()
    for st, env in inl.log:
        if isinstance(st, ast.Assign) and isinstance(st.value, ast.Call) and dotted(st.value.func) == 'broadcast_inputs':
            sig['broadcast'] = True
            t = st.targets[0]
            if isinstance(t, ast.Tuple) and len(t.elts) == 2:
                a = t.elts[0]
                for x in (a.elts if isinstance(a, ast.Tuple) else [a]):
                    if isinstance(x, ast.Name):
                        bnames.add(x.id)
                if isinstance(t.elts[1], ast.Name):
                    sig['out_shape_name'] = t.elts[1].id
    for n in ast.walk(f.node):
        if isinstance(n, ast.Call) and (dotted(n.func) or '').endswith('.apply'):
            sig['ops'].add(dotted(n.func))
            used = {x.id for a in n.args for x in ast.walk(a) if isinstance(x, ast.Name)}
            if not (used & bnames):
                sig['ops_on_broadcast'] = False
        if isinstance(n, ast.Call) and isinstance(n.func, ast.Attribute) and n.func.attr == 'view' and n.args:
            a = n.args[0]
            if isinstance(a, ast.BinOp) and isinstance(a.op, ast.Add) and dotted(a.left) == sig.get('out_shape_name') and \
                    isinstance(a.right, ast.Tuple) and len(a.right.elts) == 1:
                sig['view_out_shape'] = True
        if isinstance(n, ast.IfExp) and isinstance(n.body, ast.UnaryOp) and isinstance(n.body.operand, ast.Constant) and n.body.operand.value == 1 \
                and any(isinstance(c, ast.Call) and isinstance(c.func, ast.Attribute) and c.func.attr == 'nelement' for c in ast.walk(n.test)):
            sig['empty_fallback'] = True
            for x in ast.walk(n.orelse):
                if isinstance(x, ast.Attribute) and x.attr == 'shape' and isinstance(x.value, ast.Name):
                    sig.setdefault('fallback_of', set()).add(x.value.id)
    return sig


@guarded
def rule_bcast(repo, tier, pid='C06'):
    res = RuleResult(pid + '.BCAST', 'each binary Type method follows the flatten-broadcast-unflatten protocol: operands pass through '
                     'broadcast_inputs, the family\'s own autograd op is applied to its result, the output is viewed to out_shape + (dim,) '
                     'with the empty-batch fallback; broadcast_inputs returns the true (unpadded) broadcast shape', floor=21)
    for G in GROUPS:
        for meth in BINOPS:
            f = repo.func(LT, '%sType.%s' % (G, meth))
            sig = protocol_signature(repo, f)
            want_ops = {'Act': {G + '_Act.apply', G + '_Act4.apply'}, 'Mul': {G + '_Mul.apply'}, 'Adj': {G + '_AdjXa.apply'},
                        'AdjT': {G + '_AdjTXa.apply'}, 'Jinvp': {G + '_Log.apply'}}[meth]
            ok = sig['broadcast'] and sig['ops'] == want_ops and sig['view_out_shape'] and sig['empty_fallback'] and sig['ops_on_broadcast']
            res.inst({'function': f.fq, 'signature': {k: (sorted(v) if isinstance(v, set) else v) for k, v in sig.items()}, 'ok': ok}, f.fq)
            if not sig['broadcast']:
                res.add(Finding(pid + '.BCAST', f, '%sType.%s does not pass its operands through broadcast_inputs' % (G, meth), construct='no broadcast'))
            elif sig['ops'] != want_ops:
                res.add(Finding(pid + '.BCAST', f, '%sType.%s applies %s, expected %s' % (G, meth, sorted(sig['ops']), sorted(want_ops)), construct='ops'))
            elif not sig['ops_on_broadcast']:
                res.add(Finding(pid + '.BCAST', f, '%sType.%s applies its op to operands that did not come from broadcast_inputs' % (G, meth),
                                construct='op operands'))
            elif not sig['view_out_shape']:
                res.add(Finding(pid + '.BCAST', f, '%sType.%s does not view its result to out_shape + (dim,)' % (G, meth), construct='view'))
            elif not sig['empty_fallback']:
                res.add(Finding(pid + '.BCAST', f, '%sType.%s lost the empty-batch fallback of the last dimension' % (G, meth), construct='empty'))
            else:
                # the width an EMPTY result keeps is that of the operand the result has the type of: the point / algebra element for Act, Adj, AdjT, Jinvp (second
                # argument), either factor for Mul
                pp_ = f.pos_params
                okw = set(pp_[2:3]) if meth != 'Mul' else set(pp_[1:3])
                wrong = sorted(sig.get('fallback_of', set()) - okw)
                if wrong and len(pp_) >= 3:
                    res.add(Finding(pid + '.BCAST', f, '%sType.%s: the empty-batch fallback takes the last dimension of `%s`; an empty result of %s has the width of `%s`' % (
                        G, meth, wrong[0], meth, pp_[2]), construct='empty width'))
    # BSHAPE
    OPM = 'pypose.lietensor.operation'
    f = repo.func(OPM, 'broadcast_inputs')
    ok_all = True
    n = 0
    for r in returns_of(f.node):
        v = inline_straight(f.node, upto=r).value(r.value)
        if not (isinstance(v, ast.Tuple) and len(v.elts) == 2):
            continue
        n += 1
        shp = v.elts[1]
        has_bs = any(isinstance(x, ast.Call) and dotted(x.func) == 'torch.broadcast_shapes' for x in ast.walk(shp))
        unary = any(isinstance(x, ast.Subscript) and src(x).replace(' ', '') == 'x.shape[:-1]' for x in ast.walk(shp))
        padded = any(isinstance(x, ast.IfExp) for x in ast.walk(shp)) or any(isinstance(x, ast.Tuple) and len(x.elts) == 1 and
                                                                           isinstance(x.elts[0], ast.Constant) and x.elts[0].value == 1 for x in ast.walk(shp))
        ok = (has_bs or unary) and not padded
        res.inst({'function': f.fq, 'returned_shape': src(shp)[:80], 'true_broadcast_shape': ok}, (f.fq, n))
        if not ok:
            ok_all = False
            res.add(Finding(pid + '.BSHAPE', f, 'broadcast_inputs returns `%s` as output shape: it must be the unpadded torch.broadcast_shapes of '
                            'the two lshapes (the (1,) padding is only the internal work shape), otherwise un-batched operands come back '
                            'with lshape (1,)' % src(shp)[:80], node=r))
    if n == 0:
        raise AnalysisError(pid + '.BSHAPE: broadcast_inputs no longer returns (operands, shape)')
    # the batch axes of the two operands are aligned by torch's rule (from the back) and by nothing else: broadcast_shapes sees the lshapes of the operands AS
    # GIVEN.  An operand that is unsqueezed / reshaped first under a test on ranks or shapes ("one pose per group of points": (B, 7) with (B, N, 3)) adds a second
    # alignment rule; where both rules apply - lshapes (N,) and (N, N) - the result silently switches from column-wise to row-wise pairing
    bs = [c for c in ast.walk(f.node) if isinstance(c, ast.Call) and dotted(c.func) == 'torch.broadcast_shapes']
    if bs:
        first = min(c.lineno for c in bs)
        params = set(f.pos_params)
        for a in ast.walk(f.node):
            if isinstance(a, ast.Assign) and a.lineno < first:
                for t in a.targets:
                    for x in ([t] if isinstance(t, ast.Name) else [y for y in ast.walk(t) if isinstance(y, ast.Name)]):
                        if x.id in params and any(isinstance(c, ast.Call) and isinstance(c.func, ast.Attribute) and c.func.attr in ('unsqueeze', 'view', 'reshape', 'expand', 'squeeze', 'flatten')
                                                  or isinstance(c, ast.Subscript) and any(isinstance(y, ast.Constant) and y.value is None for y in ast.walk(c.slice))
                                                  for c in ast.walk(a.value)):
                            res.inst({'function': f.fq, 'operand re-shaped before the broadcast': src(a)[:60]}, (f.fq, 'pre', src(a)[:60]))
                            res.add(Finding(pid + '.BSHAPE', f, '`%s` changes the rank / shape of an operand BEFORE torch.broadcast_shapes aligns the batch axes: a second alignment '
                                            'rule next to torch\'s; for lshapes both rules accept (e.g. (N,) with (N, N)) the pairing of items changes silently' % src(a)[:60],
                                            node=a, construct='operand reshaped before broadcast|' + x.id))
    return res


# ---------------------------------------------------------------- WRAP / HANDLED

UT = 'pypose.lietensor.utils'
# reference table: the shape-only functions named by the property plus every member of the library's handled-function list as confirmed on the
# pinned tree (the quantifier ranges over "all functions in the library's handled-function list").  The rule is a superset test: entries may be
# added freely, a removed entry makes that function return a plain tensor without ltype.
SHAPE_ONLY = ['__getitem__', 'view', 'reshape', 'permute', 'cat', 'stack', 'split', 'clone', 'detach', 'to', 'expand', 'gather', 'scatter',
              'squeeze', 'unsqueeze', 'index_select', 'transpose', 'chunk', 'unbind', 'repeat', 'narrow', 'select',
              '__setitem__', 'cpu', 'cuda', 'float', 'double', 'view_as', 'hsplit', 'dsplit', 'vsplit', 'tensor_split', 'concat', 'column_stack',
              'dstack', 'vstack', 'hstack', 'masked_select', 'movedim', 'moveaxis', 'row_stack', 'scatter_add', 'swapaxes', 'swapdims', 'take',
              'take_along_dim', 'tile', 'copy', 'expand_as', 'index_copy', 'index_copy_', 'select_scatter', 'index_put', 'index_put_', 'copy_']


@guarded
def rule_wrap(repo, tier):
    res = RuleResult('C06.WRAP', 'wrapper tables: X = partial(LieTensor, ltype=X_type); randn_X -> X_type.randn; identity_X -> X_type.identity; '
                     'Exp..Jr wrappers call the same-named method; shape-only torch functions are members of HANDLED_FUNCTIONS and '
                     '__torch_function__ re-attaches the ltype for exactly those', floor=40)
    m = repo.module(UT)
    for name in ('SO3', 'so3', 'SE3', 'se3', 'RxSO3', 'rxso3', 'Sim3', 'sim3'):
        v = m.assigns.get(name)
        target = lt = None
        if v is not None:
            for n in ast.walk(v):
                if isinstance(n, ast.Call) and dotted(n.func) in ('functools.partial', 'partial') and n.args:
                    target = dotted(n.args[0])
                    lt = [dotted(k.value) for k in n.keywords if k.arg == 'ltype']
        ok = target == 'LieTensor' and lt == [name + '_type']
        res.inst({'alias': name, 'partial_of': target, 'ltype': lt, 'ok': ok}, 'alias' + name)
        if not ok:
            res.add(Finding('C06.WRAP', (m.relpath, getattr(v, 'lineno', 0), m.name + ':' + name), 'alias %s must be partial(LieTensor, ltype=%s_type); '
                            'found partial(%s, ltype=%s)' % (name, name, target, lt), construct='alias ' + name))
        for kind in ('randn', 'identity'):
            f = repo.func(UT, '%s_%s' % (kind, name))
            rets = returns_of(f.node)
            v0 = rv(f.node, rets[0]) if len(rets) == 1 else None
            ok = isinstance(v0, ast.Call) and dotted(v0.func) == '%s_type.%s' % (name, kind)
            if ok:
                # all positional and keyword arguments forwarded
                c = v0
                ok = any(isinstance(a, ast.Starred) for a in c.args) and any(k.arg is None for k in c.keywords)
            res.inst({'function': f.fq, 'target': '%s_type.%s' % (name, kind), 'ok': ok}, f.fq)
            if not ok:
                res.add(Finding('C06.WRAP', f, '%s_%s must return %s_type.%s(*size, **kwargs)' % (kind, name, name, kind), construct='wrapper'))
    for w in ('Exp', 'Log', 'Inv', 'Retr', 'Act', 'Adj', 'AdjT', 'Jinvp', 'Jr'):
        f = repo.func(UT, w)
        rets = returns_of(f.node)
        pp = f.pos_params
        v0 = rv(f.node, rets[0]) if len(rets) == 1 else None
        ok = isinstance(v0, ast.Call) and isinstance(v0.func, ast.Attribute) and \
            v0.func.attr == w and dotted(v0.func.value) == pp[0] and [dotted(a) for a in v0.args] == pp[1:]
        res.inst({'function': f.fq, 'forwards_to': '.%s' % w, 'ok': ok}, f.fq)
        if not ok:
            res.add(Finding('C06.WRAP', f, 'pp.%s must return <first argument>.%s(<remaining arguments>)' % (w, w), construct='wrapper'))
    # HANDLED
    lm = repo.module(LT)
    hv = lm.assigns.get('HANDLED_FUNCTIONS')
    if not isinstance(hv, (ast.List, ast.Tuple, ast.Set)):
        raise AnalysisError('C06.HANDLED: HANDLED_FUNCTIONS is no longer a literal list')
    handled = {e.value for e in hv.elts if isinstance(e, ast.Constant)}
    for fn in SHAPE_ONLY:
        res.inst({'handled': fn, 'member': fn in handled}, 'h' + fn)
        if fn not in handled:
            res.add(Finding('C06.HANDLED', (lm.relpath, hv.lineno, lm.name + ':HANDLED_FUNCTIONS'), 'shape-only function `%s` is not in HANDLED_FUNCTIONS: '
                            'its result silently degrades to a plain tensor' % fn, construct='handled ' + fn))
    f = repo.func(LT, 'LieTensor.__torch_function__')
    # the wrapping (tree_map(wrap, data)) must be guarded by the membership test and use the ltype of a LieTensor argument
    guard_ok = wrap_ok = False
    for n in ast.walk(f.node):
        if isinstance(n, ast.If):
            t = src(n.test)
            if 'HANDLED_FUNCTIONS' in t and '__name__' in t and ' in ' in t and 'not in' not in t:
                inner = [c for c in paths.calls_in(ast.Module(n.body, [])) if dotted(c.func) == 'tree_map']
                if inner and any(isinstance(x, ast.Return) for b in n.body for x in ast.walk(b)):
                    guard_ok = True
    for g in f.nested.values():
        s = src(g.node)
        if 'as_subclass' in s and '.ltype = ltype' in s.replace('lt.ltype', '.ltype'):
            wrap_ok = True
    res.inst({'function': f.fq, 'guarded_by_membership': guard_ok, 'reattaches_ltype': wrap_ok}, f.fq)
    if not guard_ok:
        res.add(Finding('C06.HANDLED', f, '__torch_function__ does not wrap results under `func.__name__ in HANDLED_FUNCTIONS`', construct='guard'))
    if not wrap_ok:
        res.add(Finding('C06.HANDLED', f, '__torch_function__ no longer re-attaches the ltype to tensor results', construct='wrap'))
    return res


CTORS = {'torch.zeros', 'torch.ones', 'torch.eye', 'torch.tensor', 'torch.empty', 'torch.full', 'torch.arange', 'torch.rand', 'torch.randn',
         'torch.linspace'}


@guarded
def rule_dtype(repo, tier):
    res = RuleResult('C06.DTYPE', 'every tensor constructed inside pypose.lietensor.operation takes both dtype and device from an input tensor '
                     '(or is a *_like / forwards **kwargs): results keep the documented dtype and device; a float32 default silently rounds '
                     'float64 computations', floor=40)
    m = repo.module('pypose.lietensor.operation')
    for q, f in m.functions.items():
        for n in ast.walk(f.node):
            if isinstance(n, ast.Call) and dotted(n.func) in CTORS:
                kws = {k.arg: k.value for k in n.keywords}
                star = any(k.arg is None for k in n.keywords)
                ok = star or ('dtype' in kws and 'device' in kws)
                tied = True
                if ok and not star:
                    for key in ('dtype', 'device'):
                        v = kws[key]
                        if not (isinstance(v, ast.Attribute) and v.attr == key):
                            tied = False
                res.inst({'function': f.fq, 'site': src(n)[:60], 'ok': ok and tied}, (f.fq, norm_construct(n, f.node)))
                if not ok:
                    missing = [k for k in ('dtype', 'device') if k not in kws]
                    res.add(Finding('C06.DTYPE', f, 'tensor constructor `%s` does not take its %s from an input: the result falls back to the '
                                    'global default and no longer follows the dtype/device of the operands' % (src(n)[:60], ' and '.join(missing)), node=n))
                elif not tied:
                    res.add(Finding('C06.DTYPE', f, 'tensor constructor `%s` takes dtype/device from something other than `<tensor>.dtype` / '
                                    '`<tensor>.device`' % src(n)[:60], node=n))
    return res


@guarded
def rule_domain(repo, tier):
    """Extent 0 is a legal batch extent (empty batches are in the stated range).  math.log2 / math.log / math.sqrt of a shape extent raise a
    'math domain error' at 0, so every such call on an extent is dominated by a test that ends the function (or skips the call) for 0."""
    res = RuleResult('C06.DOM', 'math.log2 / math.log of a shape extent, and an index range torch.arange(start, extent) with a positive start, are reached only after an '
                     'exit for the extent 0: scans along an empty dimension return the (empty) input instead of raising', floor=1)
    n = 0
    for modname in ('pypose.basics.ops', 'pypose.lietensor.lietensor', 'pypose.lietensor.utils', 'pypose.lietensor.operation'):
        for f in repo.module(modname).functions.values():
            ext = {}
            for a in ast.walk(f.node):
                if isinstance(a, ast.Assign):
                    tgts = a.targets[0].elts if isinstance(a.targets[0], ast.Tuple) and isinstance(a.value, ast.Tuple) and len(a.targets[0].elts) == len(a.value.elts) else [a.targets[0]]
                    vals = a.value.elts if len(tgts) > 1 else [a.value]
                    for t, v in zip(tgts, vals):
                        if isinstance(t, ast.Name) and ((isinstance(v, ast.Subscript) and isinstance(v.value, ast.Attribute) and v.value.attr in ('shape', 'lshape')) or
                                                        (isinstance(v, ast.Call) and isinstance(v.func, ast.Attribute) and v.func.attr in ('size', 'numel'))):
                            ext[t.id] = a
            for c in paths.calls_in(f.node):
                is_log = dotted(c.func) in ('math.log2', 'math.log', 'math.log10') and c.args
                # torch.arange(start, E) raises "upper bound and lower bound inconsistent with step sign" when the extent E is below a positive start
                is_range = dotted(c.func) == 'torch.arange' and len(c.args) >= 2 and not (isinstance(c.args[0], ast.Constant) and c.args[0].value == 0)
                if is_log or is_range:
                    arg = c.args[0] if is_log else c.args[1]
                    names = {x.id for x in ast.walk(arg) if isinstance(x, ast.Name)} & set(ext)
                    direct = any(isinstance(x, ast.Attribute) and x.attr in ('shape', 'lshape') for x in ast.walk(arg))
                    if not names and not direct:
                        continue
                    n += 1
                    # an `if E == 0 / E < k / not E: return|raise` (or an assert E > 0) located before the call
                    guarded_ = False
                    for st in ast.walk(f.node):
                        if getattr(st, 'lineno', 10**9) >= c.lineno:
                            continue
                        test = st.test if isinstance(st, (ast.If, ast.Assert)) else None
                        if test is None:
                            continue
                        tn = {x.id for x in ast.walk(test) if isinstance(x, ast.Name)}
                        if not (tn & names):
                            continue
                        if isinstance(st, ast.Assert):
                            guarded_ = True
                        elif any(isinstance(x, (ast.Return, ast.Raise)) for x in st.body):
                            guarded_ = True
                    res.inst({'function': f.fq, 'site': src(c)[:50], 'extent': sorted(names), 'exit for extent 0 before it': guarded_}, (f.fq, src(c)))
                    if not guarded_:
                        res.add(Finding('C06.DOM', f, '`%s` %s the extent `%s` without an earlier exit for 0: along an empty dimension the function raises (%s) instead '
                                        'of returning the empty result' % (src(c)[:50], 'takes the logarithm of' if is_log else 'builds an index range that ends at',
                                                                           ', '.join(sorted(names)) or src(arg)[:30], '"math domain error"' if is_log else
                                                                           '"upper bound and lower bound inconsistent with step sign"'), node=c))
    if n == 0:
        # the pass count of the scan is an integer expression today ((L - 1).bit_length(), defined for every extent): nothing that has a domain is applied to an
        # extent.  The rule stays armed for a logarithm / square root coming back.
        f = repo.func('pypose.basics.ops', 'cumops_')
        res.inst({'function': f.fq, 'math-domain functions applied to an extent': 0}, (f.fq, 'none'))
        fx = ast.parse('def g(x, dim):\n    L = x.shape[dim]\n    return math.log2(L)\n').body[0]
        if not any(dotted(c.func) == 'math.log2' for c in ast.walk(fx) if isinstance(c, ast.Call)):
            raise AnalysisError('C06.DOM: fixture not recognised')
    return res


@guarded
def rule_like(repo, tier):
    """randn_like documents "dtype / device: if None, defaults to the dtype / device of input" and the equivalence with
    randn_<type>(x.lshape, dtype=x.dtype, device=x.device).  Its delegated constructor call therefore receives dtype and device taken from the
    input unless the caller overrides them: an explicit keyword, or kwargs.setdefault(<name>, input.<name>) before the call."""
    res = RuleResult('C06.LIKE', 'randn_like hands the dtype and the device of its input to the constructor it delegates to (the documented default), '
                     'unless the caller gives them', floor=1)
    f = repo.func('pypose.lietensor.utils', 'randn_like')
    p0 = f.pos_params[0]
    got = set()
    for n in ast.walk(f.node):
        if isinstance(n, ast.Call):
            d = dotted(n.func) or ''
            if d.endswith('.setdefault') and len(n.args) == 2 and isinstance(n.args[0], ast.Constant) and dotted(n.args[1]) == '%s.%s' % (p0, n.args[0].value):
                got.add(n.args[0].value)
            for k in n.keywords:
                if k.arg in ('dtype', 'device') and dotted(k.value) == '%s.%s' % (p0, k.arg):
                    got.add(k.arg)
        if isinstance(n, ast.Dict):
            for k, v in zip(n.keys, n.values):
                if isinstance(k, ast.Constant) and k.value in ('dtype', 'device') and dotted(v) == '%s.%s' % (p0, k.value):
                    got.add(k.value)
    missing = sorted({'dtype', 'device'} - got)
    res.inst({'function': f.fq, 'forwarded from the input': sorted(got), 'missing': missing}, f.fq)
    if missing:
        res.add(Finding('C06.LIKE', f, 'randn_like does not take %s from its input: pp.randn_like(x) of a float64 (or CUDA) x returns the default dtype (device), '
                        'against its documented default and the documented equivalence with randn_<type>(x.lshape, dtype=x.dtype, device=x.device)'
                        % ' and '.join(missing), construct='like|' + ','.join(missing)))
    return res


def euler_shape_clause(repo, res, rid):
    """euler2SO3 restores the caller's batch shape from the shape taken BEFORE it flattens its argument."""
    f = repo.func('pypose.lietensor.convert', 'euler2SO3')
    rets = returns_of(f.node)
    if len(rets) != 1:
        raise AnalysisError(rid + ': euler2SO3 has %d returns' % len(rets))
    v = inline_straight(f.node, upto=rets[0]).value(rets[0].value)
    lv = [c for c in ast.walk(v) if isinstance(c, ast.Call) and isinstance(c.func, ast.Attribute) and c.func.attr in ('lview', 'view', 'reshape')
          and any(isinstance(x, ast.Attribute) and x.attr == 'shape' for a_ in c.args for x in ast.walk(a_))]
    if not lv:
        raise AnalysisError(rid + ': euler2SO3 no longer restores the batch shape of its argument')
    for c in lv[:1]:
        shapes = [x for a_ in c.args for x in ast.walk(a_) if isinstance(x, ast.Attribute) and x.attr == 'shape']
        stale = [x for x in shapes if any(isinstance(y, ast.Call) and isinstance(y.func, ast.Attribute) and y.func.attr in ('reshape', 'view', 'flatten') for y in ast.walk(x.value))]
        res.inst({'function': f.fq, 'restored shape': src(shapes[0])[:50], 'taken before the flattening': not stale}, f.fq)
        if stale:
            res.add(Finding(rid, f, 'euler2SO3 restores the batch shape from `%s`, the shape of the already flattened (-1, 3) tensor: the result keeps the flat '
                            '(N, 4) shape for every batch rank other than one' % src(stale[0])[:50], node=rets[0], construct='shape read after flattening'))
    return res


_VIEW_METHODS = {'view', 'detach', 'squeeze', 'unsqueeze', 'transpose', 'permute', 'narrow', 'select', 'as_subclass', 'requires_grad_', 'view_as', 'unflatten', 'movedim',
                 'swapaxes', 'lview', 'tensor', 'to', 'type', 'float', 'double'}
_STRIDE0 = {'expand', 'expand_as', 'broadcast_to'}


def _shared_items(e, depth=0):
    """the `expand` call that makes the items of the value `e` share memory (a stride-0 view), or None: follows view-preserving wrappers only"""
    while depth < 20:
        depth += 1
        if isinstance(e, ast.Call):
            d = dotted(e.func) or ''
            if isinstance(e.func, ast.Name) and e.func.id in ('LieTensor', 'Parameter') and e.args:
                e = e.args[0]
                continue
            if d in ('torch.broadcast_to',) and e.args:
                return e
            if isinstance(e.func, ast.Attribute) and not d.startswith('torch.'):
                if e.func.attr in _STRIDE0:
                    return e
                if e.func.attr in _VIEW_METHODS:
                    e = e.func.value
                    continue
            return None
        if isinstance(e, ast.Subscript):
            e = e.value
            continue
        if isinstance(e, ast.Attribute) and e.attr in ('mT', 'T', 'data'):
            e = e.value
            continue
        return None
    return None


@guarded
def rule_ownmem(repo, tier):
    """A constructor hands out a tensor the caller may write into item by item (`x[i] = T`, `x.add_(..)`, an optimiser step on Parameter(x)).  Built with
    `expand` the batch is a stride-0 view: every item is the same memory, an item write changes all of them and whole-batch in-place operations raise.  The
    payload of every identity / randn constructor is therefore materialised (repeat / a fresh tensor), never an expanded view."""
    res = RuleResult('C06.OWNMEM', 'the identity / randn constructors of every LieType return a tensor whose items own their memory: the payload is never an '
                     'expand / expand_as / broadcast_to view (followed through view-preserving wrappers)', floor=8)
    for c in repo.module(LT).classes.values():
        for name, f in c.methods.items():
            if name not in ('identity', 'randn', 'identity_like', 'randn_like'):
                continue
            for r in returns_of(f.node):
                if r.value is None:
                    continue
                v = inline_straight(f.node, upto=r).value(r.value)
                hit = _shared_items(v)
                res.inst({'function': f.fq, 'returned payload': src(v)[:70], 'stride-0 view': src(hit)[:50] if hit is not None else None}, (f.fq, src(r.value)[:50]))
                if hit is not None:
                    res.add(Finding('C06.OWNMEM', f, '%s returns `%s`: an expanded view, all items of the batch are ONE memory location - `x[i] = T` overwrites every item, '
                                    'add_ / copy_ / an optimiser step on the whole batch raise "more than one element of the written-to tensor refers to a single memory '
                                    'location"' % (f.fq.split(':')[-1], src(hit)[:60]), node=r, construct='constructor returns a stride-0 view'))
    fx = ast.parse('LieTensor(d.expand(s + (-1,)), ltype=T)', mode='eval').body
    fy = ast.parse('LieTensor(d.expand(s + (-1,)).clone(), ltype=T)', mode='eval').body
    if _shared_items(fx) is None or _shared_items(fy) is not None:
        raise AnalysisError('C06.OWNMEM: fixtures no longer classified')
    return res


@guarded
def rule_postcheck(repo, tier, rid='C06.POSTCHK'):
    """__torch_function__ runs the torch operation FIRST (Tensor.__torch_function__) and dresses the result afterwards.  For the in-place members of the handled list
    (copy_, index_copy_, index_put_, __setitem__ ...) the destination is already overwritten when that call returns: a consistency check placed after it
    (an assert that all LieTensor arguments share one ltype) rejects the operation after it has happened - the caller catches the error and keeps a clobbered
    tensor.  After the operation there are only warnings."""
    res = RuleResult(rid, 'LieTensor.__torch_function__ raises nothing (no assert / raise) after Tensor.__torch_function__ has executed the operation', floor=1)
    f = repo.func(LT, 'LieTensor.__torch_function__')
    calls = [c for c in ast.walk(f.node) if isinstance(c, ast.Call) and (dotted(c.func) or '').endswith('Tensor.__torch_function__') or
             isinstance(c, ast.Call) and isinstance(c.func, ast.Attribute) and c.func.attr == '__torch_function__' and isinstance(c.func.value, ast.Call) and dotted(c.func.value.func) == 'super']
    if not calls:
        raise AnalysisError(rid + ': the delegation to Tensor.__torch_function__ was not found')
    first = min(c.lineno for c in calls)
    late = [n for n in ast.walk(f.node) if isinstance(n, (ast.Assert, ast.Raise)) and n.lineno > first]
    res.inst({'function': f.fq, 'operation executed at line': first, 'assert / raise after it': [src(x)[:50] for x in late]}, f.fq)
    for x in late:
        res.add(Finding(rid, f, '`%s` can reject the call AFTER the torch operation has run: for copy_ / index_put_ / __setitem__ the destination is overwritten before the '
                        'error is raised, so the element the caller keeps after catching it is neither the old nor a valid new one' % src(x)[:60].replace('\n', ' '), node=x,
                        construct='check after the operation'))
    return res


@guarded
def rule_width(repo, tier):
    """The storage width of a LieTensor (the extent of its last axis) is `ltype.dimension`; `embedding` and `manifold` are other numbers for the algebra types
    (so3: dimension 3, embedding 4).  Everything that checks or builds the last axis - the constructor's assertion, the ltype re-attachment in
    __torch_function__, lview - reads `dimension` (or the tensor's own shape[-1:]).  euler2SO3 restores the caller's batch shape from the shape taken BEFORE it
    flattens its argument."""
    res = RuleResult('C06.WIDTH', 'the last axis of a LieTensor is checked / built with ltype.dimension in __init__, __torch_function__ and lview; euler2SO3 views its '
                     'result with the batch shape its argument had before it was flattened', floor=4)
    for q in ('LieTensor.__init__', 'LieTensor.__torch_function__', 'LieTensor.lview'):
        f = repo.func(LT, q)
        attrs = [n.attr for n in ast.walk(f.node) if isinstance(n, ast.Attribute) and n.attr in ('dimension', 'embedding', 'manifold') and
                 (dotted(n.value) or '').endswith('ltype')]
        ok = 'dimension' in attrs and not (set(attrs) - {'dimension'})
        res.inst({'function': f.fq, 'ltype attributes read': sorted(set(attrs)), 'storage width only': ok}, f.fq)
        if not attrs:
            raise AnalysisError('C06.WIDTH: %s no longer reads the storage width of its ltype' % q)
        if not ok:
            res.add(Finding('C06.WIDTH', f, '%s reads ltype.%s for the last axis: the storage width is ltype.dimension; for the algebra types the embedding / manifold '
                            'dimension is another number (so3: 3 vs 4), so views and checks of algebra tensors get the wrong width'
                            % (q, sorted(set(attrs) - {'dimension'})[0]), construct='width attribute'))
    euler_shape_clause(repo, res, 'C06.WIDTH')
    return res


def _rules_core(repo, tier):
    return [rule_like(repo, tier), rule_domain(repo, tier), rule_mut(repo, tier), rule_patch(repo, tier), rule_bcast(repo, tier), rule_wrap(repo, tier), rule_dtype(repo, tier), rule_width(repo, tier), rule_ownmem(repo, tier), rule_postcheck(repo, tier), __import__('sa.rules.c03', fromlist=['x']).rule_mat(repo, 'C06.MAT'), __import__('sa.mode', fromlist=['x']).rule_tempset(repo, 'C06.TEMPJAC', ['pypose.func.jac'])]


def rules(repo, tier):
    from ..memo import rule_memo
    from ..optional import rule_optional
    from ..mode import mode_rules
    from ..callsig import rule_callsig
    from ..docsig import rule_docsig
    from ..axisdefault import rule_axisdefault
    return list(_rules_core(repo, tier)) + __import__('sa.core', fromlist=['x']).reid([__import__('sa.rules.c05', fromlist=['x']).rule_clone(repo), __import__('sa.rules.c05', fromlist=['x']).rule_alpha(repo), __import__('sa.rules.c12', fromlist=['x']).rule_negdim(repo, tier), __import__('sa.rules.c12', fromlist=['x']).rule_order(repo, tier), __import__('sa.rules.c12', fromlist=['x']).rule_opview(repo, tier)], 'C06') + [rule_memo(repo, 'C06.MEMO', 'history independence: nothing computed from the contents of a tensor argument is kept '
                                                      'under the identity, address or version of that tensor, in module-level storage, or published from a generator '
                                                      'before it is complete - a later call with the same object and other contents must not be answered from it',
                                                      ['pypose.lietensor.lietensor', 'pypose.lietensor.operation', 'pypose.lietensor.basics', 'pypose.lietensor.utils', 'pypose.lietensor.convert'], floor=3),
            rule_optional(repo, 'C06.OPT', ['pypose.lietensor.lietensor', 'pypose.lietensor.operation', 'pypose.lietensor.basics', 'pypose.lietensor.utils', 'pypose.lietensor.convert'])] + mode_rules(repo, 'C06', ['pypose.lietensor.lietensor', 'pypose.lietensor.operation', 'pypose.lietensor.basics', 'pypose.lietensor.utils', 'pypose.lietensor.convert']) + [rule_callsig(repo, 'C06.SIG', ['pypose.lietensor.lietensor', 'pypose.lietensor.operation', 'pypose.lietensor.basics', 'pypose.lietensor.utils', 'pypose.lietensor.convert']), rule_docsig(repo, 'C06.DOC', ['pypose.lietensor.lietensor', 'pypose.lietensor.operation', 'pypose.lietensor.basics', 'pypose.lietensor.utils', 'pypose.lietensor.convert'])] + [
            rule_axisdefault(repo, 'C06.AXDEF', ['pypose.lietensor.lietensor', 'pypose.lietensor.operation', 'pypose.lietensor.basics', 'pypose.lietensor.utils', 'pypose.lietensor.convert', 'pypose.basics.ops']), __import__('sa.axisdefault', fromlist=['x']).rule_frontaxis(repo, 'C06.BAX', ['pypose.lietensor.lietensor', 'pypose.lietensor.operation', 'pypose.lietensor.basics', 'pypose.lietensor.utils', 'pypose.lietensor.convert']), __import__('sa.axisdefault', fromlist=['x']).rule_regroup(repo, 'C06.REGROUP', ['pypose.lietensor.lietensor', 'pypose.lietensor.operation', 'pypose.lietensor.basics', 'pypose.lietensor.utils', 'pypose.lietensor.convert']), __import__('sa.axisdefault', fromlist=['x']).rule_zerocmp(repo, 'C06.ZEROCMP', ['pypose.lietensor.lietensor', 'pypose.lietensor.operation', 'pypose.lietensor.basics', 'pypose.lietensor.utils', 'pypose.lietensor.convert']), __import__('sa.unused', fromlist=['x']).rule_unused(repo, 'C06.UNUSEDF', ['pypose.func.jac'], floor=1), __import__('sa.axisdefault', fromlist=['x']).rule_viewarg(repo, 'C06.VIEW', ['pypose.lietensor.lietensor', 'pypose.lietensor.operation', 'pypose.lietensor.basics', 'pypose.lietensor.convert', 'pypose.basics.ops']), __import__('sa.axisdefault', fromlist=['x']).rule_batchbranch(repo, 'C06.BIF', ['pypose.lietensor.lietensor', 'pypose.lietensor.operation', 'pypose.lietensor.basics', 'pypose.basics.ops'])]
