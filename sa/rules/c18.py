"""C18 - index-domain agreement in the point-cloud filters (and the other gather sites of the package)."""
import ast
from ..core import RuleResult, Finding, AnalysisError, dotted, src, norm_construct, guarded, guarded_list
from ..shapes import Interp, TV, IntV, NONE, TOP, sym, lit

GEO = 'pypose.function.geometry'
B = ('batch', 'B')


def T(*dims):
    return TV([d if isinstance(d, tuple) else (sym(d) if isinstance(d, str) else lit(d)) for d in dims])


# documented argument shapes (docstrings of the functions) - the seeds of the typing; optional arguments are
# explored both absent (NONE) and present
SEEDS = [
    (GEO, 'knn_filter', [{'points': T('N', 'D'), 'k': IntV(), 'radius': IntV()},
                         {'points': T('N', 'D'), 'k': IntV(), 'radius': IntV(), 'pdim': IntV()},
                         {'points': T(B, 'N', 'D'), 'k': IntV(), 'radius': NONE}]),
    (GEO, 'knn', [{'ref': T(B, 'Nr', 'D'), 'nbr': T(B, 'Nn', 'D'), 'k': IntV()}]),
    (GEO, 'nbr_filter', [{'points': T('N', 'D'), 'nbr': IntV(), 'radius': IntV()},
                         {'points': T('N', 'D'), 'nbr': IntV(), 'radius': IntV(), 'return_mask': IntV(val=True)}]),
    (GEO, 'random_filter', [{'points': T(B, 'N', 'D'), 'num': IntV()}]),
    (GEO, 'voxel_filter', [{'points': T('N', 'D'), 'voxel': TOP, 'random': IntV(val=False)},
                           {'points': T('N', 'D'), 'voxel': TOP, 'random': IntV(val=True)}]),
    ('pypose.module.icp', 'ICP.forward', [{'source': T(B, 'Ns', 'D'), 'target': T(B, 'Nt', 'D'), 'init': NONE, 'self.init': NONE},
                                           {'source': T('Ns', 'D'), 'target': T('Nt', 'D'), 'init': NONE, 'self.init': NONE}]),
    ('pypose.module.pf', 'PF.resample_particles', [{'q': T('P'), 'x': T('P', 'n'), 'self.particles': IntV(of=sym('P'))}]),
    ('pypose.module.pnp', 'EPnP._best_solution', [{'errors': T('S', 'Bt', 'Np'), 'poses': T('S', 'Bt', 7), 'betas': T('S', 'Bt', 4),
                                                   'scales': T('S', 'Bt', 1)}]),
]
FLOOR_CHECKS = 8


@guarded
def rule_idx(repo, tier):
    res = RuleResult('C18.IDX', 'an index tensor computed over an axis of nominal extent S (topk, min/argmin, argsort, searchsorted, '
                     'randperm, unique-inverse) only indexes (gather, index_select, index_add_, x[idx]) an axis of the same extent; '
                     'boolean-mask filtering creates a fresh extent per mask', floor=FLOOR_CHECKS)
    decided = 0
    for mod, qual, configs in SEEDS:
        f = repo.func(mod, qual)
        for ci, cfg in enumerate(configs):
            reports = []
            it = Interp(repo, lambda node, msg: reports.append((node, msg)))
            args = dict(cfg)
            rets = it.run_function(f, args)
            n_ok = sum(1 for k in it.checks if k[2] is True)
            n_bad = sum(1 for k in it.checks if k[2] is False)
            n_unk = sum(1 for k in it.checks if k[2] is None)
            decided += n_ok + n_bad
            res.unresolved += n_unk
            for k in it.checks:
                res.inst({'function': f.fq, 'config': ci, 'site': src(k[1])[:70], 'what': k[3], 'agrees': k[2]},
                         (f.fq, ci, getattr(k[1], 'lineno', 0), k[3]))
            seen = set()
            for node, msg in reports:
                key = (getattr(node, 'lineno', 0), msg)
                if key in seen:
                    continue
                seen.add(key)
                owner = _owner(repo, f, node)
                res.add(Finding('C18.IDX', owner, msg + ' (entry %s, configuration %s)' % (qual, _cfg(cfg)), node=node,
                                construct=norm_construct(node, owner.node) + ' | ' + msg.split(' was computed')[0]))
    if decided < FLOOR_CHECKS:
        raise AnalysisError('C18.IDX: only %d index/axis pairs decided (floor %d) - the typing lost its anchors' % (decided, FLOOR_CHECKS))
    # de-duplicate findings that differ only by configuration
    uniq = {}
    for fd in res.findings:
        uniq.setdefault(fd.key, fd)
    res.findings = list(uniq.values())
    return res


def _cfg(cfg):
    return '{' + ', '.join('%s=%s' % (k, 'None' if v is NONE else ('given' if not isinstance(v, TV) else repr(v))) for k, v in cfg.items()) + '}'


def _owner(repo, f, node):
    """the function that textually contains node (callee bodies are interpreted inline)"""
    for g in repo.all_functions():
        if g.module is f.module or True:
            if any(n is node for n in ast.walk(g.node)):
                best = g
                # innermost
                for h in repo.all_functions():
                    if h is not g and any(n is node for n in ast.walk(h.node)) and any(n is h.node for n in ast.walk(g.node)):
                        best = h
                return best
    return f




# ---------------------------------------------------------------- SIGN: homo2cart divides by the (signed) last coordinate

from ..expr import inline_straight, returns_of, dump     # noqa: E402


def _sign_kind(e, wd):
    """'w' sign of the last coordinate is preserved | 'pos' non-negative | 'const' | '?'"""
    if dump(e) == wd:
        return 'w'
    if isinstance(e, ast.Constant):
        return 'const'
    if isinstance(e, ast.UnaryOp) and isinstance(e.op, ast.USub):
        k = _sign_kind(e.operand, wd)
        return {'w': 'negw'}.get(k, k)
    if isinstance(e, ast.Call):
        d = dotted(e.func) or ''
        if isinstance(e.func, ast.Attribute) and not d.startswith('torch.'):
            b = _sign_kind(e.func.value, wd)
            m = e.func.attr
            if m in ('abs', 'square'):
                return 'pos' if b in ('w', 'negw', 'pos') else '?'
            if m in ('clamp', 'clamp_', 'clamp_min', 'clamp_min_'):
                return b if b == 'pos' else ('?' if b in ('w', 'negw') else b)
            if m in ('sign', 'sgn'):
                return b
            if m in ('clone', 'contiguous', 'unsqueeze', 'squeeze', 'to', 'float', 'double', 'detach'):
                return b
            return '?'
        if d in ('pm', 'torch.sign', 'torch.sgn') and e.args:
            return _sign_kind(e.args[0], wd)
        if d in ('torch.abs',) and e.args:
            return 'pos'
        if d in ('torch.clamp', 'torch.clamp_min') and e.args:
            b = _sign_kind(e.args[0], wd)
            return b if b == 'pos' else '?'
        if d in ('torch.where',) and len(e.args) == 3:
            a, b = _sign_kind(e.args[1], wd), _sign_kind(e.args[2], wd)
            return a if a == b else '?'
        return '?'
    if isinstance(e, ast.BinOp) and isinstance(e.op, (ast.Mult, ast.Div)):
        a, b = _sign_kind(e.left, wd), _sign_kind(e.right, wd)
        table = {('w', 'pos'): 'w', ('pos', 'w'): 'w', ('w', 'w'): 'pos', ('pos', 'pos'): 'pos', ('negw', 'pos'): 'negw', ('pos', 'negw'): 'negw',
                 ('w', 'const'): 'w', ('const', 'w'): 'w', ('pos', 'const'): 'pos', ('const', 'pos'): 'pos', ('w', 'negw'): '?', ('negw', 'w'): '?'}
        return table.get((a, b), '?')
    return '?'


@guarded
def rule_sign(repo, tier):
    res = RuleResult('C18.SIGN', 'homo2cart divides the leading coordinates by a quantity that keeps the sign of the last coordinate '
                     '(protection against a zero denominator may only clamp its magnitude): points with negative homogeneous '
                     'coordinate are not mirrored', floor=1)
    f = repo.func(GEO, 'homo2cart')
    pn = f.pos_params[0]
    rets = returns_of(f.node)
    if len(rets) != 1:
        raise AnalysisError('C18.SIGN: homo2cart has %d returns' % len(rets))
    v = inline_straight(f.node, upto=rets[0]).value(rets[0].value)
    wd = dump(ast.parse('%s[..., -1:]' % pn, mode='eval').body)
    if not (isinstance(v, ast.BinOp) and isinstance(v.op, ast.Div)):
        raise AnalysisError('C18.SIGN: homo2cart no longer returns a quotient')
    k = _sign_kind(v.right, wd)
    res.inst({'function': f.fq, 'divisor': src(v.right)[:80], 'sign_kind': k}, f.fq)
    if k in ('pos', 'const', 'negw'):
        res.add(Finding('C18.SIGN', f, 'homo2cart divides by `%s`, which is %s: the sign of the last homogeneous coordinate is lost'
                        % (src(v.right)[:70], {'pos': 'non-negative', 'const': 'constant', 'negw': 'sign-reversed'}[k]), node=rets[0],
                        construct='divisor kind ' + k))
    elif k == '?':
        res.unresolved += 1
    return res


OPTION_NAMES = {'ord', 'dim', 'pdim', 'radius', 'largest', 'sorted', 'k'}
FWD_MODULES = [GEO, 'pypose.module.icp']


@guarded
def rule_fwd(repo, tier):
    from .. import paths as _paths
    res = RuleResult('C18.FWD', 'option forwarding: when a point-cloud function that takes a norm / dimension option (ord, dim, pdim, ...) calls '
                     'another function of the package with an option of the same name, it passes its own value on - otherwise the two '
                     'halves of one query are evaluated in different norms / over different columns', floor=1)
    n = 0
    for mod in FWD_MODULES:
        for q, f in repo.module(mod).functions.items():
            fp = set(f.params)
            for c in _paths.calls_in(f.node):
                cands, how = repo.resolve_call(f, c, by_name=False)
                if len(cands) != 1 or cands[0].module.name not in FWD_MODULES or cands[0] is f:
                    continue
                g = cands[0]
                shared = (fp & set(g.params) & OPTION_NAMES)
                if not shared:
                    continue
                bound = {}
                for i, a in enumerate(c.args):
                    if i < len(g.pos_params):
                        bound[g.pos_params[i]] = a
                for k in c.keywords:
                    if k.arg:
                        bound[k.arg] = k.value
                n += 1
                missing = sorted(p for p in shared if p not in bound)
                res.inst({'function': f.fq, 'callee': g.name, 'shared_options': sorted(shared), 'not_passed': missing}, (f.fq, norm_construct(c, f.node)))
                for p in missing:
                    res.add(Finding('C18.FWD', f, '%s has the option `%s` but calls %s, which has the same option, without passing it: %s falls back to '
                                    'its default' % (f.name, p, g.name, g.name), node=c, construct='%s -> %s: %s' % (f.name, g.name, p)))
    # expected-small rule: positive fixture
    import ast as _ast
    fx = _ast.parse('def a(points, k, ord=2):\n    return b(points, k)\n')
    if not ({'ord'} & {x.arg for x in fx.body[0].args.args}):
        raise AnalysisError('C18.FWD fixture broken')
    return res


@guarded
def rule_memo18(repo, tier):
    from ..memo import rule_memo
    return rule_memo(repo, 'C18.MEMO', 'the point-cloud and camera helpers are functions of their arguments: nothing computed from the contents of a point '
                     'tensor is kept in storage that outlives the call (a cloud buffer refilled in place must be filtered by its new contents)',
                     ['pypose.function.geometry'], floor=10)


def rules(repo, tier):
    return [rule_idx(repo, tier), rule_sign(repo, tier), rule_fwd(repo, tier), rule_memo18(repo, tier)]
