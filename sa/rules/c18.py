"""C18 - index-domain agreement in the point-cloud filters (and the other gather sites of the package)."""
import ast
from ..core import RuleResult, Finding, AnalysisError, dotted, src, norm_construct, guarded, guarded_list
from ..shapes import Interp, TV, IntV, NONE, TOP, sym, lit
from .. import paths

GEO = 'pypose.function.geometry'
B = ('batch', 'B')


def T(*dims):
    return TV([d if isinstance(d, tuple) else (sym(d) if isinstance(d, str) else lit(d)) for d in dims])


# documented argument shapes (docstrings of the functions) - the seeds of the typing; optional arguments are
# explored both absent (NONE) and present
SEEDS = [
    (GEO, 'knn_filter', [{'points': T('N', 'D'), 'k': IntV(), 'radius': IntV()},
                         {'points': T('N', 'D'), 'k': IntV(), 'radius': IntV(), 'pdim': IntV()},
                         {'points': T(B, 'N', 'D'), 'k': IntV(), 'radius': NONE}]),
    (GEO, 'knn', [{'ref': T(B, 'Nr', 'D'), 'nbr': T(B, 'Nn', 'D'), 'k': IntV()}]),
    (GEO, 'nbr_filter', [{'points': T('N', 'D'), 'nbr': IntV(), 'radius': IntV()},
                         {'points': T('N', 'D'), 'nbr': IntV(), 'radius': IntV(), 'return_mask': IntV(val=True)}]),
    (GEO, 'random_filter', [{'points': T(B, 'N', 'D'), 'num': IntV()}]),
    (GEO, 'voxel_filter', [{'points': T('N', 'D'), 'voxel': TOP, 'random': IntV(val=False)},
                           {'points': T('N', 'D'), 'voxel': TOP, 'random': IntV(val=True)}]),
    (GEO, 'pixel2point', [{'pixels': T(B, 'N', 2), 'depth': T(B, 'N'), 'intrinsics': T(B, 3, 3)},
                          {'pixels': T('N', 2), 'depth': T('N'), 'intrinsics': T(3, 3)}]),
    (GEO, 'point2pixel', [{'points': T(B, 'N', 3), 'intrinsics': T(B, 3, 3), 'extrinsics': NONE}]),
    ('pypose.module.icp', 'ICP.forward', [{'source': T(B, 'Ns', 'D'), 'target': T(B, 'Nt', 'D'), 'init': NONE, 'self.init': NONE},
                                           {'source': T('Ns', 'D'), 'target': T('Nt', 'D'), 'init': NONE, 'self.init': NONE}]),
    ('pypose.module.pf', 'PF.resample_particles', [{'q': T('P'), 'x': T('P', 'n'), 'self.particles': IntV(of=sym('P'))}]),
    ('pypose.module.pnp', 'EPnP._best_solution', [{'errors': T('S', 'Bt', 'Np'), 'poses': T('S', 'Bt', 7), 'betas': T('S', 'Bt', 4),
                                                   'scales': T('S', 'Bt', 1)}]),
]
FLOOR_CHECKS = 8


@guarded
def rule_idx(repo, tier):
    res = RuleResult('C18.IDX', 'an index tensor computed over an axis of nominal extent S (topk, min/argmin, argsort, searchsorted, '
                     'randperm, unique-inverse) only indexes (gather, index_select, index_add_, x[idx]) an axis of the same extent; '
                     'boolean-mask filtering creates a fresh extent per mask', floor=FLOOR_CHECKS)
    decided = 0
    for mod, qual, configs in SEEDS:
        f = repo.func(mod, qual)
        for ci, cfg in enumerate(configs):
            reports = []
            it = Interp(repo, lambda node, msg: reports.append((node, msg)))
            args = dict(cfg)
            rets = it.run_function(f, args)
            n_ok = sum(1 for k in it.checks if k[2] is True)
            n_bad = sum(1 for k in it.checks if k[2] is False)
            n_unk = sum(1 for k in it.checks if k[2] is None)
            decided += n_ok + n_bad
            res.unresolved += n_unk
            for k in it.checks:
                res.inst({'function': f.fq, 'config': ci, 'site': src(k[1])[:70], 'what': k[3], 'agrees': k[2]},
                         (f.fq, ci, getattr(k[1], 'lineno', 0), k[3]))
            seen = set()
            for node, msg in reports:
                key = (getattr(node, 'lineno', 0), msg)
                if key in seen:
                    continue
                seen.add(key)
                owner = _owner(repo, f, node)
                res.add(Finding('C18.IDX', owner, msg + ' (entry %s, configuration %s)' % (qual, _cfg(cfg)), node=node,
                                construct=norm_construct(node, owner.node) + ' | ' + msg.split(' was computed')[0]))
    if decided < FLOOR_CHECKS:
        raise AnalysisError('C18.IDX: only %d index/axis pairs decided (floor %d) - the typing lost its anchors' % (decided, FLOOR_CHECKS))
    # de-duplicate findings that differ only by configuration
    uniq = {}
    for fd in res.findings:
        uniq.setdefault(fd.key, fd)
    res.findings = list(uniq.values())
    return res


def _cfg(cfg):
    return '{' + ', '.join('%s=%s' % (k, 'None' if v is NONE else ('given' if not isinstance(v, TV) else repr(v))) for k, v in cfg.items()) + '}'


def _owner(repo, f, node):
    """the function that textually contains node (callee bodies are interpreted inline)"""
    for g in repo.all_functions():
        if g.module is f.module or True:
            if any(n is node for n in ast.walk(g.node)):
                best = g
                # innermost
                for h in repo.all_functions():
                    if h is not g and any(n is node for n in ast.walk(h.node)) and any(n is h.node for n in ast.walk(g.node)):
                        best = h
                return best
    return f




# ---------------------------------------------------------------- SIGN: homo2cart divides by the (signed) last coordinate

from ..expr import inline_straight, returns_of, dump     # noqa: E402


def _sign_kind(e, wd):
    """'w' sign of the last coordinate is preserved | 'pos' non-negative | 'const' | '?'"""
    if dump(e) == wd:
        return 'w'
    if isinstance(e, ast.Constant):
        return 'const'
    if isinstance(e, ast.UnaryOp) and isinstance(e.op, ast.USub):
        k = _sign_kind(e.operand, wd)
        return {'w': 'negw'}.get(k, k)
    if isinstance(e, ast.Call):
        d = dotted(e.func) or ''
        if isinstance(e.func, ast.Attribute) and not d.startswith('torch.'):
            b = _sign_kind(e.func.value, wd)
            m = e.func.attr
            if m in ('abs', 'square'):
                return 'pos' if b in ('w', 'negw', 'pos') else '?'
            if m in ('clamp', 'clamp_', 'clamp_min', 'clamp_min_'):
                return b if b == 'pos' else ('?' if b in ('w', 'negw') else b)
            if m in ('sign', 'sgn'):
                return b
            if m in ('clone', 'contiguous', 'unsqueeze', 'squeeze', 'to', 'float', 'double', 'detach'):
                return b
            return '?'
        if d in ('pm', 'torch.sign', 'torch.sgn') and e.args:
            return _sign_kind(e.args[0], wd)
        if d in ('torch.abs',) and e.args:
            return 'pos'
        if d in ('torch.clamp', 'torch.clamp_min') and e.args:
            b = _sign_kind(e.args[0], wd)
            return b if b == 'pos' else '?'
        if d in ('torch.where',) and len(e.args) == 3:
            a, b = _sign_kind(e.args[1], wd), _sign_kind(e.args[2], wd)
            return a if a == b else '?'
        return '?'
    if isinstance(e, ast.BinOp) and isinstance(e.op, (ast.Mult, ast.Div)):
        a, b = _sign_kind(e.left, wd), _sign_kind(e.right, wd)
        table = {('w', 'pos'): 'w', ('pos', 'w'): 'w', ('w', 'w'): 'pos', ('pos', 'pos'): 'pos', ('negw', 'pos'): 'negw', ('pos', 'negw'): 'negw',
                 ('w', 'const'): 'w', ('const', 'w'): 'w', ('pos', 'const'): 'pos', ('const', 'pos'): 'pos', ('w', 'negw'): '?', ('negw', 'w'): '?'}
        return table.get((a, b), '?')
    return '?'


@guarded
def rule_sign(repo, tier):
    res = RuleResult('C18.SIGN', 'homo2cart divides the leading coordinates by a quantity that keeps the sign of the last coordinate '
                     '(protection against a zero denominator may only clamp its magnitude): points with negative homogeneous '
                     'coordinate are not mirrored', floor=1)
    f = repo.func(GEO, 'homo2cart')
    pn = f.pos_params[0]
    rets = returns_of(f.node)
    if len(rets) != 1:
        raise AnalysisError('C18.SIGN: homo2cart has %d returns' % len(rets))
    v = inline_straight(f.node, upto=rets[0]).value(rets[0].value)
    wd = dump(ast.parse('%s[..., -1:]' % pn, mode='eval').body)
    if not (isinstance(v, ast.BinOp) and isinstance(v.op, ast.Div)):
        raise AnalysisError('C18.SIGN: homo2cart no longer returns a quotient')
    k = _sign_kind(v.right, wd)
    res.inst({'function': f.fq, 'divisor': src(v.right)[:80], 'sign_kind': k}, f.fq)
    if k in ('pos', 'const', 'negw'):
        res.add(Finding('C18.SIGN', f, 'homo2cart divides by `%s`, which is %s: the sign of the last homogeneous coordinate is lost'
                        % (src(v.right)[:70], {'pos': 'non-negative', 'const': 'constant', 'negw': 'sign-reversed'}[k]), node=rets[0],
                        construct='divisor kind ' + k))
    elif k == '?':
        res.unresolved += 1
    return res


OPTION_NAMES = {'ord', 'dim', 'pdim', 'radius', 'largest', 'sorted', 'k'}
FWD_MODULES = [GEO, 'pypose.module.icp']


@guarded
def rule_fwd(repo, tier):
    from .. import paths as _paths
    res = RuleResult('C18.FWD', 'option forwarding: when a point-cloud function that takes a norm / dimension option (ord, dim, pdim, ...) calls '
                     'another function of the package with an option of the same name, it passes its own value on - otherwise the two '
                     'halves of one query are evaluated in different norms / over different columns', floor=1)
    n = 0
    for mod in FWD_MODULES:
        for q, f in repo.module(mod).functions.items():
            fp = set(f.params)
            for c in _paths.calls_in(f.node):
                cands, how = repo.resolve_call(f, c, by_name=False)
                if len(cands) != 1 or cands[0].module.name not in FWD_MODULES or cands[0] is f:
                    continue
                g = cands[0]
                shared = (fp & set(g.params) & OPTION_NAMES)
                if not shared:
                    continue
                bound = {}
                for i, a in enumerate(c.args):
                    if i < len(g.pos_params):
                        bound[g.pos_params[i]] = a
                for k in c.keywords:
                    if k.arg:
                        bound[k.arg] = k.value
                n += 1
                missing = sorted(p for p in shared if p not in bound)
                res.inst({'function': f.fq, 'callee': g.name, 'shared_options': sorted(shared), 'not_passed': missing}, (f.fq, norm_construct(c, f.node)))
                for p in missing:
                    res.add(Finding('C18.FWD', f, '%s has the option `%s` but calls %s, which has the same option, without passing it: %s falls back to '
                                    'its default' % (f.name, p, g.name, g.name), node=c, construct='%s -> %s: %s' % (f.name, g.name, p)))
    # expected-small rule: positive fixture
    import ast as _ast
    fx = _ast.parse('def a(points, k, ord=2):\n    return b(points, k)\n')
    if not ({'ord'} & {x.arg for x in fx.body[0].args.args}):
        raise AnalysisError('C18.FWD fixture broken')
    return res


# ---------------------------------------------------------------------------------------------------------------- SELF

def _flat_assigns(body, binding):
    """assignments of a body in source order; `if <name> is None` / `is not None` tests on names with a known None-ness are resolved"""
    out = []
    for st in body:
        if isinstance(st, ast.Assign):
            out.append(st)
        elif isinstance(st, ast.If):
            t = st.test
            known = None
            if isinstance(t, ast.Compare) and len(t.ops) == 1 and isinstance(t.left, ast.Name) and t.left.id in binding \
                    and isinstance(t.comparators[0], ast.Constant) and t.comparators[0].value is None:
                isnone = binding[t.left.id]
                if isinstance(t.ops[0], (ast.Is, ast.Eq)):
                    known = isnone
                elif isinstance(t.ops[0], (ast.IsNot, ast.NotEq)):
                    known = not isnone
            if known is True:
                out += _flat_assigns(st.body, binding)
            elif known is False:
                out += _flat_assigns(st.orelse, binding)
            else:
                out += _flat_assigns(st.body, binding) + _flat_assigns(st.orelse, binding)
        elif isinstance(st, (ast.For, ast.While, ast.With, ast.Try)):
            out += _flat_assigns(st.body, binding)
    return out


def _value_before(assigns, name, before_line):
    """(value expression, position in a tuple target or None, the assignment) of the closest assignment to `name` above line `before_line`"""
    best = None
    for st in assigns:
        if st.lineno >= before_line:
            continue
        for t in st.targets:
            if isinstance(t, ast.Name) and t.id == name:
                best = (st.value, None, st)
            elif isinstance(t, ast.Tuple):
                for k, x in enumerate(t.elts):
                    if isinstance(x, ast.Name) and x.id == name:
                        v = st.value.elts[k] if isinstance(st.value, ast.Tuple) and len(st.value.elts) == len(t.elts) else st.value
                        best = (v, k if v is st.value else None, st)
    return best


def _diag_status(e, assigns, line, depth=0):
    """'incl': e is a pairwise distance matrix of ONE point set with its zero diagonal intact; 'excl': the diagonal was masked out;
    None: distances between two different sets / unknown"""
    if depth > 12:
        return None
    if isinstance(e, ast.Name):
        got = _value_before(assigns, e.id, line)
        if got is None:
            return None
        return _diag_status(got[0], assigns, got[2].lineno, depth + 1)
    if isinstance(e, ast.Subscript):
        # D[m][:, m] / D[m, m] with the same mask on both axes keeps the diagonal on the diagonal
        inner = e.value
        if isinstance(inner, ast.Subscript):
            m1 = src(inner.slice)
            sl = e.slice
            m2 = src(sl.elts[-1]) if isinstance(sl, ast.Tuple) and len(sl.elts) == 2 and isinstance(sl.elts[0], ast.Slice) else None
            if m2 is not None and m1 == m2:
                return _diag_status(inner.value, assigns, line, depth + 1)
            return None
        return None
    if isinstance(e, ast.Call):
        name = (dotted(e.func) or '').split('.')[-1] if dotted(e.func) else (e.func.attr if isinstance(e.func, ast.Attribute) else '')
        if name in ('masked_fill', 'masked_fill_', 'fill_diagonal_', 'fill_diagonal'):
            base = e.func.value if isinstance(e.func, ast.Attribute) else (e.args[0] if e.args else None)
            st = _diag_status(base, assigns, line, depth + 1) if base is not None else None
            return 'excl' if st in ('incl', 'excl') else None
        if name == 'norm' and e.args:
            d = e.args[0]
            if isinstance(d, ast.Name):
                got = _value_before(assigns, d.id, line)
                d = got[0] if got else None
            if isinstance(d, ast.BinOp) and isinstance(d.op, ast.Sub):
                def pts(x, dimwant):
                    if isinstance(x, ast.Call) and isinstance(x.func, ast.Attribute) and x.func.attr == 'unsqueeze' and x.args and src(x.args[0]) == dimwant:
                        return src(x.func.value).replace(' ', '')
                    return None
                a, b = pts(d.left, '-2'), pts(d.right, '-3')
                if a is None or b is None:
                    a, b = pts(d.left, '-3'), pts(d.right, '-2')
                if a is not None and a == b:
                    return 'incl'
            return None
        if name in ('clone', 'contiguous', 'to', 'float', 'double', 'detach'):
            return _diag_status(e.func.value, assigns, line, depth + 1)
    return None


@guarded
def rule_self(repo, tier):
    res = RuleResult('C18.SELF', 'knn_filter averages a point with its k nearest neighbours: the gathered index set is the k+1 smallest entries of a '
                     'self-distance matrix whose zero diagonal is intact (the point itself is one of the k+1), also when it is obtained through knn()',
                     floor=1)
    f = repo.func(GEO, 'knn_filter')
    kname = 'k'
    assigns = _flat_assigns(f.node.body, {})
    # the index handed to gather
    gathers = [c for c in paths.calls_in(f.node) if (dotted(c.func) or '').split('.')[-1] == 'gather' and len(c.args) >= 3]
    if not gathers:
        raise AnalysisError('C18.SELF: knn_filter no longer gathers neighbour points')
    for g in gathers:
        idx = g.args[2] if (dotted(g.func) or '').startswith('torch.') else g.args[1]
        # follow idx = idx.unsqueeze(..).expand(..) back to the producing call
        cur, line = idx, g.lineno
        prod = None
        for _ in range(10):
            if isinstance(cur, ast.Name):
                got = _value_before(assigns, cur.id, line)
                if got is None:
                    break
                v, pos, st = got
                if isinstance(v, ast.Call) and pos is None and isinstance(st.targets[0], ast.Tuple):
                    prod = (v, st)
                    break
                cur, line = v, st.lineno
            elif isinstance(cur, ast.Call) and isinstance(cur.func, ast.Attribute) and cur.func.attr in ('unsqueeze', 'expand', 'expand_as', 'view', 'long', 'squeeze'):
                cur = cur.func.value
            elif isinstance(cur, ast.Attribute) and cur.attr == 'indices':
                cur = cur.value
            elif isinstance(cur, ast.Call):
                prod = (cur, None)
                break
            else:
                break
        if prod is None:
            raise AnalysisError('C18.SELF: the neighbour index of knn_filter could not be traced to its producer')
        call, st = prod
        cname = (dotted(call.func) or '').split('.')[-1] if dotted(call.func) else call.func.attr
        status, K = None, None
        if cname == 'topk' and isinstance(call.func, ast.Attribute):
            K = call.args[0] if call.args else None
            status = _diag_status(call.func.value, assigns, call.lineno)
        else:
            tg, how = repo.resolve_call(f, call, by_name=False)
            if len(tg) == 1:
                callee = tg[0]
                a = callee.node.args
                params = [x.arg for x in a.posonlyargs + a.args]
                dflt = dict(zip(params[len(params) - len(a.defaults):], a.defaults))
                bound = {}
                for i, x in enumerate(call.args):
                    if i < len(params):
                        bound[params[i]] = x
                for kw in call.keywords:
                    if kw.arg:
                        bound[kw.arg] = kw.value
                for pn, dv in dflt.items():
                    bound.setdefault(pn, dv)
                K = bound.get('k')
                noneness = {pn: isinstance(v, ast.Constant) and v.value is None for pn, v in bound.items()}
                cas = _flat_assigns(callee.node.body, noneness)
                # the callee's topk
                tk = [c for c in paths.calls_in(callee.node) if isinstance(c.func, ast.Attribute) and c.func.attr == 'topk']
                if len(tk) == 1:
                    status = _diag_status(tk[0].func.value, cas, tk[0].lineno)
                    if status is None:
                        # distances between two argument sets: the same expression on both sides is a self-distance matrix
                        d = _value_before(cas, 'diff', tk[0].lineno)
                        pa, pb = bound.get(params[0]), bound.get(params[1]) if len(params) > 1 else None
                        if pa is not None and pb is not None and src(pa) == src(pb) and not noneness.get(params[1]):
                            status = 'incl'
                    if tk[0].args and isinstance(tk[0].args[0], ast.Name) and tk[0].args[0].id != 'k':
                        K = None
        kk = src(K).replace(' ', '') if K is not None else None
        ok = status == 'incl' and kk in (kname + '+1', '1+' + kname)
        res.inst({'function': f.fq, 'neighbour index from': src(call)[:70], 'diagonal': status, 'count': kk, 'self plus k neighbours': ok})
        if status is None or kk is None:
            raise AnalysisError('C18.SELF: could not classify the neighbour set of knn_filter (%s, count %s)' % (status, kk))
        if not ok:
            what = 'the point itself is excluded from its neighbour set (diagonal masked out)' if status == 'excl' else 'the set has %s members' % kk
            res.add(Finding('C18.SELF', f, 'knn_filter gathers `%s`: %s, but the filtered point is the mean of ITSELF and its k nearest neighbours, i.e. '
                            'the k+1 smallest entries of a self-distance row including its zero diagonal' % (src(call)[:60], what), node=call))
    return res


@guarded
def rule_count(repo, tier):
    """"at least n OTHER points within the radius": the point itself is taken out of its own neighbour count by position (the count over the
    full self-distance row minus one, or a masked diagonal), never by a test on the distance value - a distinct point with identical coordinates
    (merged scans, quantised clouds) has distance 0 too and is one of the others."""
    res = RuleResult('C18.COUNT', 'nbr_filter / knn_filter: the neighbour count is the number of row entries within the radius with exactly the point '
                     'itself removed by position (minus one / diagonal mask); the counted predicate has no lower bound on the distance', floor=2)
    n = 0
    for q in ('nbr_filter', 'knn_filter'):
        f = repo.func(GEO, q)
        for a in ast.walk(f.node):
            if not (isinstance(a, ast.Assign) and len(a.targets) == 1 and isinstance(a.targets[0], ast.Name)):
                continue
            sums = [c for c in ast.walk(a.value) if isinstance(c, ast.Call) and (dotted(c.func) or '').split('.')[-1] in ('sum', 'count_nonzero') and
                    (c.args or isinstance(c.func, ast.Attribute))]
            sums = [c for c in sums if any(isinstance(x, ast.Compare) for x in ast.walk(c)) and
                    any((dotted(y) or '') == 'radius' for x in ast.walk(c) if isinstance(x, ast.Compare) for y in ast.walk(x))]
            if not sums:
                continue
            c = sums[0]
            n += 1
            cmps = [x for x in ast.walk(c) if isinstance(x, ast.Compare)]
            lower = [x for x in cmps if (isinstance(x.ops[0], (ast.Gt, ast.GtE, ast.NotEq)) and isinstance(x.comparators[0], ast.Constant)) or
                     (isinstance(x.ops[0], (ast.Lt, ast.LtE, ast.NotEq)) and isinstance(x.left, ast.Constant))]
            v = a.value
            minus_one = isinstance(v, ast.BinOp) and isinstance(v.op, ast.Sub) and isinstance(v.right, ast.Constant) and v.right.value == 1 and \
                any(x is c for x in ast.walk(v.left))
            diag = any(isinstance(x, ast.Call) and (dotted(x.func) or '').split('.')[-1] in ('eye', 'fill_diagonal_', 'diag_embed') for x in ast.walk(v))
            ok = not lower and (minus_one != diag)
            res.inst({'function': f.fq, 'count': src(v)[:80], 'lower bound on the distance': bool(lower), 'self removed by': 'minus one' if minus_one else 'diagonal' if diag else None,
                      'ok': ok}, (f.fq, src(v)))
            if lower:
                res.add(Finding('C18.COUNT', f, '`%s` excludes entries by a test on the distance value (`%s`): every other point at distance 0 (identical '
                                'coordinates) is dropped from the count together with the point itself' % (src(v)[:70], src(lower[0])[:30]), node=a))
            elif not (minus_one or diag):
                res.add(Finding('C18.COUNT', f, '`%s` counts the point itself among its neighbours (neither minus one nor a masked diagonal)' % src(v)[:70], node=a))
            elif minus_one and diag:
                res.add(Finding('C18.COUNT', f, '`%s` removes the point itself twice (diagonal mask and minus one)' % src(v)[:70], node=a))
    # the other admissible form of "at least n others within the radius": the (n+1)-th smallest distance of the row (self included) is within the radius.  The
    # order statistic must be taken at exactly n + 1 - a k clamped to the number of points (min(n + 1, N)) answers "all the others are near", which keeps points
    # that cannot have n neighbours at all
    for q in ('nbr_filter', 'knn_filter'):
        f = repo.func(GEO, q)
        for c in ast.walk(f.node):
            if isinstance(c, ast.Call) and (dotted(c.func) or '').split('.')[-1] in ('knn', 'topk', 'kthvalue') and q == 'nbr_filter':
                kw = {k.arg: k.value for k in c.keywords}
                kexpr = kw.get('k', c.args[2] if (dotted(c.func) or '').split('.')[-1] == 'knn' and len(c.args) > 2 else (c.args[1] if len(c.args) > 1 else None))
                if kexpr is None:
                    continue
                n += 1
                clamp = [x for x in ast.walk(kexpr) if isinstance(x, ast.Call) and (dotted(x.func) or '').split('.')[-1] in ('min', 'clamp', 'minimum')]
                exact = isinstance(kexpr, ast.BinOp) and isinstance(kexpr.op, ast.Add) and {dump(kexpr.left), dump(kexpr.right)} == {dump(ast.Name('nbr', ast.Load())), dump(ast.Constant(1))}
                res.inst({'function': f.fq, 'order statistic': src(c)[:70], 'k is exactly nbr + 1': exact}, (f.fq, 'kth', src(kexpr)))
                if clamp:
                    res.add(Finding('C18.COUNT', f, 'the neighbour test takes the `%s`-th smallest distance: with k clamped to the number of points a point whose ALL other '
                                    'points are near is kept although it has fewer than nbr neighbours (nbr >= N: nothing can be kept)' % src(kexpr)[:40], node=c,
                                    construct='order statistic with a clamped k'))
                elif not exact:
                    raise AnalysisError('C18.COUNT: the order statistic `%s` of nbr_filter is not at nbr + 1' % src(kexpr)[:40])
    if n < 2:
        raise AnalysisError('C18.COUNT: found %d radius counts in nbr_filter / knn_filter, expected 2' % n)
    return res


@guarded
def rule_kentries(repo, tier):
    """point2pixel multiplies by the WHOLE intrinsic matrix (points @ K^T, then the homogeneous division); its inverse pixel2point must use every
    entry of the first two rows of K that can be non-zero for a pinhole camera: fx, fy, cx, cy and the skew K[0,1].  An inverse that ignores an
    entry the forward map uses is an inverse only for matrices where that entry is zero."""
    res = RuleResult('C18.KENT', 'pixel2point reads every entry of the upper two rows of K that point2pixel uses (fx, skew, cx; fy, cy)', floor=1)
    fwd = repo.func(GEO, 'point2pixel')
    inv = repo.func(GEO, 'pixel2point')
    pk = 'intrinsics'
    full = any(isinstance(n, ast.BinOp) and isinstance(n.op, ast.MatMult) and any(isinstance(x, ast.Name) and x.id == pk for x in ast.walk(n)) for n in ast.walk(fwd.node))
    used = set()
    for n in ast.walk(inv.node):
        if isinstance(n, ast.Subscript) and dotted(n.value) == pk and isinstance(n.slice, ast.Tuple):
            idx = [x.value for x in n.slice.elts if isinstance(x, ast.Constant) and isinstance(x.value, int)]
            if len(idx) >= 2:
                used.add((idx[0], idx[1]))
        elif isinstance(n, ast.BinOp) and isinstance(n.op, ast.MatMult) and any(isinstance(x, ast.Name) and x.id == pk for x in ast.walk(n)):
            used |= {(0, 0), (0, 1), (0, 2), (1, 1), (1, 2)}
        elif isinstance(n, ast.Call) and (dotted(n.func) or '').split('.')[-1] in ('inv', 'inverse', 'solve', 'pinv') and any(isinstance(x, ast.Name) and x.id == pk for x in ast.walk(n)):
            used |= {(0, 0), (0, 1), (0, 2), (1, 1), (1, 2)}
    want = {(0, 0), (0, 1), (0, 2), (1, 1), (1, 2)} if full else set()
    missing = sorted(want - used)
    res.inst({'forward uses the whole matrix': full, 'entries read by the inverse': sorted(used), 'missing': missing}, 'K')
    if not full:
        raise AnalysisError('C18.KENT: point2pixel no longer multiplies by the intrinsic matrix')
    for e in missing:
        res.add(Finding('C18.KENT', inv, 'pixel2point never reads K[%d,%d] (%s), which point2pixel applies: for intrinsics with that entry non-zero the two are '
                        'not mutually inverse' % (e[0], e[1], {(0, 1): 'the skew'}.get(e, 'entry')), construct='K entry %d%d' % e))
    return res


@guarded
def rule_errnorm(repo, tier):
    """reprojerr is zero EXACTLY for the pixels point2pixel produces: every reduction of the per-component error over the (u, v) axis is a norm of
    the difference - the components are made non-negative (abs, square, norm) before they are summed.  A signed sum lets errors of opposite sign
    cancel: a pixel off by (+1, -1) reports 0."""
    res = RuleResult('C18.NORM', 'reprojerr: every reduced per-pixel error is a norm of the difference (components made non-negative before the reduction)', floor=1)
    f = repo.func(GEO, 'reprojerr')
    n = 0
    from ..expr import inline_straight
    for r in [x for x in ast.walk(f.node) if isinstance(x, ast.Return) and x.value is not None]:
        v = r.value
        if isinstance(v, ast.Name):            # `_ret = E; return _ret`: the closest assignment above the return
            defs = [a for a in ast.walk(f.node) if isinstance(a, ast.Assign) and a.lineno <= r.lineno and any(isinstance(t, ast.Name) and t.id == v.id for t in a.targets)]
            if defs:
                v = max(defs, key=lambda a: a.lineno).value
        if isinstance(v, ast.Call) and isinstance(v.func, ast.Attribute) and v.func.attr in ('sum', 'mean', 'norm', 'amax', 'max'):
            n += 1
            inner = v.func.value
            positive = v.func.attr in ('norm',) or any(isinstance(c, ast.Call) and isinstance(c.func, ast.Attribute) and c.func.attr in ('abs', 'square', 'norm', 'abs_')
                                                      for c in ast.walk(inner)) or \
                any(isinstance(c, ast.Call) and (dotted(c.func) or '').split('.')[-1] in ('abs', 'square', 'norm') for c in ast.walk(inner)) or \
                any(isinstance(c, ast.BinOp) and isinstance(c.op, ast.Pow) and isinstance(c.right, ast.Constant) and c.right.value in (2, 2.0) for c in ast.walk(inner))
            res.inst({'function': f.fq, 'reduction': src(v)[:60], 'components non-negative before the reduction': positive}, src(v))
            if not positive:
                res.add(Finding('C18.NORM', f, '`%s` sums the signed component errors: errors of opposite sign cancel, so a pixel that is NOT the projection of the '
                                'point (off by (+1, -1)) gets reprojection error 0; the documentation calls this reduction the L1 norm' % src(v)[:60], node=r))
    if n == 0:
        raise AnalysisError('C18.NORM: no reduced return found in reprojerr')
    return res


@guarded
def rule_rankidx(repo, tier):
    """A tensor used to index the point axis keeps its rank whatever the number of points / occupied voxels is.  An argument-less
    `.squeeze()` removes EVERY singleton axis; applied to an index vector it turns a one-element index into a 0-dim tensor, and indexing with a
    0-dim tensor drops the point axis (one occupied voxel: result (D,) instead of (1, D)) or, one step later, raises (a one-point cloud)."""
    res = RuleResult('C18.RANK', 'index tensors of the point-cloud functions are never passed through an argument-less squeeze(): a cloud of one point '
                     'or one occupied voxel is inside the stated range', floor=1)
    n_idx = 0
    for f in repo.module(GEO).functions.values():
        squeezed = {}
        for a in ast.walk(f.node):
            if isinstance(a, ast.Assign) and len(a.targets) == 1 and isinstance(a.targets[0], ast.Name):
                v = a.value
                if isinstance(v, ast.Call) and isinstance(v.func, ast.Attribute) and v.func.attr == 'squeeze' and not v.args and not v.keywords:
                    squeezed[a.targets[0].id] = a
        used = set()
        for sub in ast.walk(f.node):
            if isinstance(sub, ast.Subscript):
                elts = sub.slice.elts if isinstance(sub.slice, ast.Tuple) else [sub.slice]
                for e in elts:
                    if isinstance(e, ast.Name):
                        n_idx += 1
                        if e.id in squeezed:
                            used.add(e.id)
                    elif isinstance(e, ast.Call) and isinstance(e.func, ast.Attribute) and e.func.attr == 'squeeze' and not e.args and not e.keywords:
                        res.add(Finding('C18.RANK', f, '`%s` indexes with an argument-less squeeze()' % src(sub)[:60], node=sub))
        res.inst({'function': f.fq, 'index tensors built with a bare squeeze()': sorted(used)}, f.fq)
        for name in sorted(used):
            a = squeezed[name]
            res.add(Finding('C18.RANK', f, '`%s` builds the index tensor `%s` with an argument-less squeeze(): with a single point / a single occupied voxel '
                            'it becomes 0-dimensional and the indexed axis disappears from the result (or the next indexing raises)' % (src(a)[:70], name),
                            node=a, construct='bare squeeze|' + name))
    if n_idx == 0:
        raise AnalysisError('C18.RANK: no tensor-indexed subscript found in the geometry module')
    return res


@guarded
def rule_memo18(repo, tier):
    from ..memo import rule_memo
    return rule_memo(repo, 'C18.MEMO', 'the point-cloud and camera helpers are functions of their arguments: nothing computed from the contents of a point '
                     'tensor is kept in storage that outlives the call (a cloud buffer refilled in place must be filtered by its new contents)',
                     ['pypose.function.geometry'], floor=10)


@guarded
def rule_unit18(repo, tier):
    """Dimensional analysis of pixel2point with two base units: pixels (u, v, fx, fy, cx, cy, skew) and metres (depth, the returned point).  Run once per
    base unit (the other one counted as dimensionless): every sum combines equal units and every component of the result is a length.  An inverse
    written as (u - cx) / fx - skew * y_n adds a pure number to a pixel count: whatever the values, it cannot be the inverse of the projection."""
    from .c09 import _units
    from fractions import Fraction
    res = RuleResult('C18.UNIT', 'pixel2point is dimensionally homogeneous in pixels and in metres: sums combine equal units, the three components of the returned '
                     'point are lengths (pixel exponent 0, metre exponent 1)', floor=2)
    f = repo.func(GEO, 'pixel2point')
    rets = returns_of(f.node)
    if len(rets) != 1:
        raise AnalysisError('C18.UNIT: pixel2point has %d returns' % len(rets))
    v = inline_straight(f.node, upto=rets[0]).value(rets[0].value)
    pp_ = f.pos_params
    if len(pp_) < 3:
        raise AnalysisError('C18.UNIT: pixel2point signature changed')
    for base, env, want in (('pixel', {pp_[0]: Fraction(1), pp_[1]: Fraction(0), pp_[2]: Fraction(1)}, Fraction(0)),
                            ('metre', {pp_[0]: Fraction(0), pp_[1]: Fraction(1), pp_[2]: Fraction(0)}, Fraction(1))):
        problems = []
        u = _units(v, env, problems)
        res.inst({'function': f.fq, 'base unit': base, 'unit exponent of the result': str(u), 'expected': str(want), 'mismatches': len(problems)}, (f.fq, base))
        seen = set()
        for node, msg in problems:
            if msg in seen:
                continue
            seen.add(msg)
            res.add(Finding('C18.UNIT', f, 'pixel2point, counting %ss: %s' % (base, msg.replace('u^', base + '^')), node=rets[0], construct='unit|%s|%s' % (base, msg[:80])))
        if u not in ('unknown', None) and u != want and not problems:
            res.add(Finding('C18.UNIT', f, 'pixel2point returns a quantity of unit %s^%s; a point has %s^%s' % (base, u, base, want), node=rets[0],
                            construct='unit of the result|' + base))
        if u == 'unknown':
            res.unresolved += 1
    return res


@guarded
def rule_ordflow(repo, tier):
    """Option plumbing of the norm order: every function that takes `ord` hands it to EVERY distance it computes - the one that ranks the neighbours as well as
    the one that is compared with the radius.  A second distance built without it (square().sum(), a norm without ord=) silently ranks by the Euclidean norm
    whatever the caller chose; invisible for the default ord=2.  homo2cart's zero-division guard clamps |w| at the smallest normal number (finfo.tiny): any
    larger floor (eps, a literal) rescales points whose homogeneous coordinate is small but representable."""
    res = RuleResult('C18.ORD', 'knn / nbr_filter / knn_filter: every distance computed in a function with an `ord` parameter takes that ord; homo2cart floors |w| at '
                     'finfo.tiny only', floor=4)
    for q, f in repo.module(GEO).functions.items():
        if 'ord' not in f.params:
            continue
        norms = [c for c in ast.walk(f.node) if isinstance(c, ast.Call) and (dotted(c.func) or (c.func.attr if isinstance(c.func, ast.Attribute) else '')).split('.')[-1]
                 in ('norm', 'vector_norm', 'cdist')]
        with_ord = [c for c in norms if any(k.arg in ('ord', 'p') and isinstance(k.value, ast.Name) and k.value.id == 'ord' for k in c.keywords) or
                    any(isinstance(a_, ast.Name) and a_.id == 'ord' for a_ in c.args)]
        # hand-rolled Euclidean distances: (..).square().sum(..) / (.. ** 2).sum(..) / (..*..).sum(..).sqrt()
        hand = [c for c in ast.walk(f.node) if isinstance(c, ast.Call) and isinstance(c.func, ast.Attribute) and c.func.attr == 'sum' and
                ((isinstance(c.func.value, ast.Call) and isinstance(c.func.value.func, ast.Attribute) and c.func.value.func.attr in ('square', 'abs')) or
                 (isinstance(c.func.value, ast.BinOp) and isinstance(c.func.value.op, ast.Pow)))]
        bad = [c for c in norms if c not in with_ord] + hand
        res.inst({'function': f.fq, 'distances with ord': len(with_ord), 'distances without ord': [src(c)[:40] for c in bad]}, f.fq)
        if not with_ord and not bad:
            # the function forwards ord to a callee: some call must pass it on
            if not any(isinstance(c, ast.Call) and (any(k.arg in ('ord', 'p') and isinstance(k.value, ast.Name) and k.value.id == 'ord' for k in c.keywords) or
                                                    any(isinstance(a_, ast.Name) and a_.id == 'ord' for a_ in c.args)) for c in ast.walk(f.node)):
                res.add(Finding('C18.ORD', f, '%s accepts `ord` but hands it to no distance computation' % q, construct='ord not used'))
        for c in bad:
            res.add(Finding('C18.ORD', f, '%s computes the distance `%s` without its `ord` option: neighbours are ranked / counted in the Euclidean norm whatever norm the '
                            'caller asked for' % (q, src(c)[:50]), node=c, construct='distance without ord|' + norm_construct(c, f.node)))
    # pixel2point inverts an upper-triangular K row by row: the y component is built from row 1 of K only (fy, cy) and pixel v, the x component from row 0
    # (fx, skew, cx), pixel u and the y component
    pf = repo.func(GEO, 'pixel2point')
    prets = returns_of(pf.node)
    pv = inline_straight(pf.node, upto=prets[0]).value(prets[0].value) if len(prets) == 1 else None
    if isinstance(pv, ast.Call) and dotted(pv.func) == 'torch.stack' and pv.args and isinstance(pv.args[0], (ast.List, ast.Tuple)) and len(pv.args[0].elts) == 3:
        kname, pxname = pf.pos_params[2], pf.pos_params[0]
        def _root(e):
            # dtype / device / layout conversions keep the entries where they are
            while isinstance(e, ast.Call) and isinstance(e.func, ast.Attribute) and e.func.attr in ('to', 'float', 'double', 'contiguous', 'clone', 'type_as', 'detach'):
                e = e.func.value
            return e
        def entries(e):
            out = set()
            for x in ast.walk(e):
                if isinstance(x, ast.Subscript) and isinstance(_root(x.value), ast.Name) and _root(x.value).id == kname and isinstance(x.slice, ast.Tuple):
                    idx = [y.value for y in x.slice.elts if isinstance(y, ast.Constant) and isinstance(y.value, int)]
                    if len(idx) == 2:
                        out.add(tuple(idx))
            return out
        def pix(e):
            out = set()
            for x in ast.walk(e):
                if isinstance(x, ast.Subscript) and isinstance(_root(x.value), ast.Name) and _root(x.value).id == pxname and isinstance(x.slice, ast.Tuple):
                    idx = [y.value for y in x.slice.elts if isinstance(y, ast.Constant) and isinstance(y.value, int)]
                    out |= set(idx)
            return out
        ex, ey, ez = pv.args[0].elts
        rows_y = {i for i, j in entries(ey)}
        oky = rows_y <= {1} and pix(ey) <= {1} and bool(entries(ey))
        res.inst({'function': pf.fq, 'y component reads K entries': sorted(entries(ey)), 'pixel columns': sorted(pix(ey)), 'row 1 and pixel v only': oky}, (pf.fq, 'rows'))
        if not oky:
            res.add(Finding('C18.ORD', pf, 'the y component of pixel2point reads K entries %s and pixel columns %s: the inverse of the upper-triangular intrinsics uses row 1 '
                            '(fy, cy) and v for y - fx in place of fy is invisible only for square pixels' % (sorted(entries(ey)), sorted(pix(ey))), node=prets[0],
                            construct='y component reads another row of K'))
        if entries(ez):
            res.add(Finding('C18.ORD', pf, 'the z component of pixel2point depends on the intrinsics', node=prets[0], construct='z component reads K'))
    h = repo.func(GEO, 'homo2cart')
    clamps = [c for c in ast.walk(h.node) if isinstance(c, ast.Call) and (dotted(c.func) or (c.func.attr if isinstance(c.func, ast.Attribute) else '')).split('.')[-1]
              in ('clamp', 'clamp_', 'clamp_min', 'clamp_min_', 'clip', 'maximum')]
    defs = {n.targets[0].id: n.value for n in ast.walk(h.node) if isinstance(n, ast.Assign) and len(n.targets) == 1 and isinstance(n.targets[0], ast.Name)}
    for c in clamps:
        lo = next((k.value for k in c.keywords if k.arg == 'min'), c.args[0] if c.args and not (dotted(c.func) or '').startswith('torch.') else (c.args[1] if len(c.args) > 1 else None))
        e = lo
        if isinstance(e, ast.Name) and e.id in defs:
            e = defs[e.id]
        okg = isinstance(e, ast.Attribute) and e.attr in ('tiny', 'smallest_normal')
        res.inst({'function': h.fq, 'zero-division floor': src(lo)[:40] if lo is not None else None, 'is the smallest normal number': okg}, (h.fq, src(c)[:50]))
        # the floor is applied to the MAGNITUDE |w| (the sign is restored afterwards): a lower clamp of the signed value lifts every negative w to +tiny
        recv = c.func.value if isinstance(c.func, ast.Attribute) and not (dotted(c.func) or '').startswith('torch.') else (c.args[0] if c.args else None)
        r_ = recv
        for _ in range(3):
            if isinstance(r_, ast.Name) and r_.id in defs:
                r_ = defs[r_.id]
        is_abs = isinstance(r_, ast.Call) and ((isinstance(r_.func, ast.Attribute) and r_.func.attr == 'abs') or dotted(r_.func) in ('torch.abs', 'abs'))
        res.inst({'function': h.fq, 'clamped quantity': src(r_)[:40] if r_ is not None else None, 'is a magnitude': is_abs}, (h.fq, 'abs', src(c)[:50]))
        if not is_abs:
            res.add(Finding('C18.ORD', h, 'homo2cart clamps `%s` from below, which is not the magnitude |w|: a negative homogeneous coordinate is lifted to the positive floor and '
                            'the point is sent to infinity (points behind the camera in point2pixel)' % (src(r_)[:40] if r_ is not None else '?'), node=c,
                            construct='floor on a signed quantity'))
        if not okg:
            res.add(Finding('C18.ORD', h, 'homo2cart floors the homogeneous coordinate with `%s`: a representable |w| below that floor (but far above the smallest normal number) is '
                            'replaced, and homo2cart(s * cart2homo(p)) is no longer p for small s' % (src(e)[:40] if e is not None else '?'), node=c,
                            construct='homogeneous floor'))
    return res


@guarded
def rule_distinct(repo, tier):
    """random_filter returns DISTINCT input points: the index tensor that selects them is (a prefix of) a permutation - torch.randperm, or torch.multinomial
    without replacement, or the order of a sort / topk of random keys.  randint / a floor of rand / multinomial(replacement=True) draw WITH replacement: for
    num close to N most draws repeat a point."""
    res = RuleResult('C18.DISTINCT', 'random_filter: the indices that select the returned points come from a permutation (randperm / multinomial without replacement / '
                     'argsort of random keys), never from independent draws', floor=1)
    f = repo.func(GEO, 'random_filter')
    rets = returns_of(f.node)
    n = 0
    for r in rets:
        v = inline_straight(f.node, upto=r).value(r.value)
        sources = [c for c in ast.walk(v) if isinstance(c, ast.Call) and (dotted(c.func) or '').split('.')[-1] in
                   ('randperm', 'multinomial', 'randint', 'rand', 'randn', 'randint_like', 'rand_like', 'argsort', 'sort', 'topk', 'choice', 'sample', 'shuffle')]
        if not sources:
            raise AnalysisError('C18.DISTINCT: the random source of random_filter was not recognised in `%s`' % src(v)[:60])
        for c in sources:
            nm = (dotted(c.func) or '').split('.')[-1]
            n += 1
            if nm == 'multinomial':
                kw = {k.arg: k.value for k in c.keywords}
                rep = kw.get('replacement', c.args[2] if len(c.args) > 2 else ast.Constant(False))
                ok = isinstance(rep, ast.Constant) and rep.value is False
            elif nm in ('randint', 'randint_like'):
                ok = False
            elif nm in ('rand', 'randn', 'rand_like'):
                # random keys are fine only under an argsort / sort / topk
                ok = any(isinstance(o, ast.Call) and (dotted(o.func) or o.func.attr if isinstance(o.func, ast.Attribute) else dotted(o.func) or '').split('.')[-1] in ('argsort', 'sort', 'topk')
                         and any(x is c for x in ast.walk(o)) for o in ast.walk(v))
            else:
                ok = True
            res.inst({'function': f.fq, 'index source': src(c)[:60], 'without replacement': ok}, (f.fq, src(c)[:60]))
            if not ok:
                res.add(Finding('C18.DISTINCT', f, 'the indices of random_filter come from `%s`: independent draws repeat (with num = N about a third of the points are '
                                'returned twice or more), the result is not a set of distinct input points' % src(c)[:60], node=r, construct='indices drawn with replacement'))
    return res


@guarded
def rule_vdim(repo, tier):
    """The voxel list has one size per COORDINATE column; the remaining columns of the cloud are feature channels that are averaged, not quantised.  The number of
    coordinate columns is therefore the length of the list as the caller gave it.  A list that is broadcast / expanded / repeated first ("a single number means
    cubic voxels") loses that information: the one-element list [v] on a cloud with feature channels quantises the features too."""
    res = RuleResult('C18.VDIM', 'voxel_filter takes the number of coordinate columns from the length of the voxel argument as given: the argument is not expanded, repeated '
                     'or broadcast before its length is read', floor=1)
    f = repo.func(GEO, 'voxel_filter')
    vname = f.pos_params[1]
    lens = [n for n in ast.walk(f.node) if isinstance(n, ast.Call) and ((dotted(n.func) == 'len' and n.args and dotted(n.args[0]) == vname) or
                                                                         (isinstance(n.func, ast.Attribute) and n.func.attr in ('numel', 'size', '__len__') and dotted(n.func.value) == vname))]
    if not lens:
        raise AnalysisError('C18.VDIM: voxel_filter no longer reads the length of its voxel argument')
    # the read that DEFINES the number of coordinate columns is the one bound to a name (vdim = len(voxel)); a read inside a test (`if voxel.numel() == 1`) decides
    # nothing about the columns
    bound = [a.lineno for a in ast.walk(f.node) if isinstance(a, ast.Assign) and any(any(x is n_ for x in ast.walk(a.value)) for n_ in lens)]
    first = min(bound) if bound else max(n.lineno for n in lens)
    grown = []
    for a in ast.walk(f.node):
        if isinstance(a, ast.Assign) and a.lineno <= first and any(isinstance(t, ast.Name) and t.id == vname for t in a.targets):
            if any(isinstance(c, ast.Call) and (dotted(c.func) or (c.func.attr if isinstance(c.func, ast.Attribute) else '')).split('.')[-1] in
                   ('expand', 'repeat', 'broadcast_to', 'expand_as', 'tile', 'full', 'repeat_interleave') for c in ast.walk(a.value)) or \
                    any(isinstance(b, ast.BinOp) and isinstance(b.op, ast.Mult) and isinstance(b.left, (ast.List, ast.Tuple)) for b in ast.walk(a.value)):
                grown.append(a)
    res.inst({'function': f.fq, 'length read at': src(lens[0])[:40], 'argument grown before that': [src(a)[:50] for a in grown]}, f.fq)
    for a in grown:
        res.add(Finding('C18.VDIM', f, '`%s` widens the voxel argument before its length is read: the number of coordinate columns becomes the width of the cloud, and for a '
                        'one-element list the feature channels are quantised as well - one occupied voxel splits into several rows' % src(a)[:60], node=a,
                        construct='voxel argument grown before its length is read'))
    return res


def rules(repo, tier):
    from ..optional import rule_optional
    from ..mode import mode_rules
    from ..callsig import rule_callsig
    from ..docsig import rule_docsig
    return [rule_distinct(repo, tier), rule_vdim(repo, tier), rule_idx(repo, tier), rule_sign(repo, tier), rule_fwd(repo, tier), rule_memo18(repo, tier), rule_self(repo, tier), rule_rankidx(repo, tier), rule_count(repo, tier), rule_errnorm(repo, tier), rule_kentries(repo, tier), rule_unit18(repo, tier), rule_ordflow(repo, tier), rule_optional(repo, 'C18.OPT', ['pypose.function.geometry'])] + mode_rules(repo, 'C18', ['pypose.function.geometry']) + [rule_callsig(repo, 'C18.SIG', ['pypose.function.geometry']), rule_docsig(repo, 'C18.DOC', ['pypose.function.geometry'])]
