"""Shared rule builders for the LieTensor properties C01-C05."""
import ast, re, copy
from ..core import RuleResult, Finding, AnalysisError, dotted, src, norm_construct, guarded, guarded_list
from ..expr import inline_straight, returns_of, dump, rv
from .. import masks, layout, paths

OP = 'pypose.lietensor.operation'
LT = 'pypose.lietensor.lietensor'
UT = 'pypose.lietensor.utils'
GROUPS = layout.GROUPS
ALG = layout.ALG


@guarded_list
def rule_masks(repo, rid_mp, rid_gd, targets, floor, exceptions=None):
    """targets: list of (module, qualname).  exceptions: {(qualname, root substring): reason} for GD."""
    exceptions = exceptions or {}
    mp = RuleResult(rid_mp, 'every branch-mask group (masked stores into a zero-initialised tensor, or mask-weighted sums) is a '
                    'partition of the magnitude atoms: pairwise disjoint and jointly exhaustive (truth table)', floor=floor)
    gd = RuleResult(rid_gd, 'right-hand operands are gathered with the store\'s own mask, and every division by a quantity that has '
                    'a magnitude guard |X| > eps sits under a mask implying that guard', floor=floor)
    for mod, q in targets:
        f = repo.func(mod, q)
        groups, guards, inl = masks.analyse_function(f.node)
        if not groups:
            raise AnalysisError('%s: no mask group found in %s any more' % (rid_mp, q))
        for gi, g in enumerate(groups):
            label = g.target or ('sum#%d' % gi)
            if not getattr(g, 'zero', True):
                mp.notes.append('%s.%s: masked override of an initialised tensor - not a partition obligation' % (q, label))
                continue
            defect = masks.partition_defect(g.masks())
            mp.inst({'function': f.fq, 'group': label, 'kind': g.kind, 'branches': len(g.members), 'partition': defect is None},
                    (f.fq, label, g.kind, gi))
            node = g.members[0][3] if g.members[0][3] is not None else None
            if defect is not None:
                mp.add(Finding(rid_mp, f, 'mask group `%s` (%d branches) is not a partition: %s' % (label, len(g.members), defect),
                               node=node, construct='%s group %s/%d' % (g.kind, g.target or 'sum', len(g.members))))
            defects = masks.gd_defects(g, guards) if g.kind != 'where' else []
            gd.inst({'function': f.fq, 'group': label, 'guards': len(guards), 'gather_defects': len(defects)}, (f.fq, label, gi))
            seen = set()
            for mi, msg, root in defects:
                key = (mi, msg)
                if key in seen:
                    continue
                seen.add(key)
                st = g.members[mi][3]
                gd.add(Finding(rid_gd, f, 'branch %d of mask group `%s`: %s' % (mi, label, msg), node=st,
                               construct='%s[%d] %s' % (label, mi, msg[:80])))
        # context-propagating pass over the returned value(s): guarded divisions and vanishing branch factors
        for ret in returns_of(f.node):
            if ret.value is None:
                continue
            v = inline_straight(f.node, upto=ret).value(ret.value)
            g2 = dict(guards)
            g2.update(masks.guard_atoms([v]))
            cds = masks.context_defects(v, g2)
            gd.inst({'function': f.fq, 'returned_value_walk': True, 'guards': len(g2), 'defects': len(cds)}, (f.fq, 'ctx', ret.lineno))
            for kind, node, msg, root, ctx in cds:
                exc = None
                for (eq, frag), (reason, other_frag) in exceptions.items():
                    if eq == q and root is not None and frag in root and kind == 'div':
                        og = [gf for rt, gf in g2.items() if other_frag in rt]
                        if og and ctx is not None and masks.implies(ctx, ('not', og[0])):
                            exc = reason
                if exc is not None:
                    gd.notes.append('%s: exception (%s): %s' % (q, exc, msg))
                    continue
                gd.add(Finding(rid_gd, f, msg, construct='%s %s' % (kind, msg[:100])))
    return [mp, gd]


@guarded
def rule_layout(repo, rid, entries, floor):
    """entries: list of (class name, [param layout names], result layout name or ('g', n))"""
    res = RuleResult(rid, 'layout typing of the forward bodies against the component layout table extracted from the LieType '
                     'constructors and accessors: slices fall on component boundaries, helpers receive the slot they are declared '
                     'for, the result is the concatenation of components in layout order', floor=floor)
    table = layout.extract_table(repo)
    sigs = layout.signatures(table)
    res.notes.append('layout table: ' + '; '.join('%s=%s' % (k, v['slots']) for k, v in table.items()))
    for cname, plays, want in entries:
        pl = [layout.Vec(layout.atoms_of(table, p)) if isinstance(p, str) else layout.Vec([p] if isinstance(p, tuple) else list(p)) for p in plays]
        wv = layout.Vec(layout.atoms_of(table, want)) if isinstance(want, str) else layout.Vec(list(want))
        f, ty, out, mm, rnode = layout.type_forward(repo, table, sigs, cname, pl, wv)
        res.inst({'function': f.fq, 'params': [repr(x) for x in pl], 'returns': repr(out), 'expected': repr(wv),
                  'helper_calls_checked': ty.calls_checked, 'untyped': ty.unknown}, f.fq)
        res.unresolved += ty.unknown
        seen = set()
        for node, msg in ty.problems:
            if msg in seen:
                continue
            seen.add(msg)
            res.add(Finding(rid, f, msg, construct=re.sub(r'\s+', ' ', msg)[:160]))
        if mm:
            res.add(Finding(rid, f, 'returned value %s' % mm, node=rnode, construct='return ' + mm[:120]))
    return res


CTORS = {'torch.zeros', 'torch.ones', 'torch.eye', 'torch.tensor', 'torch.empty', 'torch.full', 'torch.arange', 'torch.rand', 'torch.randn',
         'torch.linspace'}


@guarded
def rule_dtype(repo, rid, targets, floor):
    """every tensor constructed in the target functions takes dtype and device from an input tensor"""
    res = RuleResult(rid, 'every tensor constructed in these functions takes both dtype and device from an input tensor (or is a *_like): the '
                     'accuracy promised for float64 is not silently reduced to the float32 default', floor=floor)
    for mod, q in targets:
        f = repo.func(mod, q)
        n_sites = 0
        for n in ast.walk(f.node):
            if isinstance(n, ast.Call) and dotted(n.func) in CTORS:
                n_sites += 1
                kws = {k.arg for k in n.keywords}
                if not ({'dtype', 'device'} <= kws) and not any(k.arg is None for k in n.keywords):
                    missing = [k for k in ('dtype', 'device') if k not in kws]
                    res.add(Finding(rid, f, 'tensor constructor `%s` does not take its %s from an input tensor' % (src(n)[:60], ' and '.join(missing)), node=n))
        res.inst({'function': f.fq, 'constructor_sites': n_sites}, f.fq)
    return res


def type_method(repo, cname, mname):
    return repo.func(LT, '%sType.%s' % (cname, mname))


def returned_calls(f):
    """inlined values of all return statements of a (possibly branching) method"""
    out = []
    for r in returns_of(f.node):
        if r.value is None:
            continue
        out.append((r, inline_straight(f.node, upto=r).value(r.value)))
    return out


def lietensor_ctor(e):
    """(data expr, ltype name) if e is LieTensor(data, ltype=NAME) else None"""
    if isinstance(e, ast.Call) and dotted(e.func) == 'LieTensor' and e.args:
        lt = [k.value for k in e.keywords if k.arg == 'ltype']
        if lt:
            return e.args[0], dotted(lt[0])
    return None


@guarded
def rule_dispatch(repo, rid, method, families, op_of, ltype_of, floor, wrapper=None):
    """Type.method returns LieTensor(<op>.apply(...), ltype=<expected>) on its main path.
    families: list of type-class prefixes (e.g. 'so3'); op_of/ltype_of: prefix -> expected names."""
    res = RuleResult(rid, '%s dispatch: each type applies its own family\'s autograd op and attaches the documented ltype' % method, floor=floor)
    for fam in families:
        f = type_method(repo, fam, method)
        ok_op = ok_lt = False
        seen = []
        for r, v in returned_calls(f):
            c = lietensor_ctor(v)
            if c is None:
                continue
            data, ltn = c
            ops = [dotted(n.func) for n in ast.walk(data) if isinstance(n, ast.Call) and (dotted(n.func) or '').endswith('.apply')]
            seen.append((ops, ltn))
            if op_of(fam) + '.apply' in ops:
                ok_op = True
                ok_lt = (ltn == ltype_of(fam))
                if [o for o in ops if o != op_of(fam) + '.apply' and not o.startswith('$')]:
                    ok_op = False
        res.inst({'function': f.fq, 'op': op_of(fam), 'ltype': ltype_of(fam), 'found': seen[:3]}, f.fq)
        if not ok_op:
            res.add(Finding(rid, f, '%sType.%s does not apply %s (found %s)' % (fam, method, op_of(fam), seen[:3]), construct='op'))
        elif not ok_lt:
            res.add(Finding(rid, f, '%sType.%s attaches ltype %s, documented %s' % (fam, method, [s[1] for s in seen], ltype_of(fam)), construct='ltype'))
    if wrapper is not None:
        w = repo.func(UT, wrapper)
        rets = returns_of(w.node)
        v0 = rv(w.node, rets[0]) if len(rets) == 1 else None
        ok = isinstance(v0, ast.Call) and isinstance(v0.func, ast.Attribute) \
            and v0.func.attr == method and isinstance(v0.func.value, ast.Name) \
            and v0.func.value.id == w.pos_params[0]
        res.inst({'function': w.fq, 'forwards_to': '.%s()' % method, 'ok': ok}, w.fq)
        if not ok:
            res.add(Finding(rid, w, 'pp.%s must forward to the .%s() method of its first argument' % (wrapper, method), construct='wrapper'))
        lt = repo.func(LT, 'LieTensor.' + method)
        rets = returns_of(lt.node)
        v0 = rv(lt.node, rets[0]) if len(rets) == 1 else None
        ok = isinstance(v0, ast.Call) and dotted(v0.func) == 'self.ltype.' + method \
            and v0.args and dotted(v0.args[0]) == 'self'
        res.inst({'function': lt.fq, 'forwards_to': 'self.ltype.%s(self, ..)' % method, 'ok': ok}, lt.fq)
        if not ok:
            res.add(Finding(rid, lt, 'LieTensor.%s must dispatch to self.ltype.%s(self, ...)' % (method, method), construct='dispatch'))
    return res


# ---------------------------------------------------------------- sibling normalisation

FAM_RE = re.compile(r'\b(SO3|SE3|RxSO3|Sim3)_')
ALG_RE = re.compile(r'\b(so3|se3|rxso3|sim3)_')


class _Ren(ast.NodeTransformer):
    def __init__(self, fn):
        self.fn = fn

    def visit_Name(self, n):
        return ast.copy_location(ast.Name(self.fn(n.id), n.ctx), n)

    def visit_Attribute(self, n):
        self.generic_visit(n)
        return n


class _SlotSlices(ast.NodeTransformer):
    """x[..., lo:hi] on a parameter with a known slot layout -> symbolic slot reference $slots(x, 'role+role')"""

    def __init__(self, layouts, slotmap):
        self.layouts, self.slotmap = layouts, slotmap      # param name -> [(role, lo, hi)] ; role tuple -> role tuple

    def visit_Subscript(self, n):
        self.generic_visit(n)
        if isinstance(n.value, ast.Name) and n.value.id in self.layouts and isinstance(n.slice, ast.Tuple) and len(n.slice.elts) == 2 \
                and isinstance(n.slice.elts[0], ast.Constant) and n.slice.elts[0].value is Ellipsis and isinstance(n.slice.elts[1], ast.Slice):
            slots = self.layouts[n.value.id]
            size = slots[-1][2]
            sl = n.slice.elts[1]
            lo = layout._const(sl.lower, 0)
            hi = layout._const(sl.upper, size)
            if lo is not None and hi is not None and sl.step is None:
                lo = lo + size if lo < 0 else lo
                hi = hi + size if hi < 0 else min(hi, size)
                roles = tuple(r for r, a, b in slots if lo <= a and b <= hi)
                if roles and sum(b - a for r, a, b in slots if r in roles) == hi - lo:
                    roles = self.slotmap.get(roles, roles)
                    return ast.Call(ast.Name('$slots', ast.Load()), [n.value, ast.Constant('+'.join(roles))], [])
        return n


def normalised_return(f, mapping, alpha=True, layouts=None, slotmap=None):
    """dump of the inlined single return value with names rewritten by `mapping`, parameters alpha-renamed and
    last-dimension slices of laid-out parameters replaced by slot references"""
    rets = returns_of(f.node)
    if len(rets) != 1 or rets[0].value is None:
        return None
    v = inline_straight(f.node, upto=rets[0]).value(rets[0].value)
    pp = f.pos_params
    if layouts:
        v = _SlotSlices({pp[i]: sl for i, sl in layouts.items() if i < len(pp)}, slotmap or {}).visit(copy.deepcopy(v))
    pm = {p: '$p%d' % i for i, p in enumerate(pp)} if alpha else {}
    v = _Ren(lambda s: pm.get(s, mapping(s))).visit(copy.deepcopy(v))
    return dump(v)
