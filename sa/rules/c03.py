"""C03 - group laws: layout typing of Mul/Inv/Act/Act4, accessor / matrix-helper agreement, identity literals,
SE3<->Sim3 and SO3<->RxSO3 forward isomorphism, result ltypes."""
from .lie_common import *   # noqa
from ..expr import rv
from ..layout import Typer, Vec, Mat, extract_table, signatures, atoms_of

R3 = ('g', 3)
R4 = [('g', 3), ('g', 1)]


def lt_entries():
    out = []
    for G in GROUPS:
        out.append((G + '_Mul', [G, G], G))
        out.append((G + '_Inv', [G], G))
        out.append((G + '_Act', [G, R3], [R3]))
        out.append((G + '_Act4', [G, R4], R4))
    return out


@guarded
def rule_acc(repo):
    res = RuleResult('C03.ACC', 'matrix helpers place the translation slot in [:3, 3] and build the rotation(-scale) block from the '
                     'quaternion(,scale) slot; all helper arguments are typed against the accessor-derived layout', floor=8)
    table = extract_table(repo)
    sigs = signatures(table)
    helpers = [('SO3_Matrix', 'SO3'), ('SO3_Matrix4x4', 'SO3'), ('SE3_Matrix', 'SE3'), ('SE3_Matrix4x4', 'SE3'),
               ('RxSO3_Matrix', 'RxSO3'), ('RxSO3_Rotation', 'RxSO3'), ('RxSO3_Matrix4x4', 'RxSO3'), ('Sim3_Matrix', 'Sim3'),
               ('Sim3_Matrix4x4', 'Sim3'), ('SO3_Adj', 'SO3'), ('SE3_Adj', 'SE3'), ('RxSO3_Adj', 'RxSO3'), ('Sim3_Adj', 'Sim3')]
    for h, G in helpers:
        f = repo.func(OP, h)
        pp = f.pos_params
        env = {pp[0]: Vec(atoms_of(table, G))}
        inl = inline_straight(f.node)
        ty = Typer(table, sigs, env)
        rets = returns_of(f.node)
        for r in rets:
            ty.t(inline_straight(f.node, upto=r).value(r.value))
        has_t = any(s[0] == 't' for s in table[G]['slots'])
        t_ok = None
        rot_ok = None
        for bk, idx, val, st in inl.stores:
            tv = ty.t(val)
            pat = _block(idx)
            if pat == ('0:3', '3') or pat == (':3', '3'):
                t_ok = isinstance(tv, Vec) and [a[0] for a in tv.atoms] == ['t']
                if not t_ok:
                    res.add(Finding('C03.ACC', f, '%s writes %s into the translation column [:3, 3]; the translation slot of %s is required'
                                    % (h, tv, G), node=st))
            if pat in ((':3', ':3'), ('0:3', '0:3')):
                rot_ok = isinstance(tv, Mat) and (tv.r, tv.c) == (3, 3)
                if not rot_ok:
                    res.add(Finding('C03.ACC', f, '%s writes %s into the rotation block [:3, :3]' % (h, tv), node=st))
        if has_t and h.endswith(('Matrix', 'Matrix4x4')):
            # cat-built variant (SE3_Matrix): the column concatenated to the rotation block must be the translation slot
            if t_ok is None:
                v = inline_straight(f.node, upto=rets[0]).value(rets[0].value) if rets else None
                cols = [n for n in ast.walk(v) if isinstance(n, ast.Subscript) and isinstance(n.slice, ast.Tuple) and len(n.slice.elts) == 3
                        and isinstance(n.slice.elts[2], ast.Constant) and n.slice.elts[2].value is None] if v is not None else []
                if cols:
                    tv = ty.t(ast.Subscript(cols[0].value, ast.Tuple(cols[0].slice.elts[:2], ast.Load()), ast.Load()))
                    t_ok = isinstance(tv, Vec) and [a[0] for a in tv.atoms] == ['t']
                    if not t_ok:
                        res.add(Finding('C03.ACC', f, '%s concatenates %s as translation column; the translation slot of %s is required'
                                        % (h, tv, G), node=cols[0]))
                else:
                    # delegating helper (X_Matrix4x4 -> X_Matrix)
                    t_ok = 'delegates'
        res.inst({'function': f.fq, 'group': G, 'translation_column': t_ok, 'rotation_block': rot_ok,
                  'helper_calls_checked': ty.calls_checked}, f.fq)
        seen = set()
        for node, msg in ty.problems:
            if msg not in seen:
                seen.add(msg)
                res.add(Finding('C03.ACC', f, msg, construct=msg[:160]))
    # accessor classes: algebra accessors go through Exp()
    for G in GROUPS:
        for acc in ('rotation', 'translation', 'scale'):
            ci = repo.cls(LT, ALG[G] + 'Type')
            if acc in ci.methods:
                f = ci.methods[acc]
                rets = returns_of(f.node)
                ok = len(rets) == 1 and src(rv(f.node, rets[0])).replace(' ', '') == 'input.Exp().%s()' % acc
                res.inst({'function': f.fq, 'delegates_through_Exp': ok}, f.fq)
                if not ok:
                    res.add(Finding('C03.ACC', f, 'algebra accessor %s must be the accessor of Exp(input)' % acc, construct='alg accessor'))
    return res


def _block(idx):
    if isinstance(idx, ast.Tuple) and len(idx.elts) == 3 and isinstance(idx.elts[0], ast.Constant) and idx.elts[0].value is Ellipsis:
        return tuple(src(x).replace(' ', '') for x in idx.elts[1:])
    return None


MAYCOPY = {'reshape', 'contiguous', 'clone', 'flatten', 'to', 'float', 'double', 'type', 'cpu', 'cuda', 'repeat', 'expand_as_copy', 'index_select', 'masked_select'}


def _maycopy_writes(m):
    """sources of in-place writes (x.op_(..), x[..] = ..) whose destination reaches the tensor parameter only through a possibly-copying method"""
    me = m.pos_params[1] if len(m.pos_params) > 1 else None
    defs = {}
    for n in ast.walk(m.node):
        if isinstance(n, ast.Assign) and len(n.targets) == 1 and isinstance(n.targets[0], ast.Name):
            defs[n.targets[0].id] = n.value
    out = []

    def chain_has_copy(e, depth=0):
        while depth < 8:
            depth += 1
            if isinstance(e, ast.Call) and isinstance(e.func, ast.Attribute):
                if e.func.attr in MAYCOPY:
                    return src(e)[:40]
                e = e.func.value
            elif isinstance(e, (ast.Attribute, ast.Subscript)):
                e = e.value
            elif isinstance(e, ast.Name) and e.id in defs and e.id != me:
                e = defs[e.id]
            else:
                return None
        return None
    for n in ast.walk(m.node):
        dest = None
        if isinstance(n, ast.Call) and isinstance(n.func, ast.Attribute) and n.func.attr.endswith('_') and not n.func.attr.startswith('_'):
            dest = n.func.value
        elif isinstance(n, (ast.Assign, ast.AugAssign)):
            tg = n.targets if isinstance(n, ast.Assign) else [n.target]
            for t in tg:
                if isinstance(t, ast.Subscript):
                    dest = t.value
        if dest is not None:
            c = chain_has_copy(dest)
            if c:
                out.append(c)
    return out


def _identity_pattern(m, dim, on_manifold):
    """what an identity_ implementation leaves in a tensor of last dimension `dim`: 'identity()' (copy of cls.identity(...)), a list of floats, or None"""
    me = m.pos_params[1] if len(m.pos_params) > 1 else None
    pat = None

    def run(body):
        nonlocal pat
        for st in body:
            if isinstance(st, ast.If):
                t = st.test
                neg = False
                while isinstance(t, ast.UnaryOp) and isinstance(t.op, ast.Not):
                    neg, t = not neg, t.operand
                if isinstance(t, ast.Attribute) and t.attr == 'on_manifold':
                    v = on_manifold != neg
                    if run(st.body if v else st.orelse) == 'ret':
                        return 'ret'
                    continue
                return 'unknown'
            calls = [c for c in paths.calls_in(st) if isinstance(c.func, ast.Attribute)]
            for c in calls:
                recv = c.func.value
                if not (isinstance(recv, ast.Name) and recv.id == me):
                    continue
                if c.func.attr in ('fill_', 'zero_'):
                    v = 0.0 if c.func.attr == 'zero_' else (float(ast.literal_eval(c.args[0])) if c.args and isinstance(c.args[0], ast.Constant) else None)
                    if v is None:
                        return 'unknown'
                    pat = [v] * dim
                elif c.func.attr == 'copy_' and c.args and isinstance(c.args[0], ast.Call) and (dotted(c.args[0].func) or '') in ('cls.identity', 'self.identity'):
                    pat = 'identity()'
                elif c.func.attr == 'index_fill_':
                    kw = {k.arg: k.value for k in c.keywords}
                    args = list(c.args)
                    d_, i_, v_ = kw.get('dim', args[0] if args else None), kw.get('index', args[1] if len(args) > 1 else None), kw.get('value', args[2] if len(args) > 2 else None)
                    try:
                        dv = ast.literal_eval(d_)
                        vv = float(ast.literal_eval(v_))
                        il = [x for x in ast.walk(i_) if isinstance(x, ast.List)]
                        idx = ast.literal_eval(il[0]) if il else None
                    except (ValueError, SyntaxError, TypeError):
                        return 'unknown'
                    if dv != -1 or idx is None or not isinstance(pat, list):
                        return 'unknown'
                    for k in idx:
                        pat[k] = vv
            if isinstance(st, ast.Return):
                return 'ret'
        return None
    r = run(m.node.body)
    return None if r == 'unknown' else pat


@guarded
def rule_id(repo):
    res = RuleResult('C03.ID', 'identity constructors: the literal has zeros on translation / quaternion-vector slots and ones on the '
                     'quaternion-w and scale slots; algebra identity is Log of the group identity; identity_ zeroes then sets w', floor=9)
    table = extract_table(repo)
    for G in GROUPS:
        f = repo.func(LT, G + 'Type.identity')
        lits = [n for n in ast.walk(f.node) if isinstance(n, ast.Call) and dotted(n.func) == 'torch.tensor' and n.args and isinstance(n.args[0], ast.List)]
        want = []
        for role, n in atoms_of(table, G):
            want += [1.0 if role in ('w', 's') else 0.0] * n
        got = None
        if lits:
            try:
                got = [float(ast.literal_eval(x)) for x in lits[0].args[0].elts]
            except Exception:
                got = None
        rets = returns_of(f.node)
        ltn = None
        for r in rets:
            c = lietensor_ctor(inline_straight(f.node, upto=r).value(r.value))
            if c:
                ltn = c[1]
        res.inst({'function': f.fq, 'literal': got, 'expected': want, 'ltype': ltn}, f.fq)
        if got != want:
            res.add(Finding('C03.ID', f, '%s identity literal is %s, the layout %s requires %s' % (G, got, atoms_of(table, G), want),
                            construct='identity literal'))
        if ltn != G + '_type':
            res.add(Finding('C03.ID', f, '%s identity carries ltype %s' % (G, ltn), construct='identity ltype'))
        # algebra twin
        a = ALG[G]
        fa = repo.func(LT, a + 'Type.identity')
        rets = returns_of(fa.node)
        ok = len(rets) == 1 and src(rv(fa.node, rets[0])).replace(' ', '') == '%s_type.Log(%s_type.identity(*size,**kwargs))' % (G, G)
        res.inst({'function': fa.fq, 'log_of_group_identity': ok}, fa.fq)
        if not ok:
            res.add(Finding('C03.ID', fa, '%s identity must be Log of the %s identity' % (a, G), construct='algebra identity'))
    # identity_ : for every concrete type the implementation found along the MRO writes exactly the identity pattern of THAT type
    dims = {G: sum(n for _, n in atoms_of(table, G)) for G in GROUPS}
    for T in list(GROUPS) + [ALG[G] for G in GROUPS]:
        ci = repo.cls(LT, T + 'Type')
        m = repo.find_method(ci, 'identity_')
        if m is None:
            continue                         # reported by the exhaustiveness clause below
        is_group = T in GROUPS
        if is_group:
            want = []
            for role, n in atoms_of(table, T):
                want += [1.0 if role in ('w', 's') else 0.0] * n
        else:
            G = [g for g in GROUPS if ALG[g] == T][0]
            want = [0.0] * {'SO3': 3, 'SE3': 6, 'RxSO3': 4, 'Sim3': 7}[G]
        pat = _identity_pattern(m, len(want), on_manifold=not is_group)
        res.inst({'class': ci.fq, 'identity_ resolves to': m.fq, 'writes': pat if pat != 'identity()' else 'a copy of cls.identity()', 'expected': want}, (ci.fq, 'identity_pattern'))
        if pat is None:
            if len(m.node.body) and isinstance(m.node.body[-1], ast.Raise):
                continue
            # not one of the two readable forms: at least every in-place write must land in X itself - a write through reshape / contiguous / clone / to
            # (which return a COPY for some layouts) leaves X unchanged
            maycopy = _maycopy_writes(m)
            if maycopy:
                res.add(Finding('C03.ID', m, 'identity_ of %s (%s) writes through `%s`, which is a copy of X for layouts whose batch dimensions cannot be merged (expanded / '
                                'transposed / sliced tensors): X is silently left unchanged' % (T, m.fq, maycopy[0]), construct='identity_ writes into a possible copy|' + T))
                continue
            raise AnalysisError('C03.ID: cannot read what %s writes' % m.fq)
        if pat != 'identity()' and pat != want:
            res.add(Finding('C03.ID', m, 'identity_ of %s resolves to %s, which writes %s; the identity of this type is %s (layout %s): the element left behind is '
                            'not the neutral element' % (T, m.fq, pat, want, atoms_of(table, T) if is_group else 'zero vector'), construct='identity_ pattern|' + T))
    # the constructors document lsize as "a variable number of arguments or a collection like a list or tuple": the *size they receive is
    # normalised by to_tuple before it is used as a shape (randn does it; identity must too, or identity_SE3((2, 3)) raises in repeat())
    for G in GROUPS:
        f = repo.func(LT, G + 'Type.identity')
        va = f.node.args.vararg.arg if f.node.args.vararg else None
        if va is None:
            continue
        raw = []
        for n in ast.walk(f.node):
            if isinstance(n, ast.BinOp) and isinstance(n.op, ast.Add) and any(isinstance(x, ast.Name) and x.id == va for x in (n.left, n.right)):
                raw.append(n)
        norm = any(isinstance(c, ast.Call) and (dotted(c.func) or '').split('.')[-1] == 'to_tuple' and c.args and isinstance(c.args[0], ast.Name) and c.args[0].id == va
                   for c in ast.walk(f.node))
        rebound = any(isinstance(a, ast.Assign) and any(isinstance(t, ast.Name) and t.id == va for t in a.targets) and
                      any(isinstance(c, ast.Call) and (dotted(c.func) or '').split('.')[-1] == 'to_tuple' for c in ast.walk(a.value)) for a in ast.walk(f.node))
        ok = not raw or rebound or (norm and not any(isinstance(x, ast.Name) and x.id == va for r_ in raw for x in (r_.left, r_.right)))
        res.inst({'function': f.fq, 'size used as a shape': [src(r_)[:30] for r_ in raw], 'normalised by to_tuple': ok}, (f.fq, 'size'))
        if not ok:
            res.add(Finding('C03.ID', f, '%sType.identity uses `*%s` as a shape (`%s`) without to_tuple: identity_%s((2, 3)) / identity_%s([2, 3]) - the documented '
                            'collection form - raises TypeError in repeat(), while randn_%s accepts it' % (G, va, src(raw[0])[:30], G, G, G), node=raw[0],
                            construct='size not normalised|' + G))
    # the in-place identity is documented for every LieTensor ("the translation part, if there is, is set to zeros"): each group type
    # resolves identity_ along its MRO to an implementation that does something other than raise
    for G in GROUPS:
        ci = repo.cls(LT, G + 'Type')
        m = repo.find_method(ci, 'identity_')
        works = m is not None and not (len([st for st in m.node.body if not (isinstance(st, ast.Expr) and isinstance(st.value, ast.Constant))]) == 1
                                       and isinstance(m.node.body[-1], ast.Raise))
        res.inst({'class': ci.fq, 'identity_ resolves to': m.fq if m else None, 'implemented': works}, (ci.fq, 'identity_'))
        if not works:
            res.add(Finding('C03.ID', m if m is not None else (ci.module.relpath, ci.node.lineno, ci.fq),
                            '%s.identity_ resolves to %s, which only raises: X.identity_() of a %s element raises NotImplementedError although the in-place '
                            'identity is documented for elements with a translation part as well' % (G + 'Type', m.fq if m else 'nothing', G),
                            construct='identity_ missing|' + G))
    return res


@guarded
def rule_wrap(repo):
    """The functional spellings pp.Mul / Act / Inv / Retr / Adj / AdjT / Jinvp / Exp / Log / matrix ... are the methods of their FIRST argument with the
    remaining arguments in declared order (`def Mul(x, y): return x @ y`).  A product is not commutative: a wrapper that hands its operands on in
    another order, or dispatches on a later argument, returns Y @ X under the name Mul(X, Y) while X @ Y itself stays right."""
    res = RuleResult('C03.WRAP', 'every functional alias in pypose.lietensor.utils / basics forwards to its first argument (method of the same name or the '
                     'operator) with the other arguments in declared order, on every return path', floor=8)
    OPER = {'Mul': (ast.MatMult, ast.Mult), 'mul': (ast.Mult, ast.MatMult), 'matmul': (ast.MatMult,), 'add': (ast.Add,)}
    for modname in ('pypose.lietensor.utils', 'pypose.lietensor.basics'):
        for f in repo.module(modname).functions.values():
            if f.cls is not None or f.name.startswith('_'):
                continue
            pp_ = f.pos_params
            if not pp_:
                continue
            rets = returns_of(f.node)
            verdicts = []
            for r in rets:
                v = rv(f.node, r)
                ok = None
                why = ''
                if isinstance(v, ast.BinOp) and isinstance(v.op, OPER.get(f.name, ())):
                    ok = len(pp_) >= 2 and dotted(v.left) == pp_[0] and dotted(v.right) == pp_[1]
                    why = 'operands `%s`, `%s`' % (src(v.left), src(v.right))
                elif isinstance(v, ast.Call) and isinstance(v.func, ast.Attribute) and v.func.attr in (f.name, f.name.rstrip('_') + '_', f.name.lower()):
                    recv = v.func.value
                    args = [dotted(a) for a in v.args] + [dotted(k.value) for k in v.keywords]
                    if dotted(recv) == pp_[0]:
                        want = [p for p in pp_[1:] if p in args]
                        ok = [a for a in args if a in pp_[1:]] == want
                        why = 'receiver `%s`, arguments %s' % (src(recv), args)
                    elif (dotted(recv) or '').endswith('.ltype'):
                        # type-level call T.Op(X, ...): the operands follow in declared order and the type is the first operand's
                        got = [a for a in args if a in pp_]
                        ok = dotted(recv) == pp_[0] + '.ltype' and got == [p for p in pp_ if p in got]
                        why = 'type-level call on `%s` with %s' % (src(recv), args)
                    else:
                        ok = False
                        why = 'receiver `%s` is not the first argument `%s`' % (src(recv), pp_[0])
                if ok is None:
                    continue
                verdicts.append((r, ok, why))
            if not verdicts:
                continue
            res.inst({'function': f.fq, 'forwards': [w for _, _, w in verdicts], 'in order': all(o for _, o, _ in verdicts)}, f.fq)
            for r, ok, why in verdicts:
                if not ok:
                    res.add(Finding('C03.WRAP', f, 'pp.%s%s forwards as %s: the operands reach the operation in another order / on another receiver than '
                                    'declared, so pp.%s(X, Y) is not X.%s(Y)' % (f.name, tuple(pp_), why, f.name, f.name), node=r))
    return res


@guarded
def rule_sb(repo):
    res = RuleResult('C03.SB', 'forward isomorphism: Sim3 {Mul, Inv, Act, Act4} equal SE3\'s under SO3_ -> RxSO3_, and RxSO3_Act4 equals '
                     'SO3_Act4 under the same renaming (inlined return expressions compared after alpha-renaming)', floor=5)
    pairs = [('SE3_' + o, 'Sim3_' + o) for o in ('Mul', 'Inv', 'Act', 'Act4')] + [('SO3_Act4', 'RxSO3_Act4')]
    table = extract_table(repo)
    vec3 = [('r', 0, 3)]
    vec4 = [('r', 0, 3), ('h', 3, 4)]
    for a, b in pairs:
        fa, fb = repo.func(OP, a + '.forward'), repo.func(OP, b + '.forward')
        Ga, Gb, op = a.split('_')[0], b.split('_')[0], a.split('_')[1]
        second = {'Mul': None, 'Inv': None, 'Act': vec3, 'Act4': vec4}[op]
        la = {0: table[Ga]['slots']}
        lb = {0: table[Gb]['slots']}
        if op == 'Mul':
            la[1], lb[1] = table[Ga]['slots'], table[Gb]['slots']
        elif second:
            la[1] = lb[1] = second
        na = normalised_return(fa, lambda s: re.sub(r'^SO3_', 'RxSO3_', s), layouts=la, slotmap={('q',): ('q', 's')})
        nb = normalised_return(fb, lambda s: s, layouts=lb)
        res.inst({'pair': (a, b), 'isomorphic': na == nb}, (a, b))
        if na is None or nb is None:
            raise AnalysisError('C03.SB: %s/%s forward lost its single return' % (a, b))
        if na != nb:
            res.add(Finding('C03.SB', fb, '%s.forward is not %s.forward with SO3_ replaced by RxSO3_: the two siblings compute '
                            'structurally different expressions' % (b, a), construct='%s~%s' % (a, b)))
    return res


@guarded
def rule_dt(repo):
    res = RuleResult('C03.DT', 'Mul (LieTensor operand) and Inv return the group\'s own ltype through the family\'s own op; Act returns '
                     'a plain tensor computed by the family\'s Act/Act4', floor=12)
    for G in GROUPS:
        f = type_method(repo, G, 'Inv')
        found = [(lietensor_ctor(v), v) for r, v in returned_calls(f)]
        ok = any(c and c[1] == G + '_type' and any(dotted(n.func) == G + '_Inv.apply' for n in ast.walk(c[0]) if isinstance(n, ast.Call))
                 for c, v in found)
        res.inst({'function': f.fq, 'ok': ok}, f.fq)
        if not ok:
            res.add(Finding('C03.DT', f, '%sType.Inv must return LieTensor(%s_Inv.apply(X), ltype=%s_type)' % (G, G, G), construct='Inv'))
        f = type_method(repo, G, 'Mul')
        found = [lietensor_ctor(v) for r, v in returned_calls(f)]
        mul = [c for c in found if c and any(dotted(n.func) == G + '_Mul.apply' for n in ast.walk(c[0]) if isinstance(n, ast.Call))]
        ok = bool(mul) and all(c[1] == G + '_type' for c in mul)
        wrong = [c for c in found if c and any((dotted(n.func) or '').endswith('_Mul.apply') and dotted(n.func) != G + '_Mul.apply'
                                                 for n in ast.walk(c[0]) if isinstance(n, ast.Call))]
        res.inst({'function': f.fq, 'ok': ok and not wrong}, f.fq)
        if not ok or wrong:
            res.add(Finding('C03.DT', f, '%sType.Mul must return LieTensor(%s_Mul.apply(...), ltype=%s_type)' % (G, G, G), construct='Mul'))
        f = type_method(repo, G, 'Act')
        ops = {dotted(c.func) for c in paths.calls_in(f.node) if (dotted(c.func) or '').endswith('.apply')}
        wraps = any(lietensor_ctor(v) for r, v in returned_calls(f))
        ok = ops == {G + '_Act.apply', G + '_Act4.apply'} and not wraps
        res.inst({'function': f.fq, 'ops': sorted(ops), 'ok': ok}, f.fq)
        if not ok:
            res.add(Finding('C03.DT', f, '%sType.Act must apply %s_Act / %s_Act4 and return a plain tensor (found %s)' % (G, G, G, sorted(ops)),
                            construct='Act'))
    return res


# torch.Tensor defines these in-place operator methods (element-wise on the raw coordinates); it defines no __imatmul__, so `X @= Y` falls back to
# X = X @ Y by itself
TENSOR_INPLACE_DUNDERS = {'__add__': '__iadd__', '__sub__': '__isub__', '__mul__': '__imul__', '__truediv__': '__itruediv__', '__pow__': '__ipow__'}


@guarded
def rule_iop(repo):
    """An operator that LieTensor redefines with Lie semantics (X * Y: group product, X + a: retraction) has an augmented twin (X *= Y, X += a).
    Python resolves the augmented form to the in-place dunder FIRST; torch.Tensor defines __imul__ / __iadd__ as the element-wise in-place
    operation on the raw coordinates.  Unless LieTensor overrides the in-place dunder too, a history that updates an element with `X *= Y`
    multiplies quaternion components pairwise: the result is not X * Y and not a group element."""
    res = RuleResult('C03.IOP', 'every arithmetic operator LieTensor overrides with Lie semantics has its augmented twin overridden as well, delegating to '
                     'the same Lie operation (or its in-place variant): `X *= Y` / `X += a` never fall through to torch\'s element-wise in-place operation', floor=2)
    ci = repo.cls(LT, 'LieTensor')
    # an augmented dunder that torch.Tensor does NOT define (`@=`: Python falls back to `Z = Z @ Y`, a re-binding) must not appear on LieTensor: defining it turns
    # every existing `Z @= Y` into a write through all aliases of Z (`Z = X; Z @= Y` changes X; a slice of a trajectory is rewritten), and the in-place copy
    # cannot broadcast the way the re-binding did
    for name, g in sorted(ci.methods.items()):
        if name.startswith('__i') and name.endswith('__') and name not in ('__init__', '__iter__', '__index__', '__int__', '__invert__', '__instancecheck__') and \
                name not in TENSOR_INPLACE_DUNDERS.values():
            res.inst({'class': ci.fq, 'augmented operator': name, 'defined by torch.Tensor': False}, (ci.fq, name, 'extra'))
            res.add(Finding('C03.IOP', g, 'LieTensor defines `%s`, which torch.Tensor leaves to the re-binding fallback: `Z %s= Y` used to bind Z to a NEW tensor and now '
                            'writes into the storage Z shares with whatever it was taken from (`Z = X; Z %s= Y` changes X), and raises where the result needs a larger '
                            'batch shape' % (name, {'__imatmul__': '@'}.get(name, '?'), {'__imatmul__': '@'}.get(name, '?')), construct='extra augmented operator ' + name))
    for op, iop in sorted(TENSOR_INPLACE_DUNDERS.items()):
        if op not in ci.methods:
            continue
        f = ci.methods[op]
        # what the plain operator delegates to
        own = lambda fn_: {c.func.attr for c in paths.calls_in(fn_.node) if isinstance(c.func, ast.Attribute) and dotted(c.func.value) in ('self', 'self.ltype')}
        tgt = own(f)
        g = ci.methods.get(iop)
        ok = False
        if g is not None:
            mine = own(g)
            stem = lambda z: {x.rstrip('_').lower() for x in z}
            ok = bool(stem(tgt) & stem(mine)) or op in mine
        # same operand order as the plain operator: X *= Y is X * Y (self first), never Y * X
        if ok and g is not None:
            def first_two(fn_):
                for c in paths.calls_in(fn_.node):
                    if isinstance(c.func, ast.Attribute) and dotted(c.func.value) in ('self', 'self.ltype') and len(c.args) >= 2 and c.func.attr.rstrip('_').lower() in {x.rstrip('_').lower() for x in tgt}:
                        return [dotted(a_) for a_ in c.args[:2]]
                return None
            a0, a1 = first_two(f), first_two(g)
            if a0 is not None and a1 is not None:
                me0, me1 = f.pos_params[0], g.pos_params[0]
                same = (a0[0] == me0) == (a1[0] == me1)
                res.inst({'class': ci.fq, 'operator': iop, 'operands': a1, 'same order as ' + op: same}, (ci.fq, iop, 'order'))
                if not same:
                    res.add(Finding('C03.IOP', g, '%s calls the Lie operation with the operands %s, %s calls it with %s: the augmented assignment computes the product in the '
                                    'other order (Y X instead of X Y), equal only for commuting elements' % (op, a0, iop, a1), construct='operand order of ' + iop))
        res.inst({'class': ci.fq, 'operator': op, 'delegates_to': sorted(tgt), 'in-place twin': iop, 'overridden with the same semantics': ok}, (ci.fq, op))
        if not ok:
            res.add(Finding('C03.IOP', g if g is not None else f, 'LieTensor overrides %s with Lie semantics (%s) but %s: the augmented assignment resolves to '
                            'torch.Tensor.%s, the element-wise in-place operation on the raw coordinates - the updated element is not the Lie result and '
                            'not a valid group element' % (op, ', '.join(sorted(tgt)) or '?', ('its %s does not delegate to the same operation' % iop) if g is not None
                                                           else ('defines no %s' % iop), iop), construct='augmented twin of ' + op))
    return res


def _rules_core(repo, tier):
    return [rule_layout(repo, 'C03.LT', lt_entries(), floor=16), rule_acc(repo), rule_id(repo), rule_sb(repo), rule_dt(repo), rule_nosign(repo), rule_mat(repo), rule_wrap(repo), rule_iop(repo)]


@guarded
def rule_mat(repo, rid='C03.MAT', strict=False):
    """strict=False (C03, values): matrix() is the transposed action on the identity of the representation size, OR one of the layout-checked matrix
    helpers of operation.py of the documented size (3x3 only for SO3/so3, 4x4 otherwise) - both give the same matrix.
    strict=True (C04, gradients): only the Act form: the helpers are plain torch code, autograd through them differentiates the raw quaternion /
    translation / scale coordinates instead of the left perturbation every consumer of X.grad assumes."""
    res = RuleResult(rid, ('matrix() is differentiated through Act (hand-written left-perturbation backward): the transposed action on the identity basis, '
                           'not a plain-torch matrix helper' if strict else
                           'matrix() is the action on the basis vectors (Act applied to an identity of the representation size, transposed back) or a '
                           'layout-checked matrix helper of the documented size (3 for SO3/so3, 4 otherwise); algebra types go through Exp first; '
                           'LieTensor.matrix dispatches to the type'), floor=9)
    # the method each concrete type resolves `matrix` to (along its MRO), judged for every type it serves: a base-class method shared by several types
    # (or all of them, after a merge of the overrides) is evaluated with the attributes of each of them
    dims = {}
    for G in GROUPS:
        for T in (G + 'Type', ALG[G] + 'Type'):
            ini = repo.cls(LT, T).methods.get('__init__')
            sup = [c for c in ast.walk(ini.node) if isinstance(c, ast.Call) and isinstance(c.func, ast.Attribute) and c.func.attr == '__init__' and len(c.args) == 3] if ini else []
            if len(sup) != 1 or not all(isinstance(x, ast.Constant) for x in sup[0].args):
                raise AnalysisError('%s: the (dimension, embedding, manifold) of %s were not found' % (rid, T))
            dims[T] = dict(zip(('dimension', 'embedding', 'manifold'), [x.value for x in sup[0].args]))

    class _NoEval(Exception):
        pass

    def ev(e, T, G):
        """value of a size expression / type test for the concrete type T (group G)"""
        if isinstance(e, ast.Constant):
            return e.value
        if isinstance(e, ast.IfExp):
            return ev(e.body, T, G) if ev(e.test, T, G) else ev(e.orelse, T, G)
        if isinstance(e, ast.UnaryOp) and isinstance(e.op, ast.Not):
            return not ev(e.operand, T, G)
        if isinstance(e, ast.BoolOp):
            vs = [ev(v, T, G) for v in e.values]
            return all(vs) if isinstance(e.op, ast.And) else any(vs)
        if isinstance(e, ast.Attribute) and e.attr == 'on_manifold' and dotted(e.value) in ('self', 'cls'):
            return dims[T]['dimension'] == dims[T]['manifold']
        if isinstance(e, ast.Subscript) and isinstance(e.value, ast.Attribute) and e.value.attr in ('dimension', 'embedding', 'manifold') and dotted(e.value.value) in ('self', 'cls') \
                and isinstance(e.slice, ast.Constant) and e.slice.value in (0, -1):
            return dims[T][e.value.attr]
        if isinstance(e, ast.Call) and dotted(e.func) == 'isinstance' and len(e.args) == 2 and dotted(e.args[0]) in ('self', 'cls'):
            names = [dotted(x) for x in (e.args[1].elts if isinstance(e.args[1], ast.Tuple) else [e.args[1]])]
            return T in names
        if isinstance(e, ast.Compare) and len(e.ops) == 1:
            l, r = e.left, e.comparators[0]
            if isinstance(e.ops[0], (ast.Is, ast.Eq, ast.IsNot, ast.NotEq)):
                for x, y in ((l, r), (r, l)):
                    if isinstance(x, ast.Attribute) and x.attr == 'ltype' and isinstance(y, ast.Name) and y.id.endswith('_type'):
                        # the ltype of the (Exp-ed) operand is the group type of T; of `self` the type itself
                        is_exp = any(isinstance(n, ast.Call) and isinstance(n.func, ast.Attribute) and n.func.attr == 'Exp' for n in ast.walk(x.value)) or \
                            any(isinstance(n, ast.Attribute) and n.attr == 'on_manifold' for n in ast.walk(x.value))
                        cur = (G + '_type') if (is_exp or not T[0].islower()) else (T[:-4] + '_type')
                        eq = cur == y.id
                        return eq if isinstance(e.ops[0], (ast.Is, ast.Eq)) else not eq
                    if dotted(x) in ('self', 'cls') and isinstance(y, ast.Name) and y.id.endswith('_type'):
                        eq = (T[:-4] + '_type') == y.id
                        return eq if isinstance(e.ops[0], (ast.Is, ast.Eq)) else not eq
            a_, b_ = ev(l, T, G), ev(r, T, G)
            table = {ast.Lt: lambda: a_ < b_, ast.LtE: lambda: a_ <= b_, ast.Gt: lambda: a_ > b_, ast.GtE: lambda: a_ >= b_, ast.Eq: lambda: a_ == b_, ast.NotEq: lambda: a_ != b_}
            if type(e.ops[0]) in table:
                return table[type(e.ops[0])]()
        raise _NoEval(src(e)[:50])

    judged = set()
    for G in GROUPS:
        for T, is_alg in ((G + 'Type', False), (ALG[G] + 'Type', True)):
            size = 3 if G == 'SO3' else 4
            ci = repo.cls(LT, T)
            f = __import__('sa.core', fromlist=['x']).ifexp_view(repo.find_method(ci, 'matrix'))
            if f is None:
                raise AnalysisError('%s: %s has no matrix method' % (rid, T))
            cname = f.qual.split('.')[0]
            rets = returns_of(f.node)
            vals = [rv(f.node, r) for r in rets]
            ok, why = False, 'not <X>.unsqueeze(-2).Act(I).transpose(-1, -2)'
            act_forms = 0
            for v in vals:
                if isinstance(v, ast.Call) and isinstance(v.func, ast.Attribute) and v.func.attr == 'transpose' and sorted(src(a) for a in v.args) == ['-1', '-2']:
                    act = v.func.value
                    if isinstance(act, ast.Call) and isinstance(act.func, ast.Attribute) and act.func.attr == 'Act' and len(act.args) == 1:
                        basis, recv = act.args[0], act.func.value
                        eyes = [n for n in ast.walk(basis) if isinstance(n, ast.Call) and dotted(n.func) == 'torch.eye']
                        try:
                            esz = ev(eyes[0].args[0], T, G) if eyes and eyes[0].args else None
                        except _NoEval as ex:
                            raise AnalysisError('%s: the basis size `%s` of %s.matrix could not be evaluated for %s' % (rid, ex, cname, T))
                        n_ok = esz == size
                        unsq = isinstance(recv, ast.Call) and isinstance(recv.func, ast.Attribute) and recv.func.attr == 'unsqueeze' and recv.args and src(recv.args[0]) == '-2'
                        base = recv.func.value if unsq else None
                        try:
                            # is the operand Exp-ed for this type: X = input.Exp() if self.on_manifold else input
                            def exped(b_):
                                if isinstance(b_, ast.IfExp):
                                    return exped(b_.body) if ev(b_.test, T, G) else exped(b_.orelse)
                                return any(isinstance(n, ast.Call) and isinstance(n.func, ast.Attribute) and n.func.attr == 'Exp' for n in ast.walk(b_))
                            has_exp = base is not None and exped(base)
                        except _NoEval as ex:
                            raise AnalysisError('%s: the operand `%s` of %s.matrix could not be evaluated for %s' % (rid, ex, cname, T))
                        exp_ok = has_exp == is_alg
                        # the basis is aligned by broadcasting: left as (n, n), or viewed with as many leading ones as the operand has batch axes - a FIXED number
                        # of leading axes adds an axis to an un-batched operand
                        views = [n for n in ast.walk(basis) if isinstance(n, ast.Call) and isinstance(n.func, ast.Attribute) and n.func.attr in ('view', 'reshape', 'expand')]
                        view_ok = True
                        for vw in views:
                            shape = vw.args[0] if len(vw.args) == 1 else ast.Tuple(list(vw.args), ast.Load())
                            rank_dep = any(isinstance(n, ast.Call) and isinstance(n.func, ast.Attribute) and n.func.attr in ('dim', 'ndimension') or
                                           isinstance(n, ast.Attribute) and n.attr in ('ndim', 'shape', 'lshape') for n in ast.walk(shape))
                            nelts = len(shape.elts) if isinstance(shape, (ast.Tuple, ast.List)) else None
                            if not rank_dep and nelts is not None and nelts > 2:
                                view_ok = False
                        if n_ok and unsq and exp_ok and view_ok:
                            act_forms += 1
                        elif not view_ok:
                            why = 'the identity basis is viewed with a FIXED number of leading axes: an un-batched element gets a (1, n, n) matrix'
                        else:
                            why = 'basis size %s (documented %d): %s, acts on X.unsqueeze(-2): %s, Exp handling ok: %s' % (esz, size, n_ok, unsq, exp_ok)
                elif isinstance(v, ast.Call) and isinstance(v.func, ast.Attribute) and v.func.attr == 'matrix' and is_alg and \
                        any(isinstance(n, ast.Call) and isinstance(n.func, ast.Attribute) and n.func.attr == 'Exp' for n in ast.walk(v.func.value)):
                    act_forms += 1          # algebra type: Exp first, then the group's matrix (judged on its own)
            ok = bool(vals) and act_forms == len(vals)
            if not ok and not strict:
                helper_calls = [n for v in vals if v is not None for n in ast.walk(v) if isinstance(n, ast.Call) and isinstance(n.func, ast.Name) and '_Matrix' in n.func.id]
                plain = all(v is not None and not any(isinstance(n, ast.Subscript) and not isinstance(n.value, ast.Name) for n in ast.walk(v)) for v in vals)
                if helper_calls and plain:
                    bad = [h.func.id for h in helper_calls if (h.func.id.endswith('_Matrix4x4')) != (size == 4)]
                    ok = not bad
                    why = None if ok else 'uses %s where the documented representation is %dx%d' % (bad, size, size)
            res.inst({'type': T, 'matrix method': f.fq, 'documented size': size, 'ok': ok}, (T, f.fq))
            if not ok and (f.fq, why) not in judged:
                judged.add((f.fq, why))
                res.add(Finding(rid, f, '%s.matrix (serving %s) is not the transposed action on the identity basis of the documented size (%s)' % (cname, T, why),
                                construct='matrix|' + (why or '')[:40]))
    f = repo.func(LT, 'LieTensor.matrix')
    rets = returns_of(f.node)
    v = rv(f.node, rets[0]) if len(rets) == 1 else None
    ok = isinstance(v, ast.Call) and dotted(v.func) == 'self.ltype.matrix' and [dotted(a) for a in v.args] == ['self']
    res.inst({'function': f.fq, 'dispatches': ok}, f.fq)
    if not ok:
        res.add(Finding(rid, f, 'LieTensor.matrix must dispatch to self.ltype.matrix(self)', construct='dispatch'))
    return res


@guarded
def rule_nosign(repo):
    res = RuleResult('C03.NOSIGN', 'no group operation multiplies its result by a factor that is exactly zero somewhere (torch.sign / .sign(): '
                     'sign(0) = 0 collapses the unit quaternion to zero; the library\'s pm() maps 0 to +1): results remain valid group elements', floor=16)
    for G in GROUPS:
        for op in ('Mul', 'Inv', 'Act', 'Act4'):
            f = repo.func(OP, '%s_%s.forward' % (G, op))
            rets = returns_of(f.node)
            v = inline_straight(f.node, upto=rets[0]).value(rets[0].value)
            bad = [n for n in ast.walk(v) if isinstance(n, ast.Call) and (dotted(n.func) in ('torch.sign', 'torch.sgn') or
                                                                           (isinstance(n.func, ast.Attribute) and n.func.attr in ('sign', 'sgn')
                                                                            and not (dotted(n.func) or '').startswith('torch.')))]
            res.inst({'function': f.fq, 'vanishing_sign_factors': len(bad)}, f.fq)
            for b in bad:
                res.add(Finding('C03.NOSIGN', f, '%s_%s.forward scales its result by `%s`, which is 0 when its argument is exactly 0: the '
                                'returned element degenerates (zero quaternion) for such inputs' % (G, op, src(b)[:50]), construct='sign factor ' + src(b)[:50]))
    return res


def _corner(repo, name, depth=0):
    """abstract value of the bottom row of the matrix a *_Matrix4x4 / SE3_Matrix helper returns: 'e4' (0, 0, 0, 1) | 'zero' | None (not understood)"""
    if depth > 3:
        return None
    f = repo.func(OP, name)
    rets = returns_of(f.node)
    if len(rets) != 1:
        return None
    inl = inline_straight(f.node, upto=rets[0])
    v = inl.value(rets[0].value)
    # in-place stores into the returned buffer must stay off row 3
    for bk, idx, val, st in inline_straight(f.node).stores:
        pat = _block(idx)
        if pat is None or not (pat[0] in (':3', '0:3')):
            return None
    def root(e):
        while isinstance(e, ast.Call) and isinstance(e.func, ast.Attribute) and e.func.attr in ('repeat', 'expand', 'clone', 'contiguous', 'to', 'type_as', 'expand_as') \
                and not (dotted(e.func) or '').startswith('torch.'):
            e = e.func.value
        return e
    # the inliner shows in-place block stores as $upd(base, index, value): the stores were checked above, the base decides the bottom row
    while isinstance(v, ast.Call) and isinstance(v.func, ast.Name) and v.func.id == '$upd' and v.args:
        v = v.args[0]
    r = root(v)
    if isinstance(r, ast.Call):
        d = dotted(r.func) or ''
        if d == 'torch.eye' and r.args and isinstance(r.args[0], ast.Constant) and r.args[0].value == 4:
            return 'e4'
        if d.split('.')[-1] == 'pad' and len(r.args) >= 2 and isinstance(r.args[1], (ast.Tuple, ast.List)):
            pads = [x.value if isinstance(x, ast.Constant) else None for x in r.args[1].elts]
            fill = [k.value for k in r.keywords if k.arg == 'value']
            if pads == [0, 1, 0, 1] and (not fill or (isinstance(fill[0], ast.Constant) and fill[0].value in (0, 0.0))):
                return 'zero'
            return None
        if d in ('torch.cat', 'torch.concat') and r.args and isinstance(r.args[0], (ast.List, ast.Tuple)):
            ax = [k.value for k in r.keywords if k.arg == 'dim'] or list(r.args[1:2])
            axv = ax[0] if ax else None
            if isinstance(axv, ast.UnaryOp) and isinstance(axv.op, ast.USub) and isinstance(axv.operand, ast.Constant) and axv.operand.value == 2:
                last = root(r.args[0].elts[-1])
                if isinstance(last, ast.Call) and dotted(last.func) == 'torch.tensor' and last.args and isinstance(last.args[0], (ast.List, ast.Tuple)):
                    vals = [x.value if isinstance(x, ast.Constant) else None for x in last.args[0].elts]
                    return 'e4' if vals == [0, 0, 0, 1] else ('zero' if vals == [0, 0, 0, 0] else None)
            return None
        if isinstance(r.func, ast.Name) and r.func.id in repo.module(OP).functions:
            return _corner(repo, r.func.id, depth + 1)
    return None


@guarded
def rule_homo(repo, rid='C03.HOMO'):
    """A 4x4 homogeneous matrix of a transformation has the bottom row (0, 0, 0, 1): Act on 4-vectors passes the homogeneous coordinate through, and the
    Jacobian of Act4 with respect to the point is this matrix (the backward of the four *_Act4 operations multiplies the cotangent with it).  The helpers
    start from eye(4) / append the row (0, 0, 0, 1); zero padding of the 3x3 block leaves a zero corner - invisible to every use that reads rows 0..2 only."""
    res = RuleResult(rid, 'every *_Matrix4x4 helper returns a matrix whose bottom row is (0, 0, 0, 1) (built from eye(4) or by appending that row; block stores '
                     'stay off row 3)', floor=4)
    for h in ('SO3_Matrix4x4', 'SE3_Matrix4x4', 'RxSO3_Matrix4x4', 'Sim3_Matrix4x4'):
        f = repo.func(OP, h)
        c = _corner(repo, h)
        res.inst({'function': f.fq, 'bottom row': {'e4': '(0, 0, 0, 1)', 'zero': '(0, 0, 0, 0)', None: 'not understood'}[c]}, f.fq)
        if c is None:
            raise AnalysisError('%s: the construction of %s was not understood' % (rid, h))
        if c != 'e4':
            res.add(Finding(rid, f, '%s returns a matrix with a ZERO bottom row (zero padding of the 3x3 block): the homogeneous coordinate of a 4-vector is mapped to 0 and '
                            'the point gradient of Act on 4-vectors loses d q_w / d p_w = 1' % h, construct='zero homogeneous corner'))
    return res


def rules(repo, tier):
    from ..memo import rule_memo
    from ..optional import rule_optional
    from ..mode import mode_rules
    from ..callsig import rule_callsig
    from ..docsig import rule_docsig
    from ..axisdefault import rule_axisdefault
    return list(_rules_core(repo, tier)) + __import__('sa.core', fromlist=['x']).reid([__import__('sa.rules.c05', fromlist=['x']).rule_retr_add(repo), __import__('sa.rules.c05', fromlist=['x']).rule_clone(repo)], 'C03') + [rule_homo(repo), __import__('sa.rules.c06', fromlist=['x']).rule_bcast(repo, tier, 'C03'), rule_memo(repo, 'C03.MEMO', 'history independence: nothing computed from the contents of a tensor argument is kept '
                                                      'under the identity, address or version of that tensor, in module-level storage, or published from a generator '
                                                      'before it is complete - a later call with the same object and other contents must not be answered from it',
                                                      ['pypose.lietensor.lietensor', 'pypose.lietensor.operation', 'pypose.lietensor.basics', 'pypose.lietensor.utils'], floor=3),
            rule_optional(repo, 'C03.OPT', ['pypose.lietensor.lietensor', 'pypose.lietensor.operation', 'pypose.lietensor.basics', 'pypose.lietensor.utils'])] + mode_rules(repo, 'C03', ['pypose.lietensor.lietensor', 'pypose.lietensor.operation', 'pypose.lietensor.basics', 'pypose.lietensor.utils']) + [rule_callsig(repo, 'C03.SIG', ['pypose.lietensor.lietensor', 'pypose.lietensor.operation', 'pypose.lietensor.basics', 'pypose.lietensor.utils']), rule_docsig(repo, 'C03.DOC', ['pypose.lietensor.lietensor', 'pypose.lietensor.operation', 'pypose.lietensor.basics', 'pypose.lietensor.utils'])] + [
            rule_axisdefault(repo, 'C03.AXDEF', ['pypose.lietensor.lietensor', 'pypose.lietensor.operation', 'pypose.lietensor.basics', 'pypose.lietensor.utils', 'pypose.lietensor.convert', 'pypose.basics.ops']), __import__('sa.axisdefault', fromlist=['x']).rule_frontaxis(repo, 'C03.BAX', ['pypose.lietensor.lietensor', 'pypose.lietensor.operation', 'pypose.lietensor.basics', 'pypose.lietensor.utils', 'pypose.lietensor.convert']), __import__('sa.axisdefault', fromlist=['x']).rule_batchbranch(repo, 'C03.BIF', ['pypose.lietensor.lietensor', 'pypose.lietensor.operation', 'pypose.lietensor.basics', 'pypose.basics.ops'])]
