"""C11 - matrix / Euler conversions: structural clauses."""
import ast
from ..core import RuleResult, Finding, AnalysisError, dotted, src, norm_construct, guarded, guarded_list
from ..expr import inline_straight, returns_of, dump, subst
from .. import masks, paths, layout

CV = 'pypose.lietensor.convert'
CONVERTERS = ['mat2SO3', 'mat2SE3', 'mat2Sim3', 'mat2RxSO3', 'from_matrix']
FWD_PARAMS = ('check', 'rtol', 'atol')


@guarded
def rule_mp_pair(repo):
    mp = RuleResult('C11.MP', 'the branch masks mask_c0..c3 of the quaternion extraction form a partition (numerator and denominator sums)', floor=2)
    pr = RuleResult('C11.PAIRIDX', 'in the blended numerator and denominator, the candidate quaternion and the trace term weighted by one '
                    'and the same mask belong together: the trace term is a sub-expression the candidate is built from (data flow, '
                    'not the digits in the names)', floor=4)
    f = repo.func(CV, 'mat2SO3')
    groups, guards, inl = masks.analyse_function(f.node)
    sums = [g for g in groups if g.kind == 'sum']
    if len(sums) < 2:
        raise AnalysisError('C11.MP: expected the numerator and denominator mask sums in mat2SO3, found %d' % len(sums))
    for gi, g in enumerate(sums):
        d = masks.partition_defect(g.masks())
        mp.inst({'function': f.fq, 'group': gi, 'branches': len(g.members), 'partition': d is None}, (f.fq, gi))
        if d is not None:
            mp.add(Finding('C11.MP', f, 'quaternion-extraction mask group %d (%d branches) is not a partition: %s' % (gi, len(g.members), d),
                           construct='group %d/%d' % (gi, len(g.members))))
    # numerator = the group whose operands are 4-vectors (torch.stack of 4), denominator = trace terms
    def is_candidate(rest):
        return any(isinstance(x, ast.Call) and dotted(x.func) == 'torch.stack' for x in rest if not isinstance(x, tuple))
    num = [g for g in sums if all(is_candidate(m[1]) for m in g.members)]
    den = [g for g in sums if g not in num]
    if len(num) != 1 or not den:
        raise AnalysisError('C11.PAIRIDX: cannot tell numerator from denominator in mat2SO3')
    num, den = num[0], den[0]
    for fm, rest, mexpr, _ in num.members:
        cand = [x for x in rest if not isinstance(x, tuple)][0]
        partner = [m for m in den.members if masks.equivalent(m[0], fm)]
        if len(partner) != 1:
            pr.inst({'function': f.fq, 'mask': src(mexpr)[:50], 'partner_terms': len(partner)}, dump(mexpr))
            pr.add(Finding('C11.PAIRIDX', f, 'the mask `%s` of a candidate quaternion has %d matching trace terms in the denominator'
                           % (src(mexpr)[:60], len(partner)), construct='partner count'))
            continue
        tterm = [x for x in partner[0][1] if not isinstance(x, tuple)][0]
        core = masks.strip(tterm)
        while isinstance(core, ast.Call) and isinstance(core.func, ast.Attribute) and core.func.attr in ('repeat', 'expand', 'unsqueeze', 'tile'):
            core = core.func.value
        ok = any(dump(n) == dump(core) for n in ast.walk(cand))
        pr.inst({'function': f.fq, 'mask': src(mexpr)[:50], 'trace_term': src(core)[:60], 'inside_candidate': ok}, dump(mexpr))
        if not ok:
            pr.add(Finding('C11.PAIRIDX', f, 'under mask `%s` the denominator uses trace term `%s`, which the candidate quaternion selected '
                           'by the same mask is not built from' % (src(mexpr)[:50], src(core)[:60]), construct='pair ' + src(mexpr)[:60]))
    return [mp, pr]


@guarded
def rule_fwd(repo):
    res = RuleResult('C11.FWD', 'every conversion with (check, rtol, atol) forwards them unchanged to each inner conversion that takes them', floor=7)
    for name in CONVERTERS:
        f = repo.func(CV, name)
        if not all(p in f.params for p in FWD_PARAMS):
            raise AnalysisError('C11.FWD: %s lost its (check, rtol, atol) parameters' % name)
        for c in paths.calls_in(f.node):
            cands, how = repo.resolve_call(f, c, by_name=False)
            if len(cands) != 1 or not all(p in cands[0].params for p in FWD_PARAMS) or cands[0].module.name != CV:
                continue
            g = cands[0]
            bound = {}
            for i, a in enumerate(c.args):
                if i < len(g.pos_params):
                    bound[g.pos_params[i]] = a
            for k in c.keywords:
                if k.arg:
                    bound[k.arg] = k.value
            bad = [p for p in FWD_PARAMS if not (isinstance(bound.get(p), ast.Name) and bound[p].id == p)]
            res.inst({'function': f.fq, 'callee': g.name, 'forwarded': [p for p in FWD_PARAMS if p not in bad]},
                     (f.fq, g.name, norm_construct(c, f.node)))
            if bad:
                res.add(Finding('C11.FWD', f, '%s calls %s without forwarding %s unchanged (got %s)' % (
                    name, g.name, bad, {p: (src(bound[p]) if p in bound else 'default') for p in bad}), node=c))
    return res


@guarded
def rule_raise(repo):
    res = RuleResult('C11.RAISE', 'mat2SO3: with check enabled, each failed validity test (orthogonality, unit determinant; allclose with the '
                     'caller\'s rtol/atol) leads to raise ValueError on every path', floor=2)
    f = repo.func(CV, 'mat2SO3')
    pths, _ = paths.function_paths(f.node, limit=4096)
    tests = {}
    for ev, ex in pths:
        check_on = False
        for i, e in enumerate(ev):
            if e[0] == 'assume' and dotted(e[1]) == 'check':
                check_on = e[2]
            if e[0] == 'assume' and check_on:
                ac = [c for c in paths.calls_in(e[1]) if dotted(c.func) == 'torch.allclose']
                if not ac:
                    continue
                failed = _fails(e[1], e[2])
                if failed is None:
                    continue
                key = dump(ac[0])
                t = tests.setdefault(key, {'call': ac[0], 'raises': True, 'tol': True})
                kw = {k.arg: dotted(k.value) for k in ac[0].keywords}
                if kw.get('rtol') != 'rtol' or kw.get('atol') != 'atol':
                    t['tol'] = False
                if failed:
                    # the rest of this path must raise ValueError before anything else happens
                    nxt = [x for x in ev[i + 1:] if x[0] == 'stmt']
                    ok = ex == 'raise' and nxt and isinstance(nxt[0][1], ast.Raise) and nxt[0][1].exc is not None and \
                        dotted(nxt[0][1].exc.func if isinstance(nxt[0][1].exc, ast.Call) else nxt[0][1].exc) == 'ValueError'
                    if not ok:
                        t['raises'] = False
    for key, t in tests.items():
        res.inst({'function': f.fq, 'test': src(t['call'])[:70], 'raises_ValueError': t['raises'], 'uses_caller_tolerances': t['tol']}, key)
        if not t['raises']:
            res.add(Finding('C11.RAISE', f, 'a failed validity test `%s` does not raise ValueError' % src(t['call'])[:70], node=t['call']))
        if not t['tol']:
            res.add(Finding('C11.RAISE', f, 'validity test `%s` does not use the caller\'s rtol/atol' % src(t['call'])[:70], node=t['call'],
                            construct='tolerances ' + norm_construct(t['call'], f.node)))
    kinds = {'orth': any('mT' in src(t['call']) or '.T' in src(t['call']) or 'transpose' in src(t['call']) or 'e0' in src(t['call']) for t in tests.values()),
             'det': any('det' in src(t['call']) for t in tests.values())}
    # the orthogonality test compares mat @ mat^T with the identity: find it through the inlined first argument
    inl = inline_straight(f.node)
    okinds = set()
    for st, env in inl.log:
        for c in paths.calls_in(st if not isinstance(st, (ast.If, ast.While, ast.For, ast.With, ast.Try)) else getattr(st, 'test', ast.Constant(None))):
            if dotted(c.func) == 'torch.allclose' and c.args:
                a0 = subst(c.args[0], env)
                if any(isinstance(n, ast.BinOp) and isinstance(n.op, ast.MatMult) for n in ast.walk(a0)):
                    okinds.add('orthogonality')
                dets = [n for n in ast.walk(a0) if isinstance(n, ast.Call) and dotted(n.func) in ('torch.det', 'torch.linalg.det')]
                if dets:
                    okinds.add('determinant')
                    for dn in dets:
                        if dn.args and any(isinstance(x, ast.BinOp) and isinstance(x.op, ast.MatMult) for x in ast.walk(dn.args[0])):
                            res.add(Finding('C11.RAISE', f, 'the determinant test is applied to a product (`%s`), not to the matrix itself: det(R R^T) = '
                                            'det(R)^2 cannot tell a reflection from a rotation' % src(dn)[:60].replace('$', ''), construct='det of product'))
    for k in ('orthogonality', 'determinant'):
        if k not in okinds:
            res.add(Finding('C11.RAISE', f, 'mat2SO3 no longer performs the %s test under check=True' % k, construct='missing ' + k))
    if len(tests) < 2 and not res.findings:
        raise AnalysisError('C11.RAISE: found %d validity tests in mat2SO3' % len(tests))
    return res


def _fails(test, truth):
    """is this the branch on which the allclose test failed?"""
    if isinstance(test, ast.UnaryOp) and isinstance(test.op, ast.Not):
        r = _fails(test.operand, not truth)
        return r
    if isinstance(test, ast.Call) and dotted(test.func) == 'torch.allclose':
        return not truth
    return None


@guarded
def rule_disp(repo):
    res = RuleResult('C11.DISP', 'from_matrix maps each of the four group ltypes to its own converter and raises otherwise', floor=5)
    f = repo.func(CV, 'from_matrix')
    pths, _ = paths.function_paths(f.node, limit=1024)
    want = {'SO3_type': 'mat2SO3', 'SE3_type': 'mat2SE3', 'Sim3_type': 'mat2Sim3', 'RxSO3_type': 'mat2RxSO3'}
    seen = {}
    fallthrough_raises = None
    for ev, ex in pths:
        sel = None
        neg = 0
        for e in ev:
            if e[0] == 'assume' and isinstance(e[1], ast.Compare) and dotted(e[1].left) == 'ltype' and isinstance(e[1].ops[0], (ast.Eq, ast.Is)):
                if e[2]:
                    sel = dotted(e[1].comparators[0])
                else:
                    neg += 1
        if sel is not None and ex == 'return':
            from ..expr import Inliner
            inl_ = Inliner()
            rvv = None
            for e in ev:
                if e[0] == 'stmt' and isinstance(e[1], ast.Return):
                    rvv = inl_.value(e[1].value) if e[1].value is not None else None
                elif e[0] == 'stmt':
                    inl_.feed(e[1])
            seen[sel] = dotted(rvv.func) if isinstance(rvv, ast.Call) else None
        if sel is None and neg >= 4:
            fallthrough_raises = (ex == 'raise')
    for lt, conv in want.items():
        res.inst({'ltype': lt, 'converter': seen.get(lt)}, lt)
        if seen.get(lt) != conv:
            res.add(Finding('C11.DISP', f, 'from_matrix maps %s to %s, expected %s' % (lt, seen.get(lt), conv), construct=lt))
    res.inst({'otherwise_raises': fallthrough_raises}, 'else')
    if fallthrough_raises is not True:
        res.add(Finding('C11.DISP', f, 'from_matrix does not raise for an unsupported ltype', construct='else'))
    return res


@guarded
def rule_lt(repo):
    res = RuleResult('C11.LT', 'mat2SE3 / mat2Sim3 / mat2RxSO3 concatenate translation, quaternion and scale in the order of the layout '
                     'table and wrap the result in the matching LieTensor alias', floor=3)
    table = layout.extract_table(repo)
    for name, G in (('mat2SE3', 'SE3'), ('mat2Sim3', 'Sim3'), ('mat2RxSO3', 'RxSO3')):
        f = repo.func(CV, name)
        rets = [r for r in returns_of(f.node) if r.value is not None]
        ok_any = False
        for r in rets:
            v = inline_straight(f.node, upto=r).value(r.value)
            if not (isinstance(v, ast.Call) and isinstance(v.func, ast.Name) and v.args):
                continue
            wrapper = v.func.id
            cat = v.args[0]
            if not (isinstance(cat, ast.Call) and dotted(cat.func) in ('torch.cat', 'torch.concat') and isinstance(cat.args[0], (ast.List, ast.Tuple))):
                continue
            roles = []
            for el in cat.args[0].elts:
                roles.append(_role(el))
            want = [s[0] for s in table[G]['slots']]
            ok = roles == want and wrapper == G
            ok_any = True
            res.inst({'function': f.fq, 'order': roles, 'layout': want, 'wrapper': wrapper}, f.fq)
            if roles != want:
                res.add(Finding('C11.LT', f, '%s concatenates %s; the %s layout is %s' % (name, roles, G, want), node=r, construct='order'))
            if wrapper != G:
                res.add(Finding('C11.LT', f, '%s wraps its result as %s' % (name, wrapper), node=r, construct='wrapper'))
        if not ok_any:
            raise AnalysisError('C11.LT: %s no longer returns <Alias>(torch.cat([...]))' % name)
    return res


def _role(e):
    names = {dotted(n.func) for n in ast.walk(e) if isinstance(n, ast.Call)}
    if 'mat2SO3' in names:
        return 'q'
    if names & {'torch.det', 'torch.linalg.det'}:
        return 's'
    for n in ast.walk(e):
        if isinstance(n, ast.Subscript) and isinstance(n.slice, ast.Tuple) and len(n.slice.elts) == 3 and \
                isinstance(n.slice.elts[2], ast.Constant) and n.slice.elts[2].value == 3:
            return 't'
    if 'torch.zeros' in names:
        return 't'
    if isinstance(e, ast.IfExp):
        a, b = _role(e.body), _role(e.orelse)
        return a if a == b else '?'
    return '?'


@guarded
def rule_degree(repo, tier):
    """mat2Sim3 / mat2RxSO3: the quantity the "not full rank" guard compares with the tolerance has the homogeneity degree of the scale itself
    (degree 1 in the matrix entries: s = det^(1/3)), the same in both siblings.  det is of degree 3: the same atol applied to det rejects every
    valid scaled rotation with s < atol^(1/3) (0.02 for the default 1e-5)."""
    res = RuleResult('C11.DEG', 'mat2Sim3 / mat2RxSO3: the rank guard tests a quantity of scale-degree 1 (the scale they return), identically in both', floor=2)

    def degree(e, env, depth=0):
        if depth > 10:
            return None
        if isinstance(e, ast.Name):
            return env.get(e.id)
        if isinstance(e, ast.Subscript):
            return degree(e.value, env, depth + 1)
        if isinstance(e, ast.Constant):
            return 0
        if isinstance(e, ast.Call):
            name = (dotted(e.func) or (e.func.attr if isinstance(e.func, ast.Attribute) else '')).split('.')[-1]
            args = list(e.args)
            if isinstance(e.func, ast.Attribute) and not (dotted(e.func) or '').startswith(('torch.', 'math.')):
                args = [e.func.value] + args
            if name == 'det' and args:
                d = degree(args[0], env, depth + 1)
                return None if d is None else 3 * d
            if name in ('pow',) and len(args) >= 2:
                d = degree(args[0], env, depth + 1)
                try:
                    ex = eval(compile(ast.Expression(args[1]), '<e>', 'eval'), {'__builtins__': {}})
                except Exception:
                    return None
                return None if d is None else d * ex
            if name in ('sqrt',) and args:
                d = degree(args[0], env, depth + 1)
                return None if d is None else d / 2
            if name in ('cbrt',) and args:
                d = degree(args[0], env, depth + 1)
                return None if d is None else d / 3
            if name in ('unsqueeze', 'squeeze', 'abs', 'norm', 'view', 'reshape', 'clone', 'mean', 'sum', 'contiguous', 'flatten', 'expand', 'to') and args:
                return degree(args[0], env, depth + 1)
            if name in ('zeros', 'zeros_like', 'ones', 'ones_like'):
                return 0
            return None
        if isinstance(e, ast.BinOp):
            l, r = degree(e.left, env, depth + 1), degree(e.right, env, depth + 1)
            if isinstance(e.op, ast.Pow):
                try:
                    ex = eval(compile(ast.Expression(e.right), '<e>', 'eval'), {'__builtins__': {}})
                except Exception:
                    return None
                return None if l is None else l * ex
            if l is None or r is None:
                return None
            if isinstance(e.op, ast.Mult):
                return l + r
            if isinstance(e.op, ast.Div):
                return l - r
            if isinstance(e.op, ast.MatMult):
                return l + r
            if isinstance(e.op, (ast.Add, ast.Sub)):
                return l if l == r or r == 0 else (r if l == 0 else None)
        if isinstance(e, ast.Attribute) and e.attr in ('mT', 'T'):
            return degree(e.value, env, depth + 1)
        return None
    degs = {}
    for q in ('mat2Sim3', 'mat2RxSO3'):
        f = repo.func(CV, q)
        env = {f.pos_params[0]: 1}
        guard = None
        for st in ast.walk(f.node):
            if isinstance(st, ast.Assign) and len(st.targets) == 1 and isinstance(st.targets[0], ast.Name):
                env[st.targets[0].id] = degree(st.value, env)
        for st in ast.walk(f.node):
            if isinstance(st, ast.If) and any(isinstance(x, ast.Raise) for x in st.body) and \
                    any(isinstance(c, ast.Constant) and isinstance(c.value, str) and 'rank' in c.value for x in st.body for c in ast.walk(x)):
                guard = st
        if guard is None:
            raise AnalysisError('C11.DEG: the "not full rank" guard of %s was not found' % q)
        tested = None
        for c in ast.walk(guard.test):
            if isinstance(c, ast.Call) and (dotted(c.func) or '').split('.')[-1] in ('allclose', 'isclose') and c.args:
                tested = c.args[0]
            elif isinstance(c, ast.Compare) and tested is None:
                tested = c.left
        # rank agreement of the two operands of the comparison (ranks relative to the rank r of `mat`)
        cmp_call = next((c for c in ast.walk(guard.test) if isinstance(c, ast.Call) and (dotted(c.func) or '').split('.')[-1] in ('allclose', 'isclose') and len(c.args) >= 2), None)
        if cmp_call is not None:
            ra, rb = _rank_off(cmp_call.args[0], f), _rank_off(cmp_call.args[1], f)
            okr = ra is None or rb is None or ra == rb
            res.inst({'function': f.fq, 'comparison': src(cmp_call)[:70], 'operand ranks relative to mat': [ra, rb], 'same rank': okr}, (f.fq, 'rank'))
            if not okr:
                res.add(Finding('C11.DEG', f, '%s: `%s` compares a tensor of rank r%+d with one of rank r%+d (r = rank of the input): the two are aligned from '
                                'the right, so for two or more batch dimensions the batch axes are matched against each other shifted by one and a valid '
                                'batch raises a size mismatch' % (q, src(cmp_call)[:60], ra, rb), node=guard, construct='rank|' + q))
        d = degree(tested, env) if tested is not None else None
        degs[q] = d
        res.inst({'function': f.fq, 'guard': src(guard.test)[:70], 'tested quantity': src(tested)[:40] if tested is not None else None, 'scale degree': d}, f.fq)
        if d is None:
            raise AnalysisError('C11.DEG: homogeneity degree of `%s` in %s could not be inferred' % (src(tested)[:40] if tested is not None else '?', q))
        if abs(d - 1) > 1e-9:
            res.add(Finding('C11.DEG', f, '%s: the rank guard compares `%s`, a quantity of degree %g in the scale, with the tolerance meant for the scale '
                            '(degree 1): valid scaled rotations with a small scale are rejected (or degenerate ones accepted)' % (q, src(tested)[:40], d), node=guard))
    return res


def _rank_off(e, f, depth=0):
    """rank of e minus the rank of the first parameter of f (None: unknown)"""
    p0 = f.pos_params[0]
    assigns = {}
    for n in ast.walk(f.node):
        if isinstance(n, ast.Assign) and len(n.targets) == 1 and isinstance(n.targets[0], ast.Name):
            assigns.setdefault(n.targets[0].id, []).append(n.value)

    def rk(e, depth=0):
        if depth > 12:
            return None
        if isinstance(e, ast.Name):
            if e.id == p0:
                return 0
            vs = assigns.get(e.id, [])
            return rk(vs[0], depth + 1) if len(vs) == 1 else None
        if isinstance(e, ast.Subscript):
            b = rk(e.value, depth + 1)
            if b is None:
                return None
            elts = e.slice.elts if isinstance(e.slice, ast.Tuple) else [e.slice]
            drop = sum(1 for x in elts if not isinstance(x, ast.Slice) and not (isinstance(x, ast.Constant) and x.value is Ellipsis))
            add = sum(1 for x in elts if isinstance(x, ast.Constant) and x.value is None)
            return b - drop + add
        if isinstance(e, ast.Call):
            name = (dotted(e.func) or (e.func.attr if isinstance(e.func, ast.Attribute) else '')).split('.')[-1]
            args = list(e.args)
            if isinstance(e.func, ast.Attribute) and not (dotted(e.func) or '').startswith(('torch.', 'math.')):
                args = [e.func.value] + args
            if name == 'det' and args:
                b = rk(args[0], depth + 1)
                return None if b is None else b - 2
            if name in ('pow', 'sqrt', 'abs', 'clone', 'exp', 'log', 'zeros_like', 'ones_like', 'to', 'float', 'double') and args:
                return rk(args[0], depth + 1)
            if name == 'unsqueeze' and args:
                b = rk(args[0], depth + 1)
                return None if b is None else b + 1
            if name == 'squeeze' and len(args) >= 2:
                b = rk(args[0], depth + 1)
                return None if b is None else b - 1
            if name in ('zeros', 'ones', 'empty', 'full') and e.args:
                # zeros(shape[:-k]) -> rank r - k
                a0 = e.args[0]
                if isinstance(a0, ast.Subscript) and isinstance(a0.slice, ast.Slice) and a0.slice.lower is None and a0.slice.upper is not None:
                    try:
                        up = ast.literal_eval(a0.slice.upper)
                    except ValueError:
                        return None
                    base = a0.value
                    is_shape = (isinstance(base, ast.Attribute) and base.attr == 'shape' and dotted(base.value) == p0) or \
                        (isinstance(base, ast.Name) and any(isinstance(v, ast.Attribute) and v.attr == 'shape' and dotted(v.value) == p0 for v in assigns.get(base.id, [])))
                    if is_shape and isinstance(up, int) and up < 0:
                        return up
            return None
        if isinstance(e, ast.BinOp):
            a, b = rk(e.left, depth + 1), rk(e.right, depth + 1)
            if a is None:
                return b
            if b is None:
                return a
            return max(a, b)
        return None
    return rk(e)


class _NoDiag(Exception):
    pass


def _diag_eval(e, R, consts):
    """value of an expression over the diagonal (R00, R11, R22) of the rotation matrix; shape / dtype wrappers are transparent"""
    if isinstance(e, ast.Constant) and isinstance(e.value, (int, float, bool)):
        return e.value
    if isinstance(e, ast.Name):
        if e.id in consts:
            return consts[e.id]
        raise _NoDiag('name ' + e.id)
    if isinstance(e, ast.Subscript) and isinstance(e.slice, ast.Tuple):
        idx = [x.value for x in e.slice.elts if isinstance(x, ast.Constant) and isinstance(x.value, int) and not isinstance(x.value, bool)]
        rest = [x for x in e.slice.elts if not (isinstance(x, ast.Constant) and (x.value is Ellipsis or isinstance(x.value, int)))]
        if len(idx) == 2 and not rest:
            if idx[0] == idx[1] and idx[0] in (0, 1, 2):
                return R[idx[0]]
            raise _NoDiag('off-diagonal entry')
    if isinstance(e, ast.UnaryOp):
        v = _diag_eval(e.operand, R, consts)
        if isinstance(e.op, ast.USub):
            return -v
        if isinstance(e.op, (ast.Invert, ast.Not)):
            return not v
        if isinstance(e.op, ast.UAdd):
            return v
    if isinstance(e, ast.BinOp):
        a, b = _diag_eval(e.left, R, consts), _diag_eval(e.right, R, consts)
        if isinstance(e.op, ast.Add):
            return a + b
        if isinstance(e.op, ast.Sub):
            return a - b
        if isinstance(e.op, ast.Mult):
            return (a and b) if isinstance(a, bool) and isinstance(b, bool) else a * b
        if isinstance(e.op, ast.BitAnd):
            return bool(a) and bool(b)
        if isinstance(e.op, ast.BitOr):
            return bool(a) or bool(b)
        if isinstance(e.op, ast.Div) and b != 0:
            return a / b
    if isinstance(e, ast.Compare) and len(e.ops) == 1:
        a, b = _diag_eval(e.left, R, consts), _diag_eval(e.comparators[0], R, consts)
        op = type(e.ops[0])
        table = {ast.Lt: a < b, ast.LtE: a <= b, ast.Gt: a > b, ast.GtE: a >= b}
        if op in table:
            return table[op]
    if isinstance(e, ast.Call):
        d = dotted(e.func) or ''
        nm = d.split('.')[-1] if d else (e.func.attr if isinstance(e.func, ast.Attribute) else '')
        recv = e.func.value if isinstance(e.func, ast.Attribute) and not d.startswith('torch.') else (e.args[0] if e.args else None)
        if recv is not None and nm in ('abs', 'absolute'):
            return abs(_diag_eval(recv, R, consts))
        if recv is not None and nm in ('unsqueeze', 'squeeze', 'type_as', 'repeat', 'expand', 'expand_as', 'float', 'double', 'to', 'clone', 'bool', 'logical_not', 'contiguous', 'view', 'reshape'):
            v = _diag_eval(recv, R, consts)
            return (not v) if nm == 'logical_not' else v
        if nm in ('logical_and', 'logical_or') and len(e.args) == 2:
            a, b = _diag_eval(e.args[0], R, consts), _diag_eval(e.args[1], R, consts)
            return (a and b) if nm == 'logical_and' else (a or b)
    raise _NoDiag('expression `%s`' % src(e)[:40])


def _pivot_selection(repo, f, res):
    """Which pivot divides is decided by masks over the DIAGONAL of R.  The diagonals of rotation matrices are the points of the tetrahedron
    1 +- R00 +- R11 +- R22 >= 0 (each of the four pivots is 4 q_k^2 >= 0, their sum is 4): on a grid of that tetrahedron every mask is evaluated (a
    finite table of linear sign conditions), and the pivot it selects must stay away from zero - the largest of the four is >= 1, a selection that lets a
    pivot reach 0 on admissible rotations divides by zero there (e.g. `R22.abs() < atol` sends R22 = -1 to the w / z branches: diag(1, -1, -1) has t_w = 0)."""
    groups, guards, inl = masks.analyse_function(f.node)
    sums = [g for g in groups if g.kind == 'sum']
    den = [g for g in sums if not all(any(isinstance(x, ast.Call) and dotted(x.func) == 'torch.stack' for x in m[1] if not isinstance(x, tuple)) for m in g.members)]
    if len(den) != 1:
        raise AnalysisError('C11.PIVOT: the masked sum of pivots (the divisor) was not found in mat2SO3')
    consts = {}
    for a, dflt in zip(reversed(f.node.args.args), reversed(f.node.args.defaults)):
        if isinstance(dflt, ast.Constant) and isinstance(dflt.value, (int, float)) and not isinstance(dflt.value, bool):
            consts[a.arg] = dflt.value
    steps = [i / 4.0 for i in range(-4, 5)]
    grid = [(a, b, c) for a in steps for b in steps for c in steps
            if 1 + a - b - c >= 0 and 1 - a + b - c >= 0 and 1 - a - b + c >= 0 and 1 + a + b + c >= 0]
    for fm, rest, mexpr, _ in den[0].members:
        tterm = [x for x in rest if not isinstance(x, tuple)]
        if len(tterm) != 1:
            raise AnalysisError('C11.PIVOT: a term of the divisor is not pivot * mask')
        worst = None
        try:
            for R in grid:
                if _diag_eval(mexpr, R, consts):
                    t = _diag_eval(tterm[0], R, consts)
                    if worst is None or t < worst[0]:
                        worst = (t, R)
        except _NoDiag as ex:
            raise AnalysisError('C11.PIVOT: the selection mask `%s` is not a condition on the diagonal of R (%s)' % (src(mexpr)[:50], ex))
        ok = worst is None or worst[0] >= 0.5
        res.inst({'function': f.fq, 'mask': src(mexpr)[:60], 'smallest selected pivot over the diagonal grid': None if worst is None else worst[0],
                  'at diag(R)': None if worst is None else list(worst[1]), 'bounded away from zero': ok}, ('sel', dump(mexpr)))
        if not ok:
            res.add(Finding('C11.PIVOT', f, 'under the mask `%s` the divisor pivot `%s` goes down to %.3g on admissible rotations (diag R = %s): the extraction divides by '
                            'sqrt of it, so these rotations (and their neighbourhood) come out as NaN / with lost digits; the branch must select a pivot >= 1'
                            % (src(mexpr)[:60], src(tterm[0])[:40], worst[0], list(worst[1])), construct='selected pivot vanishes|' + src(tterm[0])[:30]))


@guarded
def rule_pivots(repo, tier):
    """The quaternion is extracted from R by dividing a candidate by sqrt(t) with t = 1 + s0 R00 + s1 R11 + s2 R22 = 4 q_k^2 for one of the four sign
    patterns (+,-,-), (-,+,-), (-,-,+), (+,+,+) (k = x, y, z, w).  The four t sum to 4, so only the LARGEST is bounded away from zero (>= 1); a
    selection that can never pick one of the four divides by a t that vanishes on the rotations where that component dominates (half turns about that
    axis, resp. small rotations).  Every pattern is therefore present among the divisors that reach the returned quaternion."""
    res = RuleResult('C11.PIVOT', 'mat2SO3: all four pivots 1 +- R00 +- R11 +- R22 (one per dominant quaternion component) reach the normalisation of the '
                     'returned quaternion', floor=1)
    f = repo.func(CV, 'mat2SO3')
    defs = {}
    for n in ast.walk(f.node):
        if isinstance(n, ast.Assign) and len(n.targets) == 1 and isinstance(n.targets[0], ast.Name):
            defs.setdefault(n.targets[0].id, []).append(n.value)
        elif isinstance(n, ast.Assign) and len(n.targets) == 1 and isinstance(n.targets[0], ast.Tuple) and isinstance(n.value, ast.Tuple) and \
                len(n.targets[0].elts) == len(n.value.elts):
            for t, v in zip(n.targets[0].elts, n.value.elts):
                if isinstance(t, ast.Name):
                    defs.setdefault(t.id, []).append(v)

    def pattern(e):
        """sign pattern (s0, s1, s2) of 1 +- X[...,0,0] +- X[...,1,1] +- X[...,2,2], or None"""
        terms = []
        def flat(x, sign):
            if isinstance(x, ast.BinOp) and isinstance(x.op, ast.Add):
                flat(x.left, sign); flat(x.right, sign)
            elif isinstance(x, ast.BinOp) and isinstance(x.op, ast.Sub):
                flat(x.left, sign); flat(x.right, -sign)
            elif isinstance(x, ast.UnaryOp) and isinstance(x.op, ast.USub):
                flat(x.operand, -sign)
            else:
                terms.append((sign, x))
        flat(e, 1)
        pat = {}
        one = False
        def is_diag(x):
            x = defs[x.id][0] if isinstance(x, ast.Name) and len(defs.get(x.id, [])) == 1 else x
            return isinstance(x, ast.Call) and (dotted(x.func) or '').split('.')[-1] == 'diagonal'
        for sg, t in terms:
            # a scalar local bound once to an entry (d0 = diag[..., 0]) stands for that entry
            if isinstance(t, ast.Name) and len(defs.get(t.id, [])) == 1 and isinstance(defs[t.id][0], ast.Subscript):
                t = defs[t.id][0]
            if isinstance(t, ast.Constant) and t.value == 1 and sg == 1:
                one = True
            elif isinstance(t, ast.Subscript) and is_diag(t.value):
                k = t.slice.elts[-1] if isinstance(t.slice, ast.Tuple) else t.slice
                if isinstance(k, ast.Constant) and k.value in (0, 1, 2):
                    pat[k.value] = sg
                else:
                    return None
            elif isinstance(t, ast.Call) and isinstance(t.func, ast.Attribute) and t.func.attr == 'sum' and is_diag(t.func.value):
                pat.update({0: sg, 1: sg, 2: sg})                  # the trace of the block the diagonal was taken of (C11.CROP: of the cropped 3 x 3 block)
            elif isinstance(t, ast.Subscript) and isinstance(t.slice, ast.Tuple):
                idx = [x.value for x in t.slice.elts if isinstance(x, ast.Constant) and isinstance(x.value, int)]
                if len(idx) == 2 and idx[0] == idx[1] and idx[0] in (0, 1, 2):
                    pat[idx[0]] = sg
                else:
                    return None
            else:
                return None
        if one and set(pat) == {0, 1, 2}:
            return (pat[0], pat[1], pat[2])
        return None
    pivots = {nm: pattern(v[0]) for nm, v in defs.items() if len(v) == 1 and pattern(v[0]) is not None}
    # names (transitively) used by the expression that divides the returned quaternion
    used = set()
    def reach(e, depth=0):
        for x in ast.walk(e):
            if isinstance(x, ast.Name) and x.id not in used and depth < 8:
                used.add(x.id)
                for v in defs.get(x.id, []):
                    reach(v, depth + 1)
    for n in ast.walk(f.node):
        if isinstance(n, ast.AugAssign) and isinstance(n.op, ast.Div):
            reach(n.value)
        elif isinstance(n, ast.BinOp) and isinstance(n.op, ast.Div) and any(isinstance(c, ast.Call) and (dotted(c.func) or '').split('.')[-1] == 'sqrt' for c in ast.walk(n.right)):
            reach(n.right)
    got = {pivots[nm] for nm in used if nm in pivots}
    want = {(1, -1, -1), (-1, 1, -1), (-1, -1, 1), (1, 1, 1)}
    res.inst({'function': f.fq, 'pivots reaching the normalisation': sorted(got), 'all four': got == want}, 'pivots')
    if not pivots:
        raise AnalysisError('C11.PIVOT: no pivot expression 1 +- R00 +- R11 +- R22 found in mat2SO3')
    _pivot_selection(repo, f, res)
    for miss in sorted(want - got):
        comp = {(1, -1, -1): 'x', (-1, 1, -1): 'y', (-1, -1, 1): 'z', (1, 1, 1): 'w'}[miss]
        res.add(Finding('C11.PIVOT', f, 'the pivot 4 q_%s^2 = 1 %+d R00 %+d R11 %+d R22 never reaches the normalisation of the returned quaternion: rotations whose '
                        'quaternion is dominated by its %s component (%s) are extracted with a divisor that vanishes there' %
                        (comp, miss[0], miss[1], miss[2], comp, 'small rotations' if comp == 'w' else 'half turns about the %s axis' % comp),
                        construct='pivot %s' % comp))
    return res


@guarded
def rule_crop(repo):
    """mat2SO3 accepts 3x3, 3x4 and 4x4 matrices and crops them to the rotation block (`mat = mat[..., :3, :3]`).  Everything the extraction reads afterwards is
    read from the CROPPED matrix: a value taken from the argument before the crop (its transpose, its diagonal, a row) still has the extents of the 3x4 / 4x4 input -
    the trace over its diagonal includes the homogeneous 1, a transposed 3x4 is 4x3 - and is identical only for the 3x3 layout.  Typestate of the parameter:
    {as given} -crop-> {rotation block}; names bound from it in the first state are dead in the second (shape / dtype / device reads excepted)."""
    res = RuleResult('C11.CROP', 'mat2SO3 (and the converters that crop their argument to [..., :3, :3]): no value taken from the matrix before the crop is used after it; '
                     'the extraction reads the cropped rotation block only', floor=1)
    from ..memo import _own_nodes
    n_crops = 0
    for q in ('mat2SO3', 'mat2SE3', 'mat2Sim3', 'mat2RxSO3'):
        f = repo.func(CV, q)
        p0 = f.pos_params[0]
        crop = None
        for st in f.node.body:
            if isinstance(st, ast.Assign) and len(st.targets) == 1 and isinstance(st.targets[0], ast.Name) and st.targets[0].id == p0 and \
                    isinstance(st.value, ast.Subscript) and isinstance(st.value.value, ast.Name) and st.value.value.id == p0 and ':3' in src(st.value.slice).replace(' ', ''):
                crop = st
                break
        if crop is None:
            continue
        n_crops += 1
        early = {}
        for n in _own_nodes(f.node):
            if isinstance(n, ast.Assign) and n.lineno < crop.lineno:
                pairs = []
                if len(n.targets) == 1 and isinstance(n.targets[0], ast.Tuple) and isinstance(n.value, ast.Tuple) and len(n.targets[0].elts) == len(n.value.elts):
                    pairs = list(zip(n.targets[0].elts, n.value.elts))
                elif len(n.targets) == 1:
                    pairs = [(n.targets[0], n.value)]
                for t, v in pairs:
                    if not isinstance(t, ast.Name) or t.id == p0:
                        continue
                    reads = [x for x in ast.walk(v) if isinstance(x, ast.Name) and x.id == p0]
                    meta = all(any(isinstance(a, ast.Attribute) and a.value is x and a.attr in ('shape', 'dtype', 'device', 'ndim', 'requires_grad') for a in ast.walk(v)) or
                               any(isinstance(c, ast.Call) and dotted(c.func) in ('len', 'torch.is_tensor', 'isinstance') and x in c.args for c in ast.walk(v)) for x in reads)
                    if reads and not meta:
                        early[t.id] = n
        late = {}
        rebinds = {}
        for n in _own_nodes(f.node):
            if isinstance(n, ast.Name) and isinstance(n.ctx, ast.Store) and n.id in early and n.lineno > crop.lineno:
                rebinds[n.id] = min(rebinds.get(n.id, n.lineno), n.lineno)
        for n in _own_nodes(f.node):
            if isinstance(n, ast.Name) and isinstance(n.ctx, ast.Load) and n.id in early and n.lineno > crop.lineno and n.lineno <= rebinds.get(n.id, 1 << 30):
                if n.lineno == rebinds.get(n.id) and not any(isinstance(a, ast.Assign) and a.lineno == n.lineno and any(x is n for x in ast.walk(a.value)) for a in _own_nodes(f.node)):
                    continue
                late.setdefault(n.id, n)
        res.inst({'function': f.fq, 'crop': src(crop)[:40], 'taken before the crop': sorted(early), 'used after it': sorted(late)}, f.fq)
        for nm, use in late.items():
            res.add(Finding('C11.CROP', f, '`%s` is taken from the matrix as given (`%s`) before it is cropped to the rotation block and is used after the crop (line %d): for a '
                            '3x4 / 4x4 input it still has the extents of the whole matrix (its diagonal includes the homogeneous entry)' % (nm, src(early[nm])[:60], use.lineno),
                            node=early[nm], construct='pre-crop value|' + nm))
    if n_crops == 0:
        raise AnalysisError('C11.CROP: no converter crops its argument to [..., :3, :3] any more')
    return res


@guarded
def rule_validated(repo):
    """mat2Sim3 / mat2RxSO3 hand mat2SO3 the block divided by the ONE scalar scale they return (rot / s).  That is what makes check=True a test of the input: rot / s is
    a rotation exactly when rot is a scaled rotation.  Any other normalisation of the block before the validating call (row / column normalisation, a polar
    factor, a projection) repairs the defect the check is there to find - an anisotropically scaled block passes and the returned element is not the input."""
    res = RuleResult('C11.VALID', 'mat2Sim3 / mat2RxSO3 validate the block divided by the scalar scale they return (`rot / s`): the matrix handed to the checking mat2SO3 '
                     'is not normalised in any other way', floor=2)
    for q in ('mat2Sim3', 'mat2RxSO3'):
        f = repo.func(CV, q)
        once = {}
        for n in ast.walk(f.node):
            if isinstance(n, ast.Assign) and len(n.targets) == 1 and isinstance(n.targets[0], ast.Name):
                once.setdefault(n.targets[0].id, []).append(n.value)
        # the scale: the name whose definition takes a root of the determinant
        scale = {nm for nm, vs in once.items() if any(any(isinstance(c, ast.Call) and (dotted(c.func) or '').split('.')[-1] == 'det' for c in ast.walk(v)) for v in vs)}
        grew = True
        while grew:
            grew = False
            for nm, vs in once.items():
                if nm not in scale and any(any(isinstance(x, ast.Name) and x.id in scale for x in ast.walk(v)) for v in vs) and \
                        not any(any(isinstance(c, ast.Call) and (dotted(c.func) or '') == 'mat2SO3' for c in ast.walk(v)) for v in vs) and \
                        all(not any(isinstance(c, ast.Call) and (dotted(c.func) or '').split('.')[-1] in ('cat', 'stack') for c in ast.walk(v)) for v in vs):
                    scale.add(nm)
                    grew = True
        calls = [c for c in ast.walk(f.node) if isinstance(c, ast.Call) and (dotted(c.func) or '') == 'mat2SO3' and c.args]
        if not calls or not scale:
            raise AnalysisError('C11.VALID: %s no longer calls mat2SO3 on a block scaled by a root of the determinant' % q)
        for c in calls:
            a = c.args[0]
            if isinstance(a, ast.Name) and len(once.get(a.id, [])) == 1:
                a = once[a.id][0]
            ok = isinstance(a, ast.BinOp) and isinstance(a.op, ast.Div) and any(isinstance(x, ast.Name) and x.id in scale for x in ast.walk(a.right)) and \
                not any(isinstance(x, ast.Call) and not (isinstance(x.func, ast.Attribute) and x.func.attr in ('unsqueeze', 'view', 'reshape', 'expand', 'expand_as'))
                        for x in ast.walk(a))
            res.inst({'function': f.fq, 'validated matrix': src(c.args[0])[:60], 'scale': sorted(scale), 'block divided by the scale only': ok}, (f.fq, src(c.args[0])[:40]))
            if not ok:
                res.add(Finding('C11.VALID', f, 'the matrix handed to the validating mat2SO3 is `%s`, not the block divided by the scalar scale %s: a normalisation other than '
                                'the division by the returned scale repairs inputs that are not scaled rotations, and check=True accepts them' % (src(c.args[0])[:60], sorted(scale)),
                                node=c, construct='validated matrix'))
    return res


@guarded
def rule_tcol(repo, tier):
    """The accepted layouts are 3x3, 3x4 and 4x4.  Whether a translation column exists is a question about the COLUMN count: 3x3 has none, 3x4 and
    4x4 have one.  The row count cannot tell 3x3 from 3x4 (both have three rows), so a test on shape[-2] hands a 3x4 [sR | t] matrix the zero
    translation meant for 3x3 input."""
    res = RuleResult('C11.TCOL', 'mat2SE3 / mat2Sim3 decide "no translation column" by the number of columns (shape[-1] == 3 or shape[-2:] == (3, 3))', floor=2)
    for q in ('mat2SE3', 'mat2Sim3'):
        f = __import__('sa.core', fromlist=['x']).ifstmt_view(repo.func(CV, q))
        p0 = f.pos_params[0]
        shapes = {p0 + '.shape'}
        for a in ast.walk(f.node):
            if isinstance(a, ast.Assign) and dotted(a.value) == p0 + '.shape':
                shapes |= {t.id for t in a.targets if isinstance(t, ast.Name)}
        n = 0
        for st in ast.walk(f.node):
            if not isinstance(st, ast.If):
                continue
            zero_t = any(isinstance(a, ast.Assign) and any(isinstance(c, ast.Call) and (dotted(c.func) or '').split('.')[-1] in ('zeros', 'zeros_like') for c in ast.walk(a.value))
                         for a in st.body)
            if not zero_t or not isinstance(st.test, ast.Compare):
                continue
            l = st.test.left
            if not (isinstance(l, ast.Subscript) and dotted(l.value) in shapes):
                continue
            n += 1
            sl = src(l.slice).replace(' ', '')
            ok = sl in ('-1', '-2:') 
            res.inst({'function': f.fq, 'test': src(st.test)[:40], 'looks at the columns': ok}, (f.fq, src(st.test)))
            if not ok:
                res.add(Finding('C11.TCOL', f, '`%s` decides that the input has no translation column from `%s`: 3x3 and 3x4 inputs both have three rows, so a 3x4 '
                                'matrix loses its translation' % (src(st.test)[:40], src(l)), node=st))
        if n == 0:
            raise AnalysisError('C11.TCOL: the zero-translation branch of %s was not found' % q)
    return res


ANGLE_FUNCS = {'asin', 'arcsin', 'acos', 'arccos', 'atan', 'arctan', 'atan2', 'arctan2'}


@guarded
def rule_gimbal(repo, tier):
    """euler(): the gimbal-lock band is tested on the SINE of the pitch - the same quantity whose asin is returned as the pitch - against a
    bound of the form 1 - eps.  A bound near 1 is a statement about a sine; applied to the angle itself (radians) it declares every pitch
    beyond about 57 degrees singular and discards roll there."""
    res = RuleResult('C11.KIND', 'LieTensor.euler: the singularity flag compares |sin(pitch)| (the argument of the asin that yields the pitch) with a '
                     'bound 1 - eps; it is not applied to an angle', floor=1)
    f = repo.func('pypose.lietensor.lietensor', 'LieTensor.euler')
    assigns = {}
    for n in ast.walk(f.node):
        if isinstance(n, ast.Assign) and len(n.targets) == 1 and isinstance(n.targets[0], ast.Name):
            assigns.setdefault(n.targets[0].id, []).append(n.value)

    def strip(e):
        while True:
            if isinstance(e, ast.Call) and (dotted(e.func) or '').startswith('torch.') and (dotted(e.func) or '').split('.')[-1] in ('abs', 'clamp', 'clip') and e.args:
                e = e.args[0]
            elif isinstance(e, ast.Call) and isinstance(e.func, ast.Attribute) and e.func.attr in ('abs', 'clamp', 'clip', 'clone', 'detach') :
                e = e.func.value
            elif isinstance(e, ast.Call) and (dotted(e.func) or '').split('.')[-1] in ('abs', 'clamp', 'clip') and e.args:
                e = e.args[0]
            else:
                return e

    def is_angle(e, depth=0):
        e = strip(e)
        if isinstance(e, ast.Call) and (dotted(e.func) or (e.func.attr if isinstance(e.func, ast.Attribute) else '')).split('.')[-1] in ANGLE_FUNCS:
            return True
        if isinstance(e, ast.Name) and depth < 4:
            vs = assigns.get(e.id, [])
            return len(vs) == 1 and is_angle(vs[0], depth + 1)
        return False
    asins = [c for c in ast.walk(f.node) if isinstance(c, ast.Call) and (dotted(c.func) or (c.func.attr if isinstance(c.func, ast.Attribute) else '')).split('.')[-1]
             in ('asin', 'arcsin')]
    if len(asins) != 1:
        raise AnalysisError('C11.KIND: LieTensor.euler has %d asin calls, expected the pitch' % len(asins))
    a = asins[0]
    sine = strip(a.args[0] if a.args else a.func.value)
    flags = []
    for n in ast.walk(f.node):
        if isinstance(n, ast.Compare) and len(n.ops) == 1 and isinstance(n.ops[0], (ast.Lt, ast.LtE, ast.Gt, ast.GtE)):
            sides = [n.left, n.comparators[0]]
            for k, t in enumerate(sides):
                near_one = any(isinstance(c, ast.Constant) and isinstance(c.value, (int, float)) and c.value == 1 for c in ast.walk(t)) and \
                    any(isinstance(c, ast.Name) and 'eps' in c.id for c in ast.walk(t))
                if near_one:
                    flags.append((n, sides[1 - k], t))
    if not flags:
        raise AnalysisError('C11.KIND: the gimbal-lock test (|.| < 1 - eps) of LieTensor.euler was not found')
    for n, qty, bound in flags:
        q = strip(qty)
        same = dump(q) == dump(sine)
        ang = is_angle(qty)
        bound_angle = any(isinstance(c, ast.Attribute) and c.attr == 'pi' for c in ast.walk(bound)) or is_angle(bound)
        ok = same and not ang
        res.inst({'function': f.fq, 'test': src(n)[:60], 'tested quantity is the asin argument': same, 'tested quantity is an angle': ang}, src(n))
        if ang and not bound_angle:
            res.add(Finding('C11.KIND', f, '`%s` compares an ANGLE with a bound of the form 1 - eps (a bound for a sine): every pitch beyond about 1 rad is '
                            'treated as gimbal lock and its roll is discarded' % src(n)[:60], node=n))
        elif not same and not bound_angle:
            res.add(Finding('C11.KIND', f, '`%s` tests `%s` while the pitch is asin(`%s`): the singular band is decided on another quantity than the one '
                            'whose asin is returned' % (src(n)[:60], src(q)[:30], src(sine)[:30]), node=n))
    # the argument of asin is clamped to [-1, 1] as the LAST operation before asin: rounding of the normalisation (division by the squared norm) can push
    # |sin| above 1 at exact gimbal lock, and a clamp applied before that division no longer bounds what asin receives
    arg = a.args[0] if a.args else a.func.value
    for _ in range(3):
        if isinstance(arg, ast.Name) and len(assigns.get(arg.id, [])) == 1:
            arg = assigns[arg.id][0]
    def is_clamp11(e):
        if isinstance(e, ast.Call):
            nm = (dotted(e.func) or (e.func.attr if isinstance(e.func, ast.Attribute) else '')).split('.')[-1]
            if nm in ('clamp', 'clip', 'clamp_', 'clip_'):
                vals = [x for x in list(e.args) + [k.value for k in e.keywords]]
                lits = []
                for v in vals:
                    try:
                        lits.append(ast.literal_eval(v))
                    except (ValueError, SyntaxError):
                        pass
                return -1 in lits and 1 in lits
        return False
    okc = is_clamp11(arg)
    res.inst({'function': f.fq, 'asin argument': src(arg)[:50], 'clamped to [-1, 1] as the last step': okc}, 'asin-clamp')
    if not okc:
        res.add(Finding('C11.KIND', f, 'the argument of asin, `%s`, is not a clamp(-1, 1) of the normalised sine: at exact gimbal lock the rounded quotient can exceed 1 and the '
                        'pitch is NaN' % src(arg)[:50], node=a, construct='asin argument not clamped last'))
    return res


def _all_reductions(test):
    """[(node, polarity)]: whole-batch universal reductions (torch.allclose / torch.all / x.all() / torch.equal) in a test, with the polarity under which
    they occur (True: the test holds when the reduction holds)"""
    out = []

    def rec(e, pol):
        if isinstance(e, ast.UnaryOp) and isinstance(e.op, ast.Not):
            rec(e.operand, not pol)
        elif isinstance(e, ast.BoolOp):
            for v in e.values:
                rec(v, pol)
        elif isinstance(e, ast.Call):
            d = dotted(e.func) or ''
            if d in ('torch.allclose', 'torch.all', 'torch.equal') or (isinstance(e.func, ast.Attribute) and e.func.attr == 'all' and not d.startswith('torch.')):
                out.append((e, pol))
        elif isinstance(e, ast.Compare) and len(e.ops) == 1 and isinstance(e.ops[0], (ast.Eq, ast.Is)) and isinstance(e.comparators[0], ast.Constant) \
                and isinstance(e.comparators[0].value, bool):
            rec(e.left, pol if e.comparators[0].value else not pol)
    rec(test, True)
    return out


@guarded
def rule_quant(repo, tier):
    """The rejection clause is per input matrix: "inputs that are not (scaled) rotations ... raise".  A batch is rejected when ANY of its items is
    illegal.  `if not torch.allclose(actual, expected): raise` has that quantifier (not all good = some bad).  `if torch.allclose(x, bad_value): raise`
    rejects only when EVERY item is illegal: a degenerate matrix batched with a valid one passes (and is then divided by its ~0 scale), and an
    empty batch - vacuously all - is rejected although nothing in it is illegal."""
    res = RuleResult('C11.QUANT', 'every rejecting guard of the converters quantifies over the batch as "some item is illegal": whole-batch universal reductions '
                     '(allclose / all) occur only negated in a raising test, never as `if all items are bad: raise`', floor=4)
    for q in ('mat2SO3', 'mat2SE3', 'mat2Sim3', 'mat2RxSO3', 'from_matrix'):
        f = repo.func(CV, q)
        for n in ast.walk(f.node):
            if not (isinstance(n, ast.If) and any(isinstance(x, ast.Raise) for st in n.body for x in ast.walk(st))):
                continue
            ex = [x for x in ast.walk(n.test) if isinstance(x, ast.Call) and ((dotted(x.func) or '') == 'torch.any' or
                                                                              (isinstance(x.func, ast.Attribute) and x.func.attr == 'any' and not (dotted(x.func) or '').startswith('torch.')))]
            for call in ex:
                res.inst({'function': f.fq, 'guard': src(n.test)[:70], 'quantifier': 'some item'}, (f.fq, src(n.test)[:90], 'any'))
            for call, pol in _all_reductions(n.test):
                res.inst({'function': f.fq, 'guard': src(n.test)[:70], 'universal reduction occurs negated': not pol}, (f.fq, src(n.test)[:90]))
                if pol:
                    res.add(Finding('C11.QUANT', f, 'the rejecting guard `%s` raises only when EVERY item of the batch is illegal: one degenerate matrix among valid ones '
                                    'is accepted, and an empty batch (vacuously all) is rejected; the per-item rejection needs `any`' % src(n.test)[:70], node=n))
    fx = ast.parse('def f(s, R):\n    if torch.allclose(s, torch.zeros_like(s)):\n        raise ValueError\n    if not torch.allclose(R, R.mT):\n        raise ValueError\n'
                   '    if (s.abs() < 1e-6).any():\n        raise ValueError\n').body[0]
    got = [[pol for _, pol in _all_reductions(n.test)] for n in ast.walk(fx) if isinstance(n, ast.If)]
    if got != [[True], [False], []]:
        raise AnalysisError('C11.QUANT: fixture no longer classified (%r)' % got)
    return res


@guarded
def rule_quat(repo, tier):
    """Exact polynomial verification of the branch formulas of mat2SO3.  For R = R(w, x, y, z), the rotation matrix of a unit quaternion (entries
    quadratic in its components), every candidate vector must be a positive multiple of the quaternion itself: candidate_k = 4 c_k (w, x, y, z) and its
    pivot t_k = 4 c_k^2 for one component c_k, so that candidate_k / (2 sqrt(t_k)) = +-(w, x, y, z).  The sixteen candidate entries and four pivots are read
    from the source, evaluated as polynomials in (w, x, y, z) (exact rational arithmetic, reduced modulo w^2 + x^2 + y^2 + z^2 = 1) and compared; the
    order of the components inside a candidate is taken from the final index_select that turns it into the stored (x, y, z, w) layout."""
    from .. import series
    from ..limits import Evaluator
    from ..series import Unsupported, Inconclusive, INF
    res = RuleResult('C11.QUAT', 'mat2SO3: each of the four candidate vectors is 4 c (w, x, y, z) and its pivot 4 c^2 for one quaternion component c, as polynomial '
                     'identities in the components of a unit quaternion (all 16 entries and 4 pivots), with the component order fixed by the final index_select', floor=4)
    f = repo.func(CV, 'mat2SO3')
    order = ['w', 'x', 'y', 'z']
    ring, gens, rings = series.tower(order)
    W, X, Y, Z = (gens[v] for v in order)
    mul, add, sub, sc = ring.mul, ring.add, ring.sub, ring.scale
    sq = lambda a: mul(a, a)
    two = lambda a: sc(a, 2)
    R = [[sub(add(sq(W), sq(X)), add(sq(Y), sq(Z))), two(sub(mul(X, Y), mul(W, Z))), two(add(mul(X, Z), mul(W, Y)))],
         [two(add(mul(X, Y), mul(W, Z))), sub(add(sq(W), sq(Y)), add(sq(X), sq(Z))), two(sub(mul(Y, Z), mul(W, X)))],
         [two(sub(mul(X, Z), mul(W, Y))), two(add(mul(Y, Z), mul(W, X))), sub(add(sq(W), sq(Z)), add(sq(X), sq(Y)))]]
    S_ = sub(ring.one(), add(sq(X), add(sq(Y), sq(Z))))          # w^2 on the unit sphere

    def reduce(p):
        out = ring.zero()
        for e, c in p.c.items():
            term = series.S({e % 2: c}, INF)
            for _ in range(e // 2):
                term = mul(term, S_)
            out = add(out, term)
        return out

    def is_zero(p):
        p = reduce(p)
        return ring.known_zero(p) or all(ring.base.known_zero(v) or _allzero(ring.base, v) for v in p.c.values())

    def _allzero(rg, v):
        if isinstance(rg, series.QRing):
            return v == 0
        return all(_allzero(rg.base, c) for c in v.c.values())

    pm = f.pos_params[0]
    vm = {}
    for i in range(3):
        for j in range(3):
            for form, (a, b) in (('%s[..., %d, %d]', (i, j)), ('%s.mT[..., %d, %d]', (j, i)), ('%s.transpose(-1, -2)[..., %d, %d]', (j, i)),
                                 ('%s.transpose(-2, -1)[..., %d, %d]', (j, i)), ('%s.mH[..., %d, %d]', (j, i))):
                vm[dump(ast.parse(form % (pm, i, j), mode='eval').body)] = R[a][b]
    inl = inline_straight(f.node)
    env = inl.env

    class _Ev(Evaluator):
        # B[..., i, j] for any expression B that is the input matrix, possibly sliced to [..., :3, :3] and transposed an odd / even number of times
        def ev(self, e):
            if isinstance(e, ast.Subscript) and isinstance(e.slice, ast.Tuple) and len(e.slice.elts) == 3 and isinstance(e.slice.elts[0], ast.Constant) \
                    and e.slice.elts[0].value is Ellipsis and all(isinstance(x, ast.Constant) and isinstance(x.value, int) for x in e.slice.elts[1:]):
                i, j = e.slice.elts[1].value, e.slice.elts[2].value
                b, tr = e.value, False
                while True:
                    if isinstance(b, ast.Attribute) and b.attr in ('mT', 'mH'):
                        b, tr = b.value, not tr
                    elif isinstance(b, ast.Call) and isinstance(b.func, ast.Attribute) and b.func.attr in ('transpose', 'swapaxes') and \
                            sorted(src(a_).replace(' ', '') for a_ in b.args) == ['-1', '-2']:
                        b, tr = b.func.value, not tr
                    elif isinstance(b, ast.Subscript) and src(b.slice).replace(' ', '') in ('...,:3,:3', '...,0:3,0:3'):
                        b = b.value
                    elif isinstance(b, ast.Call) and isinstance(b.func, ast.Attribute) and b.func.attr in ('clone', 'contiguous', 'detach', 'to', 'type_as'):
                        b = b.func.value
                    else:
                        break
                if 0 <= i < 3 and 0 <= j < 3:
                    return R[j][i] if tr else R[i][j]
            return super().ev(e)

    def ev(e):
        return _Ev(ring, vm, ('atom', ('none',))).ev(e)
    # candidates: names bound to torch.stack([4 entries], -1); pivots: what divides them
    cands = {}
    for name, v in env.items():
        if isinstance(v, ast.Call) and dotted(v.func) == 'torch.stack' and v.args and isinstance(v.args[0], (ast.List, ast.Tuple)) and len(v.args[0].elts) == 4:
            cands[name] = v.args[0].elts
    if len(cands) < 4:
        raise AnalysisError('C11.QUAT: %d four-entry candidates found in mat2SO3' % len(cands))
    # internal component order from the final index_select
    perm = None
    for c in paths.calls_in(f.node):
        if isinstance(c.func, ast.Attribute) and c.func.attr == 'index_select' and len(c.args) == 2:
            for x in ast.walk(c.args[1]):
                if isinstance(x, ast.List) and len(x.elts) == 4:
                    try:
                        perm = [int(ast.literal_eval(y)) for y in x.elts]
                    except ValueError:
                        perm = None
    comp_of_slot = {}
    if perm is not None and sorted(perm) == [0, 1, 2, 3]:
        for j, name in enumerate(['x', 'y', 'z', 'w']):           # stored layout (x, y, z, w)
            comp_of_slot[perm[j]] = name
    elif perm is None:
        comp_of_slot = {0: 'x', 1: 'y', 2: 'z', 3: 'w'}
    else:
        raise AnalysisError('C11.QUAT: final component permutation not understood')
    vec = [gens[comp_of_slot[i]] for i in range(4)]
    # pivot of each candidate: the t whose mask multiplies it in the normaliser; paired by the shared mask name in the raw source
    pair = {}
    defs = {}
    for n in ast.walk(f.node):
        if isinstance(n, ast.Assign) and len(n.targets) == 1 and isinstance(n.targets[0], ast.Name):
            defs.setdefault(n.targets[0].id, []).append(n.value)
    prods = [(n.left, n.right) for n in ast.walk(f.node) if isinstance(n, ast.BinOp) and isinstance(n.op, ast.Mult) and
             isinstance(n.left, ast.Name) and isinstance(n.right, ast.Name)]
    by_mask = {}
    for a_, b_ in prods:
        for u, m in ((a_.id, b_.id), (b_.id, a_.id)):
            if m.startswith('mask') or 'mask' in m:
                by_mask.setdefault(m, []).append(u)
    for m, users in by_mask.items():
        qs = [u for u in users if u in cands]
        ts = [u for u in users if u not in cands]
        if len(qs) == 1 and len(ts) == 1:
            pair[qs[0]] = ts[0]
    n_ok = 0
    for qn, elts in sorted(cands.items()):
        try:
            comps = [ev(inl.value(e)) if not isinstance(e, ast.Name) else ev(env.get(e.id, e)) for e in elts]
            tn = pair.get(qn)
            tv = None
            if tn is not None:
                te = env.get(tn)
                # t_rep = t.unsqueeze(-1).repeat(...) : strip shape-only calls
                while isinstance(te, ast.Call) and isinstance(te.func, ast.Attribute) and te.func.attr in ('unsqueeze', 'repeat', 'expand', 'expand_as', 'view', 'reshape'):
                    te = te.func.value
                tv = ev(te)
        except (Unsupported, Inconclusive) as ex:
            res.inst({'function': f.fq, 'candidate': qn, 'decided': False, 'reason': str(ex)}, qn)
            continue
        hit = None
        for cname in order:
            c4 = sc(gens[cname], 4)
            if all(is_zero(sub(comps[i], mul(c4, vec[i]))) for i in range(4)):
                hit = cname
        piv_ok = hit is not None and tv is not None and is_zero(sub(tv, mul(sc(gens[hit], 4), gens[hit])))
        res.inst({'function': f.fq, 'candidate': qn, 'is 4 c (w,x,y,z) for c': hit, 'pivot': tn, 'pivot is 4 c^2': piv_ok,
                  'component order (slots)': [comp_of_slot[i] for i in range(4)]}, qn)
        if hit is None:
            # name the offending entries: try each c and report the best match
            best = None
            for cname in order:
                c4 = sc(gens[cname], 4)
                bad = [i for i in range(4) if not is_zero(sub(comps[i], mul(c4, vec[i])))]
                if best is None or len(bad) < len(best[1]):
                    best = (cname, bad)
            res.add(Finding('C11.QUAT', f, 'candidate `%s` of mat2SO3 is not a multiple of the quaternion: with c = %s the entries %s (`%s`) differ from 4 c * %s - on the rotations '
                            'that select this branch the returned quaternion has a wrong component or sign (e.g. the inverse rotation)'
                            % (qn, best[0], best[1], ', '.join(src(elts[i])[:40] for i in best[1]), [comp_of_slot[i] for i in best[1]]), construct='candidate|' + qn))
        elif not piv_ok:
            res.add(Finding('C11.QUAT', f, 'candidate `%s` is 4 %s (w, x, y, z) but the pivot it is normalised with (%s) is not 4 %s^2: the result is not a unit quaternion'
                            % (qn, hit, tn, hit), construct='pivot|' + qn))
        else:
            n_ok += 1
    return res


@guarded
def rule_angle_range(repo, tier):
    """"... with the returned angles in their principal ranges."  Every alternative of the three returned angles is a principal-value function (atan2 in
    (-pi, pi], asin in [-pi/2, pi/2], acos) times a factor of modulus at most one (a sign, pm(.)), or a constant zero.  A multiple such as 2 * atan2(x, w) ranges
    over (-2 pi, 2 pi]: the quaternion with w < 0 of a gimbal-locked rotation gets a yaw outside the principal range."""
    res = RuleResult('C11.ARANGE', 'LieTensor.euler: every alternative of the returned roll / pitch / yaw is +-1 times a principal-value function (atan2 / asin), or is '
                     'reduced to the principal range (atan2(sin, cos), remainder) - never a multiple of one', floor=3)
    f = repo.func('pypose.lietensor.lietensor', 'LieTensor.euler')
    rets = returns_of(f.node)
    v = inline_straight(f.node, upto=rets[-1]).value(rets[-1].value) if rets else None
    if not (isinstance(v, ast.Call) and dotted(v.func) == 'torch.stack' and v.args and isinstance(v.args[0], (ast.List, ast.Tuple)) and len(v.args[0].elts) == 3):
        raise AnalysisError('C11.ARANGE: LieTensor.euler no longer returns torch.stack([roll, pitch, yaw])')

    def alts(e):
        if isinstance(e, ast.Call) and dotted(e.func) == 'torch.where' and len(e.args) == 3:
            return alts(e.args[1]) + alts(e.args[2])
        if isinstance(e, ast.IfExp):
            return alts(e.body) + alts(e.orelse)
        return [e]

    PRINCIPAL = ('atan2', 'arctan2', 'asin', 'arcsin', 'acos', 'arccos', 'atan', 'arctan')

    def bound(e):
        """multiplier m such that |e| <= m * (principal bound); None if not recognised"""
        if isinstance(e, ast.Constant) and isinstance(e.value, (int, float)):
            return 0 if e.value == 0 else None
        if isinstance(e, ast.Call):
            nm = (dotted(e.func) or (e.func.attr if isinstance(e.func, ast.Attribute) else '')).split('.')[-1]
            if nm in PRINCIPAL:
                return 1
            if nm in ('zeros_like', 'zeros'):
                return 0
            if nm in ('remainder', 'fmod'):
                return 1
            if nm in ('clone', 'detach', 'squeeze', 'unsqueeze', 'type_as', 'to') and isinstance(e.func, ast.Attribute):
                return bound(e.func.value)
        if isinstance(e, ast.UnaryOp) and isinstance(e.op, (ast.USub, ast.UAdd)):
            return bound(e.operand)
        if isinstance(e, ast.BinOp) and isinstance(e.op, ast.Mult):
            def factor(x):
                if isinstance(x, ast.Constant) and isinstance(x.value, (int, float)):
                    return abs(x.value)
                if isinstance(x, ast.UnaryOp) and isinstance(x.op, ast.USub):
                    return factor(x.operand)
                if isinstance(x, ast.Call) and (dotted(x.func) or '').split('.')[-1] in ('pm', 'sign', 'sgn'):
                    return 1
                if isinstance(x, ast.BinOp) and isinstance(x.op, ast.Mult):
                    a_, b_ = factor(x.left), factor(x.right)
                    return None if a_ is None or b_ is None else a_ * b_
                return None
            for a_, b_ in ((e.left, e.right), (e.right, e.left)):
                fa, bb = factor(a_), bound(b_)
                if fa is not None and bb is not None:
                    return fa * bb
            return None
        return None
    for name, e in zip(('roll', 'pitch', 'yaw'), v.args[0].elts):
        for a in alts(e):
            m = bound(a)
            res.inst({'function': f.fq, 'angle': name, 'alternative': src(a)[:60], 'multiple of the principal range': m}, (name, src(a)[:70]))
            if m is None:
                raise AnalysisError('C11.ARANGE: alternative `%s` of %s not understood' % (src(a)[:50], name))
            if m > 1:
                res.add(Finding('C11.ARANGE', f, 'the %s alternative `%s` is %g times a principal-value function: it ranges over %g times the principal interval, e.g. a yaw in '
                                '(-2 pi, 2 pi] for gimbal-locked rotations whose quaternion has w < 0' % (name, src(a)[:60], m, m), node=rets[-1],
                                construct='angle beyond the principal range|' + name))
    return res


# ---------------------------------------------------------------- EULERQ: the quaternion euler2SO3 builds, as polynomials in the half-angle sines / cosines

from fractions import Fraction as _Fr      # noqa: E402


def _pmul(a, b):
    out = {}
    for m1, c1 in a.items():
        for m2, c2 in b.items():
            d = dict(m1)
            for s, e in m2:
                d[s] = d.get(s, 0) + e
            k = tuple(sorted(d.items()))
            out[k] = out.get(k, 0) + c1 * c2
    return {k: v for k, v in out.items() if v != 0}


def _padd(a, b, sg=1):
    out = dict(a)
    for k, v in b.items():
        out[k] = out.get(k, 0) + sg * v
    return {k: v for k, v in out.items() if v != 0}


def _pconst(c):
    return {(): _Fr(c)} if c else {}


def _preduce(p):
    """modulo c_k^2 + s_k^2 = 1: every s_k^2 is replaced by 1 - c_k^2 (normal form)"""
    changed = True
    while changed:
        changed = False
        out = {}
        for m, c in p.items():
            d = dict(m)
            hit = next((s for s, e in d.items() if s.startswith('s') and e >= 2), None)
            if hit is None:
                out[m] = out.get(m, 0) + c
                continue
            changed = True
            d[hit] -= 2
            if d[hit] == 0:
                del d[hit]
            k1 = tuple(sorted(d.items()))
            out[k1] = out.get(k1, 0) + c
            d2 = dict(d)
            cs = 'c' + hit[1:]
            d2[cs] = d2.get(cs, 0) + 2
            k2 = tuple(sorted(d2.items()))
            out[k2] = out.get(k2, 0) - c
        p = {k: v for k, v in out.items() if v != 0}
    return p


def _hamilton(q1, q2):
    x1, y1, z1, w1 = q1
    x2, y2, z2, w2 = q2
    M, A = _pmul, _padd
    w = A(A(A(M(w1, w2), M(x1, x2), -1), M(y1, y2), -1), M(z1, z2), -1)
    x = A(A(A(M(w1, x2), M(x1, w2)), M(y1, z2)), M(z1, y2), -1)
    y = A(A(A(M(w1, y2), M(y1, w2)), M(z1, x2)), M(x1, z2), -1)
    z = A(A(A(M(w1, z2), M(z1, w2)), M(x1, y2)), M(y1, x2), -1)
    return [x, y, z, w]


def _euler_quat(f):
    """abstract evaluation of euler2SO3: angles (component, scale), trig vectors / symbols, polynomials in c0 s0 c1 s1 c2 s2 (half-angle cosine / sine of roll,
    pitch, yaw), quaternions (x, y, z, w) of polynomials.  -> (quaternion, [notes])"""
    env = {f.pos_params[0]: ('ang', None, _Fr(1))}
    PASS = {'reshape', 'view', 'lview', 'contiguous', 'clone', 'to', 'float', 'double', 'flatten', 'unsqueeze', 'squeeze', 'type_as'}

    def comp(idx):
        e = idx.elts[-1] if isinstance(idx, ast.Tuple) else idx
        if isinstance(e, ast.Constant) and isinstance(e.value, int):
            return e.value % 3
        if isinstance(e, ast.UnaryOp) and isinstance(e.op, ast.USub) and isinstance(e.operand, ast.Constant):
            return (-e.operand.value) % 3
        return None

    def ev(e):
        if isinstance(e, ast.Constant) and isinstance(e.value, (int, float)) and not isinstance(e.value, bool):
            return _pconst(_Fr(e.value).limit_denominator(1 << 20))
        if isinstance(e, ast.Name):
            if e.id in env:
                return env[e.id]
            raise AnalysisError('C11.EULERQ: `%s` is not bound in the abstraction' % e.id)
        if isinstance(e, ast.Attribute) and e.attr == 'shape':
            return ('shape',)
        if isinstance(e, ast.Subscript):
            v = ev(e.value)
            if isinstance(v, tuple) and v[0] in ('ang', 'trig') and v[1] is None:
                k = comp(e.slice)
                if k is None:
                    raise AnalysisError('C11.EULERQ: cannot read the component selected by `%s`' % src(e)[:40])
                if v[0] == 'ang':
                    return ('ang', k, v[2])
                return {((v[2] + str(k), 1),): _Fr(1)}
            if isinstance(v, tuple) and v[0] == 'shape':
                return v
            if isinstance(v, dict):
                return v                                     # a slice of a per-item scalar (zeros_like(half[:, 0])[...]) is that scalar
            raise AnalysisError('C11.EULERQ: cannot index `%s`' % src(e)[:40])
        if isinstance(e, ast.UnaryOp) and isinstance(e.op, ast.USub):
            v = ev(e.operand)
            if isinstance(v, dict):
                return _padd({}, v, -1)
            if isinstance(v, list):
                return [_padd({}, c, -1) for c in v]
            if isinstance(v, tuple) and v[0] == 'ang':
                return ('ang', v[1], -v[2])
        if isinstance(e, ast.BinOp):
            l, r = ev(e.left), ev(e.right)
            la, ra = isinstance(l, tuple) and l[0] == 'ang', isinstance(r, tuple) and r[0] == 'ang'
            if isinstance(e.op, (ast.Mult, ast.MatMult)) and isinstance(l, list) and isinstance(r, list):
                return _hamilton(l, r)
            if isinstance(e.op, ast.Mult):
                if la and isinstance(r, dict) and set(r) <= {()}:
                    return ('ang', l[1], l[2] * r.get((), 0))
                if ra and isinstance(l, dict) and set(l) <= {()}:
                    return ('ang', r[1], r[2] * l.get((), 0))
                if isinstance(l, dict) and isinstance(r, dict):
                    return _pmul(l, r)
            if isinstance(e.op, ast.Div):
                if isinstance(r, dict) and set(r) == {()}:
                    if la:
                        return ('ang', l[1], l[2] / r[()])
                    if isinstance(l, dict):
                        return {k: v / r[()] for k, v in l.items()}
            if isinstance(e.op, (ast.Add, ast.Sub)) and isinstance(l, dict) and isinstance(r, dict):
                return _padd(l, r, 1 if isinstance(e.op, ast.Add) else -1)
            raise AnalysisError('C11.EULERQ: cannot evaluate `%s`' % src(e)[:60])
        if isinstance(e, ast.Call):
            fn = dotted(e.func) or ''
            if isinstance(e.func, ast.Attribute) and not fn.startswith('torch.'):
                m = e.func.attr
                if m in PASS:
                    return ev(e.func.value)
                if m in ('cos', 'sin'):
                    return trig(m[0], ev(e.func.value), e)
            if fn in ('torch.cos', 'torch.sin') and len(e.args) == 1:
                return trig(fn[6], ev(e.args[0]), e)
            if fn in ('torch.zeros_like', 'torch.ones_like'):
                return _pconst(0 if 'zeros' in fn else 1)
            if fn in ('torch.stack', 'torch.cat') and e.args and isinstance(e.args[0], (ast.List, ast.Tuple)) and len(e.args[0].elts) == 4:
                vs = [ev(x) for x in e.args[0].elts]
                if all(isinstance(v, dict) for v in vs):
                    return vs
            if fn.split('.')[-1] in ('SO3', 'LieTensor') and e.args:
                v = ev(e.args[0])
                if isinstance(v, list):
                    return v
            if fn in ('torch.tensor', 'torch.as_tensor', 'torch.atleast_1d', 'torch.atleast_2d') and e.args:
                return ev(e.args[0])
            raise AnalysisError('C11.EULERQ: cannot evaluate the call `%s`' % src(e)[:60])
        raise AnalysisError('C11.EULERQ: cannot evaluate `%s`' % src(e)[:60])

    notes = []

    def trig(kind, a, node):
        if not (isinstance(a, tuple) and a[0] == 'ang'):
            raise AnalysisError('C11.EULERQ: %s of something that is not an angle (`%s`)' % (kind, src(node)[:40]))
        if abs(a[2]) != _Fr(1, 2):
            notes.append((node, 'the %s is taken of %s times the angle, the quaternion needs the half angle' % ('cosine' if kind == 'c' else 'sine', a[2])))
        sg = -1 if (a[2] < 0 and kind == 's') else 1
        if a[1] is None:
            if sg < 0:
                raise AnalysisError('C11.EULERQ: sine of the negated angle vector')
            return ('trig', None, kind)
        return {((kind + str(a[1]), 1),): _Fr(sg)}

    def bind(t, v):
        if isinstance(t, ast.Name):
            env[t.id] = v
        elif isinstance(t, (ast.Tuple, ast.List)) and isinstance(v, _Seq) and len(t.elts) == len(v.items):
            for tt, vv in zip(t.elts, v.items):
                bind(tt, vv)
        else:
            raise AnalysisError('C11.EULERQ: cannot bind `%s`' % src(t)[:40])

    class _Seq:
        def __init__(self, items): self.items = items
    for st in f.node.body:
        if isinstance(st, ast.Expr) and isinstance(st.value, ast.Constant) or __import__('sa.core', fromlist=['x']).as_assert(st) is not None:
            continue
        if isinstance(st, ast.If) and any(isinstance(c, ast.Call) and dotted(c.func) in ('torch.is_tensor', 'isinstance') for c in ast.walk(st.test)):
            continue                                               # the conversion of a list argument to a tensor
        if isinstance(st, ast.Return):
            v = ev(st.value)
            if not isinstance(v, list):
                raise AnalysisError('C11.EULERQ: euler2SO3 does not return a quaternion in the abstraction')
            return v, notes
        if isinstance(st, ast.Assign) and len(st.targets) == 1:
            t, v = st.targets[0], st.value
            if isinstance(t, (ast.Tuple, ast.List)) and isinstance(v, (ast.Tuple, ast.List)):
                bind(t, _Seq([ev(x) for x in v.elts]))
            else:
                bind(t, ev(v))
            continue
        raise AnalysisError('C11.EULERQ: statement `%s` of euler2SO3 is outside the straight-line form the evaluator reads' % src(st)[:50])
    raise AnalysisError('C11.EULERQ: euler2SO3 has no return')


@guarded
def rule_eulerq(repo):
    """euler2SO3(roll, pitch, yaw) is the quaternion of Rz(yaw) Ry(pitch) Rx(roll) - the convention LieTensor.euler() extracts and the formula of the docstring:
        x = sr cp cy - cr sp sy,  y = cr sp cy + sr cp sy,  z = cr cp sy - sr sp cy,  w = cr cp cy + sr sp sy      (c., s. of the HALF angles)
    The body is evaluated over polynomials in the six half-angle sines / cosines (quaternion products are expanded by the Hamilton product in the library's
    (x, y, z, w) order) and compared with these four polynomials modulo c^2 + s^2 = 1, up to the common sign of a quaternion.  A product of elementary rotations in
    another order (Rx Ry Rz) differs in the sign of the second term of every component."""
    res = RuleResult('C11.EULERQ', 'euler2SO3 builds the quaternion of Rz(yaw) Ry(pitch) Rx(roll): its four components, as polynomials in the half-angle sines and cosines, '
                     'equal sr cp cy - cr sp sy, cr sp cy + sr cp sy, cr cp sy - sr sp cy, cr cp cy + sr sp sy (modulo c^2 + s^2 = 1 and a common sign)', floor=4)
    f = repo.func(CV, 'euler2SO3')
    q, notes = _euler_quat(f)

    def mono(*syms):
        return tuple(sorted((s, 1) for s in syms))
    want = [{mono('s0', 'c1', 'c2'): _Fr(1), mono('c0', 's1', 's2'): _Fr(-1)}, {mono('c0', 's1', 'c2'): _Fr(1), mono('s0', 'c1', 's2'): _Fr(1)},
            {mono('c0', 'c1', 's2'): _Fr(1), mono('s0', 's1', 'c2'): _Fr(-1)}, {mono('c0', 'c1', 'c2'): _Fr(1), mono('s0', 's1', 's2'): _Fr(1)}]
    got = [_preduce(p) for p in q]
    wantr = [_preduce(p) for p in want]
    same = all(g == w for g, w in zip(got, wantr))
    neg = all(g == _padd({}, w, -1) for g, w in zip(got, wantr))

    def show(p):
        return ' '.join('%+g %s' % (float(c), '*'.join(s if e == 1 else '%s^%d' % (s, e) for s, e in m) or '1') for m, c in sorted(p.items())) or '0'
    for i, nm in enumerate('xyzw'):
        ok = got[i] == wantr[i] or (neg and not same)
        res.inst({'component': nm, 'polynomial (0 roll, 1 pitch, 2 yaw)': show(got[i]), 'documented': show(wantr[i]), 'equal': ok}, nm)
    for node, msg in notes:
        res.add(Finding('C11.EULERQ', f, msg, node=node, construct='half angle'))
    if not (same or neg):
        bad = [nm for i, nm in enumerate('xyzw') if got[i] != wantr[i]]
        res.add(Finding('C11.EULERQ', f, 'euler2SO3 does not build the quaternion of Rz(yaw) Ry(pitch) Rx(roll): component(s) %s differ, e.g. %s = %s where the convention '
                        '(and LieTensor.euler, its inverse) has %s' % (bad, bad[0], show(got['xyzw'.index(bad[0])]), show(wantr['xyzw'.index(bad[0])])),
                        construct='euler quaternion|' + ','.join(bad)))
    return res


def _rules_core(repo, tier):
    from ..effects import rule_pure
    t = [(CV, q) for q in ('mat2SO3', 'mat2SE3', 'mat2Sim3', 'mat2RxSO3', 'from_matrix', 'euler2SO3', 'quat2unit')]
    return rule_mp_pair(repo) + [rule_fwd(repo), rule_raise(repo), rule_disp(repo), rule_lt(repo), rule_gimbal(repo, tier), rule_degree(repo, tier), rule_tcol(repo, tier), rule_pivots(repo, tier), rule_quant(repo, tier), rule_quat(repo, tier), rule_angle_range(repo, tier),
                                 rule_pure(repo, 'C11.PURE', 'the converters do not write into the matrix / angles they are given (also not on the rejecting '
                                           'path): converting the same tensor twice gives the same element', t)]


@guarded
def rule_shape(repo):
    from .c06 import euler_shape_clause
    res = RuleResult('C11.SHAPE', 'euler2SO3 views its result with the batch shape its argument had before it was flattened to (-1, 3): every batch rank keeps its shape', floor=1)
    return euler_shape_clause(repo, res, 'C11.SHAPE')


@guarded
def rule_eulerarg(repo):
    """euler2SO3 reads its argument as (.., 3) triples (roll, pitch, yaw) for EVERY rank, the un-batched (3,) included: the width assertion is the first thing that
    happens to the tensor.  A rank test that re-builds the argument first ("a vector of N yaw angles") turns the un-batched triple into three yaw angles."""
    res = RuleResult('C11.EULERARG', 'euler2SO3 asserts the width 3 of its argument before anything re-shapes or re-builds it: no rank-dependent re-interpretation of '
                     'the last axis', floor=1)
    f = repo.func(CV, 'euler2SO3')
    p0 = f.pos_params[0]
    from ..core import as_assert
    asserts = [n for n in ast.walk(f.node) if as_assert(n) is not None and any(isinstance(x, ast.Name) and x.id == p0 for x in ast.walk(as_assert(n))) and
               any(isinstance(x, ast.Constant) and x.value == 3 for x in ast.walk(as_assert(n)))]
    if not asserts:
        raise AnalysisError('C11.EULERARG: euler2SO3 no longer asserts the width of its argument')
    first = min(a.lineno for a in asserts)
    n = 0
    for a in ast.walk(f.node):
        if isinstance(a, ast.Assign) and a.lineno < first and any(isinstance(t, ast.Name) and t.id == p0 for t in a.targets):
            conv = isinstance(a.value, ast.Call) and dotted(a.value.func) in ('torch.tensor', 'torch.as_tensor', 'torch.Tensor') and len(a.value.args) == 1 and \
                isinstance(a.value.args[0], ast.Name) and a.value.args[0].id == p0
            n += 1
            res.inst({'function': f.fq, 'rebinding before the width check': src(a)[:60], 'is the tensor conversion': conv}, (f.fq, src(a)[:60]))
            if not conv:
                res.add(Finding('C11.EULERARG', f, '`%s` re-builds the argument before its width is checked: an input form decided by rank (a vector of yaw angles) swallows '
                                'the un-batched (3,) triple, which comes back as three rotations about z' % src(a)[:60], node=a, construct='argument re-interpreted before the width check'))
    res.inst({'function': f.fq, 'width assertion': src(asserts[0])[:50]}, (f.fq, 'assert'))
    return res


def rules(repo, tier):
    from ..memo import rule_memo
    from ..optional import rule_optional
    from ..mode import mode_rules
    from ..callsig import rule_callsig
    from ..docsig import rule_docsig
    from ..axisdefault import rule_axisdefault
    return list(_rules_core(repo, tier)) + [rule_shape(repo), rule_eulerarg(repo), rule_eulerq(repo), rule_crop(repo), rule_validated(repo), __import__('sa.mode', fromlist=['x']).rule_guardset(repo, 'C11.GUARDSL', ['pypose.lietensor.lietensor']), rule_memo(repo, 'C11.MEMO', 'history independence: nothing computed from the contents of a tensor argument is kept '
                                                      'under the identity, address or version of that tensor, in module-level storage, or published from a generator '
                                                      'before it is complete - a later call with the same object and other contents must not be answered from it',
                                                      ['pypose.lietensor.convert'], floor=3),
            rule_optional(repo, 'C11.OPT', ['pypose.lietensor.convert'])] + mode_rules(repo, 'C11', ['pypose.lietensor.convert']) + [rule_callsig(repo, 'C11.SIG', ['pypose.lietensor.convert']), rule_docsig(repo, 'C11.DOC', ['pypose.lietensor.convert'])] + [
            rule_axisdefault(repo, 'C11.AXDEF', ['pypose.lietensor.convert']), __import__('sa.axisdefault', fromlist=['x']).rule_frontaxis(repo, 'C11.BAX', ['pypose.lietensor.lietensor', 'pypose.lietensor.operation', 'pypose.lietensor.basics', 'pypose.lietensor.utils', 'pypose.lietensor.convert']), __import__('sa.axisdefault', fromlist=['x']).rule_viewarg(repo, 'C11.VIEW', ['pypose.lietensor.lietensor', 'pypose.lietensor.operation', 'pypose.lietensor.basics', 'pypose.lietensor.convert', 'pypose.basics.ops'])]
