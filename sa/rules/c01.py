"""C01 - Exp: structural clauses (mask partitions, guarded divisions, layout typing, dispatch)."""
from .lie_common import *   # noqa

EXP_TARGETS = [(OP, 'so3_Exp.forward'), (OP, 'so3_Jl'), (OP, 'calcQ'), (OP, 'rxso3_Ws')]


def _rules_core(repo, tier):
    out = rule_masks(repo, 'C01.MP', 'C01.GD', EXP_TARGETS, floor=10)
    out.append(rule_layout(repo, 'C01.LT', [
        ('so3_Exp', ['so3'], 'SO3'), ('se3_Exp', ['se3'], 'SE3'), ('rxso3_Exp', ['rxso3'], 'RxSO3'), ('sim3_Exp', ['sim3'], 'Sim3')], floor=4))
    inv = {v: k for k, v in ALG.items()}
    d = rule_dispatch(repo, 'C01.DT', 'Exp', list(ALG.values()), lambda a: a + '_Exp', lambda a: inv[a] + '_type', floor=6, wrapper='Exp')
    # group types must not define a working Exp: they inherit LieType.Exp which raises
    for G in GROUPS:
        ci = repo.cls(LT, G + 'Type')
        d.inst({'class': ci.fq, 'defines_Exp': 'Exp' in ci.methods}, ci.fq)
        if 'Exp' in ci.methods:
            f = ci.methods['Exp']
            if not any(isinstance(n, ast.Raise) for n in ast.walk(f.node)):
                d.add(Finding('C01.DT', f, 'group type %sType defines an Exp that does not raise' % G, construct='group Exp'))
    out.append(d)
    out.append(rule_dtype(repo, 'C01.DTYPE', EXP_TARGETS + [(OP, 'se3_Exp.forward'), (OP, 'sim3_Exp.forward'), (OP, 'rxso3_Exp.forward')], floor=7))
    return out


def rules(repo, tier):
    from ..memo import rule_memo
    from ..effects import rule_pure
    return list(_rules_core(repo, tier)) + [rule_pure(repo, 'C01.PURE', 'Exp and its coefficient helpers write neither into their argument nor into tensors that '
                                                      'outlive the call (cached limits / constants filled in place): the value for one input never leaks into a later call',
                                                      EXP_TARGETS + [(OP, 'se3_Exp.forward'), (OP, 'sim3_Exp.forward'), (OP, 'rxso3_Exp.forward')]), rule_memo(repo, 'C01.MEMO', 'history independence: nothing computed from the contents of a tensor argument is kept '
                                                      'under the identity, address or version of that tensor, in module-level storage, or published from a generator '
                                                      'before it is complete - a later call with the same object and other contents must not be answered from it',
                                                      ['pypose.lietensor.lietensor', 'pypose.lietensor.operation', 'pypose.lietensor.basics', 'pypose.lietensor.utils'], floor=3)]
