"""C01 - Exp: structural clauses (mask partitions, guarded divisions, layout typing, dispatch)."""
from .lie_common import *   # noqa

EXP_TARGETS = [(OP, 'so3_Exp.forward'), (OP, 'so3_Jl'), (OP, 'calcQ'), (OP, 'rxso3_Ws')]


@guarded
def rule_wsign(repo, tier):
    """Rotation angles beyond pi are in the stated range, and there the real part cos(theta/2) of the unit quaternion is NEGATIVE.  By interval
    analysis of the expression stored as the real part in the closed-form (large-angle) branch of so3_Exp.forward: its range must reach below
    zero.  sqrt(1 - sin^2), abs(cos), a norm ... are all >= 0 and give the quaternion of another rotation for theta in (pi, 3 pi)."""
    import math
    res = RuleResult('C01.WSIGN', 'so3_Exp.forward: the real quaternion part of the closed-form branch can take negative values (interval analysis): '
                     'angles in (pi, 3 pi) need cos(theta/2) < 0', floor=1)
    f = repo.func(OP, 'so3_Exp.forward')
    single = {}
    for n in ast.walk(f.node):
        if isinstance(n, ast.Assign) and len(n.targets) == 1 and isinstance(n.targets[0], ast.Name):
            single.setdefault(n.targets[0].id, []).append(n.value)

    def iv(e, depth=0):
        if depth > 12:
            return None
        if isinstance(e, ast.Constant) and isinstance(e.value, (int, float)):
            return (float(e.value), float(e.value))
        if isinstance(e, ast.Name):
            vs = single.get(e.id, [])
            return iv(vs[0], depth + 1) if len(vs) == 1 else None
        if isinstance(e, ast.Subscript):
            return iv(e.value, depth + 1)
        if isinstance(e, ast.UnaryOp) and isinstance(e.op, ast.USub):
            i = iv(e.operand, depth + 1)
            return None if i is None else (-i[1], -i[0])
        if isinstance(e, ast.Call):
            name = (dotted(e.func) or (e.func.attr if isinstance(e.func, ast.Attribute) else '')).split('.')[-1]
            args = list(e.args)
            if isinstance(e.func, ast.Attribute) and not (dotted(e.func) or '').startswith(('torch.', 'math.')):
                args = [e.func.value] + args
            if name in ('cos', 'sin'):
                return (-1.0, 1.0)
            if name in ('sqrt', 'abs', 'norm', 'square', 'exp', 'cosh'):
                return (0.0, float('inf'))
            if name in ('clone', 'clamp') and args:
                return iv(args[0], depth + 1)
            return None
        if isinstance(e, ast.BinOp):
            a, b = iv(e.left, depth + 1), iv(e.right, depth + 1)
            if isinstance(e.op, ast.Mult) and dump(e.left) == dump(e.right):
                return (0.0, float('inf'))
            if isinstance(e.op, ast.Pow) and isinstance(e.right, ast.Constant) and e.right.value in (2, 4, 0.5):
                return (0.0, float('inf'))
            if a is None or b is None:
                return None
            if isinstance(e.op, ast.Add):
                return (a[0] + b[0], a[1] + b[1])
            if isinstance(e.op, ast.Sub):
                return (a[0] - b[1], a[1] - b[0])
            if isinstance(e.op, ast.Mult):
                ps = [x * y for x in a for y in b if not (math.isinf(x) and y == 0) and not (math.isinf(y) and x == 0)]
                return (min(ps), max(ps)) if ps else None
        return None
    rets = returns_of(f.node)
    if len(rets) != 1:
        raise AnalysisError('C01.WSIGN: so3_Exp.forward has %d returns' % len(rets))
    cat = rets[0].value
    if isinstance(cat, ast.Name):          # `_ret = torch.cat([...]); return _ret`
        vs = single.get(cat.id, [])
        cat = vs[0] if len(vs) == 1 else cat
    parts = cat.args[0].elts if isinstance(cat, ast.Call) and cat.args and isinstance(cat.args[0], (ast.List, ast.Tuple)) else None
    if not parts or not isinstance(parts[-1], ast.Name):
        raise AnalysisError('C01.WSIGN: the real part of the quaternion returned by so3_Exp.forward was not recognised')
    real = parts[-1].id
    n = 0
    for st in ast.walk(f.node):
        if isinstance(st, ast.Assign) and len(st.targets) == 1 and isinstance(st.targets[0], ast.Subscript) and dotted(st.targets[0].value) == real:
            m = st.targets[0].slice
            if isinstance(m, ast.UnaryOp):       # the small-angle branch (~idx): a truncated series around 1, positive there
                continue
            n += 1
            r = iv(st.value)
            ok = r is None or r[0] < 0
            res.inst({'function': f.fq, 'real part (closed form)': src(st.value)[:60], 'range': r, 'can be negative': ok}, src(st.value))
            if r is None:
                res.unresolved += 1
            elif not ok:
                res.add(Finding('C01.WSIGN', f, 'the real part `%s` of the closed-form branch ranges over [%g, %g]: it is never negative, so for rotation '
                                'angles in (pi, 3 pi) the returned quaternion has the wrong sign relation between its real and imaginary parts - another '
                                'rotation' % (src(st.value)[:60], r[0], r[1]), node=st))
    if n == 0:
        raise AnalysisError('C01.WSIGN: no closed-form assignment to the real part found')
    return res


def _rules_core(repo, tier):
    out = rule_masks(repo, 'C01.MP', 'C01.GD', EXP_TARGETS, floor=10)
    out.append(rule_layout(repo, 'C01.LT', [
        ('so3_Exp', ['so3'], 'SO3'), ('se3_Exp', ['se3'], 'SE3'), ('rxso3_Exp', ['rxso3'], 'RxSO3'), ('sim3_Exp', ['sim3'], 'Sim3')], floor=4))
    inv = {v: k for k, v in ALG.items()}
    d = rule_dispatch(repo, 'C01.DT', 'Exp', list(ALG.values()), lambda a: a + '_Exp', lambda a: inv[a] + '_type', floor=6, wrapper='Exp')
    # group types must not define a working Exp: they inherit LieType.Exp which raises
    for G in GROUPS:
        ci = repo.cls(LT, G + 'Type')
        d.inst({'class': ci.fq, 'defines_Exp': 'Exp' in ci.methods}, ci.fq)
        if 'Exp' in ci.methods:
            f = ci.methods['Exp']
            if not any(isinstance(n, ast.Raise) for n in ast.walk(f.node)):
                d.add(Finding('C01.DT', f, 'group type %sType defines an Exp that does not raise' % G, construct='group Exp'))
    out.append(d)
    out.append(rule_wsign(repo, tier))
    from ..limits import rule_limit
    out.append(rule_limit(repo, 'C01.LIMIT', EXP_TARGETS, floor=16, decided_floor=16))
    out.append(rule_dtype(repo, 'C01.DTYPE', EXP_TARGETS + [(OP, 'se3_Exp.forward'), (OP, 'sim3_Exp.forward'), (OP, 'rxso3_Exp.forward')], floor=7))
    return out


@guarded
def rule_rawarg(repo):
    """The translation coupling of se3 / sim3 Exp (so3_Jl(phi), rxso3_Ws(phi, sigma)) is NOT periodic in the rotation angle: only the rotation Exp(phi) is.  The
    helpers therefore receive the rotation block of the argument as it was given; a block wrapped to the principal turn (remainder / fmod / % 2 pi, Log(Exp(.)),
    atan2, a where() between the two) gives the same quaternion and another translation for every |phi| >= 2 pi."""
    res = RuleResult('C01.RAWARG', 'se3_Exp / sim3_Exp hand the coupling helpers (so3_Jl, rxso3_Ws) the rotation (and scale) block of the argument as given - not wrapped to '
                     'the principal turn, which leaves the quaternion and changes the translation', floor=2)
    WRAP = {'remainder', 'fmod', 'atan2', 'Log', 'Exp', 'where', 'normalize', 'clamp', 'clamp_', 'round', 'floor'}
    for q, helper in (('se3_Exp.forward', 'so3_Jl'), ('sim3_Exp.forward', 'rxso3_Ws')):
        f = repo.func(OP, q)
        inl = inline_straight(f.node)
        calls = [c for st, env in inl.log for c in ast.walk(getattr(st, 'value', None) or ast.Pass()) if isinstance(c, ast.Call) and (dotted(c.func) or '') == helper]
        if not calls:
            raise AnalysisError('C01.RAWARG: %s no longer calls %s' % (q, helper))
        for c in calls:
            a = inl.value(c.args[0])
            wraps = [x for x in ast.walk(a) if (isinstance(x, ast.Call) and (dotted(x.func) or (x.func.attr if isinstance(x.func, ast.Attribute) else '')).split('.')[-1] in WRAP)
                     or (isinstance(x, ast.BinOp) and isinstance(x.op, ast.Mod))]
            res.inst({'function': f.fq, 'helper': helper, 'argument': src(a)[:70], 're-parametrised': bool(wraps)}, (f.fq, helper, src(c.args[0])[:30]))
            if wraps:
                res.add(Finding('C01.RAWARG', f, '%s receives `%s`: the rotation block is re-parametrised (`%s`) before the translation coupling is formed; the coupling is not '
                                'periodic in the angle, so Exp differs from the matrix exponential for every rotation of one turn or more' % (helper, src(a)[:60], src(wraps[0])[:40]),
                                node=c, construct='coupling argument re-parametrised|' + helper))
    return res


def rules(repo, tier):
    from ..memo import rule_memo
    from ..optional import rule_optional
    from ..mode import mode_rules
    from ..callsig import rule_callsig
    from ..docsig import rule_docsig
    from ..axisdefault import rule_axisdefault
    from ..effects import rule_pure
    return [__import__('sa.rules.c06', fromlist=['x']).rule_postcheck(repo, tier, 'C01.POSTCHK')] + __import__('sa.core', fromlist=['x']).reid([__import__('sa.rules.c03', fromlist=['x']).rule_sb(repo), __import__('sa.rules.c03', fromlist=['x']).rule_dt(repo)], 'C01') + [__import__('sa.rules.c06', fromlist=['x']).rule_bcast(repo, tier, 'C01')] + [rule_rawarg(repo)] + list(_rules_core(repo, tier)) + [rule_pure(repo, 'C01.PURE', 'Exp and its coefficient helpers write neither into their argument nor into tensors that '
                                                      'outlive the call (cached limits / constants filled in place): the value for one input never leaks into a later call',
                                                      EXP_TARGETS + [(OP, 'se3_Exp.forward'), (OP, 'sim3_Exp.forward'), (OP, 'rxso3_Exp.forward')]), rule_memo(repo, 'C01.MEMO', 'history independence: nothing computed from the contents of a tensor argument is kept '
                                                      'under the identity, address or version of that tensor, in module-level storage, or published from a generator '
                                                      'before it is complete - a later call with the same object and other contents must not be answered from it',
                                                      ['pypose.lietensor.lietensor', 'pypose.lietensor.operation', 'pypose.lietensor.basics', 'pypose.lietensor.utils'], floor=3),
            rule_optional(repo, 'C01.OPT', ['pypose.lietensor.lietensor', 'pypose.lietensor.operation', 'pypose.lietensor.basics', 'pypose.lietensor.utils'])] + mode_rules(repo, 'C01', ['pypose.lietensor.lietensor', 'pypose.lietensor.operation', 'pypose.lietensor.basics', 'pypose.lietensor.utils']) + [rule_callsig(repo, 'C01.SIG', ['pypose.lietensor.lietensor', 'pypose.lietensor.operation', 'pypose.lietensor.basics', 'pypose.lietensor.utils']), rule_docsig(repo, 'C01.DOC', ['pypose.lietensor.lietensor', 'pypose.lietensor.operation', 'pypose.lietensor.basics', 'pypose.lietensor.utils'])] + [
            rule_axisdefault(repo, 'C01.AXDEF', ['pypose.lietensor.lietensor', 'pypose.lietensor.operation', 'pypose.lietensor.basics', 'pypose.lietensor.utils', 'pypose.lietensor.convert', 'pypose.basics.ops']), __import__('sa.axisdefault', fromlist=['x']).rule_frontaxis(repo, 'C01.BAX', ['pypose.lietensor.lietensor', 'pypose.lietensor.operation', 'pypose.lietensor.basics', 'pypose.lietensor.utils', 'pypose.lietensor.convert']), __import__('sa.axisdefault', fromlist=['x']).rule_regroup(repo, 'C01.REGROUP', ['pypose.lietensor.lietensor', 'pypose.lietensor.operation', 'pypose.lietensor.basics', 'pypose.lietensor.utils', 'pypose.lietensor.convert']), __import__('sa.axisdefault', fromlist=['x']).rule_zerocmp(repo, 'C01.ZEROCMP', ['pypose.lietensor.lietensor', 'pypose.lietensor.operation', 'pypose.lietensor.basics', 'pypose.lietensor.utils', 'pypose.lietensor.convert']), __import__('sa.axisdefault', fromlist=['x']).rule_batchbranch(repo, 'C01.BIF', ['pypose.lietensor.lietensor', 'pypose.lietensor.operation', 'pypose.lietensor.basics', 'pypose.basics.ops'])]
