"""C07 - a GN/LM step is the documented linear solve: provenance / parity / ordering clauses of step()."""
import ast, copy
from ..core import RuleResult, Finding, AnalysisError, dotted, src, norm_construct, ClassInfo, guarded, guarded_list
from ..expr import Inliner, dump, parities, contains, subst, inline_straight, returns_of, rv
from .. import paths

OPT = 'pypose.optim.optimizer'
LT = 'pypose.lietensor.lietensor'


def _rel(n):
    return isinstance(n, ast.Attribute) and n.attr in ('solver', 'normalize_RWJ', 'corrector', 'diagonal', 'sparse', 'weight')


def _dense_paths(f):
    """paths of step() on which the dense (non-sparse) branch is taken and the solver is reached"""
    pths, trunc = paths.function_paths(f.node, limit=30000, strict=False, relevant=_rel,
                                       unroll=lambda l: 1)
    out = []
    for ev, ex in pths:
        sparse_true = any(e[0] == 'assume' and dotted(e[1]) == 'self.sparse' and e[2] for e in ev)
        if sparse_true:
            continue
        if any(e[0] == 'stmt' and any(dotted(c.func) == 'self.solver' for c in paths.calls_in(e[1])) for e in ev):
            out.append((ev, ex))
    return out


def _alternatives(e):
    """expand conditional expressions: list of (condition description, expr)"""
    for n in ast.walk(e):
        if isinstance(n, ast.IfExp):
            out = []
            for branch, tag in ((n.body, 'if ' + src(n.test)[:30]), (n.orelse, 'unless ' + src(n.test)[:30])):
                class R(ast.NodeTransformer):
                    def visit_IfExp(self, m, _n=n, _b=branch):
                        if dump(m) == dump(_n):
                            return copy.deepcopy(_b)
                        return self.generic_visit(m)
                e2 = R().visit(copy.deepcopy(e))
                for t2, x in _alternatives(e2):
                    out.append((tag + ((' & ' + t2) if t2 else ''), x))
            return out
    return [('', e)]


def _is_item(n, meth, i):
    return isinstance(n, ast.Call) and dotted(n.func) == '$item' and isinstance(n.args[0], ast.Call) and \
        isinstance(n.args[0].func, ast.Attribute) and n.args[0].func.attr == meth and isinstance(n.args[1], ast.Constant) and n.args[1].value == i


def _solver_args(f, ev):
    """inlined (A, b) handed to the solver on this path, over the atomic outputs $R, $W, $J of normalize_RWJ"""
    inl = Inliner()
    for e in ev:
        if e[0] == 'stmt':
            for c in paths.calls_in(e[1]):
                if dotted(c.func) == 'self.solver':
                    kw = {k.arg: k.value for k in c.keywords}
                    A = kw.get('A', c.args[0] if c.args else None)
                    b = kw.get('b', c.args[1] if len(c.args) > 1 else None)
                    if A is not None and b is not None:
                        return inl.value(A), inl.value(b), c
            inl.feed(e[1])
            st = e[1]
            if isinstance(st, ast.Assign) and isinstance(st.value, ast.Call) and isinstance(st.value.func, ast.Attribute) \
                    and st.value.func.attr == 'normalize_RWJ' and isinstance(st.targets[0], ast.Tuple) and len(st.targets[0].elts) == 3:
                for t, nm in zip(st.targets[0].elts, ('$R', '$W', '$J')):
                    if isinstance(t, ast.Name):
                        inl.env[t.id] = ast.Name(nm, ast.Load())
        elif e[0] == 'iter':
            inl.feed(e[1])
    return None


@guarded
def rule_sys(repo, tier):
    res = RuleResult('C07.SYS', 'provenance and sign parity at the solver call: GN solves (W)J delta = -(W)R, LM solves (J^T W J) delta = '
                     '-(J^T W) R, with R, J the outputs of normalize_RWJ; R enters b with odd parity, never A; J never enters b except '
                     'through J^T', floor=4)
    for cname in ('GaussNewton', 'LevenbergMarquardt'):
        f = __import__('sa.core', fromlist=['x']).ifexp_view(repo.func(OPT, cname + '.step'))
        pths = _dense_paths(f)
        if not pths:
            raise AnalysisError('C07.SYS: no dense path reaches the solver in %s.step' % cname)
        seen = set()
        for ev, ex in pths:
            sa = _solver_args(f, ev)
            if sa is None:
                continue
            A0, b0, call = sa
            for ta, A in _alternatives(A0):
                for tb, b in _alternatives(b0):
                    # keep only consistent alternatives (same condition taken on both sides)
                    if ta != tb and ta and tb:
                        continue
                    key = (dump(A), dump(b))
                    if key in seen:
                        continue
                    seen.add(key)
                    isR = lambda n: isinstance(n, ast.Name) and n.id == '$R'
                    isJ = lambda n: isinstance(n, ast.Name) and n.id == '$J'
                    isW = lambda n: isinstance(n, ast.Name) and n.id == '$W'
                    pR = parities(b, isR)
                    problems = []
                    if not pR:
                        problems.append('the right-hand side does not derive from the normalised residual R')
                    elif pR != {1}:
                        problems.append('the residual enters the right-hand side with parity %s (must be odd: b = -...R)' % sorted(pR, key=str))
                    if contains(A, isR):
                        problems.append('the residual R appears in the system matrix A')
                    if not contains(A, isJ):
                        problems.append('the system matrix A does not derive from the normalised Jacobian J')
                    pJ = parities(A, isJ)
                    if pJ and pJ != {0}:
                        problems.append('the Jacobian enters A with parity %s (must be even)' % sorted(pJ, key=str))
                    if cname == 'LevenbergMarquardt':
                        # A = J_T @ J ; b = -J_T @ R  with the same J_T, J_T built from J transposed
                        jt = None
                        if isinstance(A, ast.BinOp) and isinstance(A.op, ast.MatMult):
                            jt = A.left
                            if not isJ(A.right):
                                problems.append('A is not (J^T W) @ J: right factor is %s' % src(A.right)[:40])
                            tr = [n for n in ast.walk(jt) if isinstance(n, ast.Attribute) and n.attr in ('T', 'mT') and isJ(n.value)] + \
                                 [n for n in ast.walk(jt) if isinstance(n, ast.Call) and isinstance(n.func, ast.Attribute)
                                  and n.func.attr in ('t', 'transpose') and isJ(n.func.value)]
                            if not tr:
                                problems.append('the left factor of A is not built from the transposed Jacobian')
                            if not any(dump(n) == dump(jt) for n in ast.walk(b)):
                                problems.append('b is not built with the same J^T W factor as A')
                        else:
                            problems.append('A is not a product J^T W J: %s' % src(A)[:60])
                        # the weight enters both sides (J^T W J, J^T W R) or neither; a conditional on the weight decides both sides alike
                        cond_w = 'weight' in (ta or tb or '')
                        if contains(A, isW) != contains(b, isW) and (cond_w or not (ta or tb)):
                            problems.append('the weight multiplies only one side of (J^T W J) delta = -(J^T W) R')
                    else:
                        if contains(b, isJ):
                            problems.append('the Jacobian appears in the right-hand side of the Gauss-Newton system')
                        # weight on both sides or on neither
                        wA = contains(A, isW)
                        wb = contains(b, isW)
                        if wA != wb:
                            problems.append('the weight multiplies only one side of W J delta = -W R')
                    res.inst({'function': f.fq, 'case': (ta or tb or 'unconditional'), 'A': src(A)[:70], 'b': src(b)[:70], 'ok': not problems},
                             (f.fq, key))
                    for p in problems:
                        res.add(Finding('C07.SYS', f, p + ' [case %s: A=%s, b=%s]' % (ta or tb or '-', src(A)[:50], src(b)[:50]), node=call,
                                        construct=p[:90] + ' | ' + (ta or tb or '-')))
    return res


def _corrector_loop(f):
    """the for-loop that applies the correctors: stores into R[i] and J[i] from a call on self.corrector[...]"""
    best = (None, [])
    for n in ast.walk(f.node):
        if isinstance(n, ast.For):
            calls = [c for c in paths.calls_in(n) if isinstance(c.func, ast.Subscript) and dotted(c.func.value) == 'self.corrector']
            if calls:
                best = (n, calls)      # ast.walk is breadth first: the last hit is the innermost loop
    return best


@guarded
def rule_corr(repo, tier):
    res = RuleResult('C07.CORR', 'R and J handed to normalize_RWJ have passed through the configured corrector (corrector[0] if there is '
                     'one, else corrector[i]) on every dense path; GN and LM select and construct correctors/kernels identically', floor=4)
    loops = {}
    for cname in ('GaussNewton', 'LevenbergMarquardt'):
        f = repo.func(OPT, cname + '.step')
        loop, calls = _corrector_loop(f)
        if loop is None:
            res.inst({'function': f.fq, 'corrector_loop': False}, f.fq)
            res.add(Finding('C07.CORR', f, '%s.step no longer applies the configured corrector to (R, J)' % cname, construct='corrector loop'))
            continue
        loops[cname] = loop
        ivar = loop.target.id if isinstance(loop.target, ast.Name) else None
        # the residual / Jacobian lists are whatever is handed to normalize_RWJ (roles, not names)
        ncs = [c for c in paths.calls_in(f.node) if isinstance(c.func, ast.Attribute) and c.func.attr == 'normalize_RWJ' and len(c.args) == 3]
        if not ncs or not all(isinstance(a, ast.Name) for a in ncs[0].args):
            raise AnalysisError('C07.CORR: normalize_RWJ(R, weight, J) call not found in %s.step' % cname)
        Rn, Wn, Jn = [a.id for a in ncs[0].args]
        # both R[i] and J[i] are overwritten with the call's outputs
        stored = set()
        for st in ast.walk(loop):
            if isinstance(st, ast.Assign):
                for t in st.targets:
                    for x in (t.elts if isinstance(t, ast.Tuple) else [t]):
                        if isinstance(x, ast.Subscript) and isinstance(x.value, ast.Name) and isinstance(x.slice, ast.Name) and x.slice.id == ivar:
                            stored.add(x.value.id)
        sel_ok = True
        idx = set()
        for c in calls:
            kw = {k.arg: src(k.value).replace(' ', '') for k in c.keywords}
            if kw.get('R') != '%s[%s]' % (Rn, ivar) or kw.get('J') != '%s[%s]' % (Jn, ivar):
                sel_ok = False
            idx.add(src(c.func.slice))
        sel_ok = sel_ok and idx == {'0', ivar}
        res.inst({'function': f.fq, 'overwrites': sorted(stored), 'selection': sorted(idx), 'ok': sel_ok and stored == {Rn, Jn}}, f.fq)
        if stored != {Rn, Jn}:
            res.add(Finding('C07.CORR', f, 'the corrector outputs overwrite %s, both the residual and the Jacobian handed to normalize_RWJ are required' % sorted(stored), node=loop))
        if not sel_ok:
            res.add(Finding('C07.CORR', f, 'corrector selection is not corrector[0](R=R[i], J=J[i]) for a single corrector else corrector[i](...)',
                            node=loop))
        # order: the loop precedes normalize_RWJ on every dense path and feeds the same names
        for ev, ex in _dense_paths(f):
            pos_loop = pos_norm = None
            for i, e in enumerate(ev):
                if e[0] in ('head', 'stmt') and e[1] is loop and pos_loop is None:
                    pos_loop = i
                if e[0] == 'stmt' and any(isinstance(c.func, ast.Attribute) and c.func.attr == 'normalize_RWJ' for c in paths.calls_in(e[1])):
                    pos_norm = i
                    nc = [c for c in paths.calls_in(e[1]) if isinstance(c.func, ast.Attribute) and c.func.attr == 'normalize_RWJ'][0]
                    if len(nc.args) != 3:
                        res.add(Finding('C07.CORR', f, 'normalize_RWJ is not called with (R, weight, J)', node=nc))
            if pos_norm is not None and (pos_loop is None or pos_loop > pos_norm):
                res.add(Finding('C07.CORR', f, 'on a dense path normalize_RWJ runs before (or without) the corrector loop', node=loop,
                                construct='corrector order'))
                break
    if len(loops) == 2:
        from ..core import norm_construct as _nc
        a = _nc(loops['GaussNewton'], repo.func(OPT, 'GaussNewton.step').node)
        b = _nc(loops['LevenbergMarquardt'], repo.func(OPT, 'LevenbergMarquardt.step').node)
        res.inst({'pair': 'GN/LM corrector loop', 'equal': a == b}, 'pair-loop')
        if a != b:
            res.add(Finding('C07.CORR', repo.func(OPT, 'LevenbergMarquardt.step'), 'GN and LM apply the correctors differently', construct='sibling loop'))
    # constructor siblings
    def ctor_part(cname):
        f = repo.func(OPT, cname + '.__init__')
        out = []
        for st in f.node.body:
            s = src(st)
            if 'corrector' in s or 'kernel' in s:
                out.append(dump(st))
        return out
    a, b = ctor_part('GaussNewton'), ctor_part('LevenbergMarquardt')
    res.inst({'pair': 'GN/LM corrector+kernel construction', 'equal': a == b, 'statements': len(a)}, 'pair-ctor')
    if a != b:
        res.add(Finding('C07.CORR', repo.func(OPT, 'LevenbergMarquardt.__init__'), 'GN and LM construct kernels/correctors differently',
                        construct='sibling ctor'))
    return res


VIEW_ONLY = ('view', 'reshape', 'unsqueeze', 'squeeze', 'contiguous', 'view_as', 'detach')


def _is_diag_view(e, aname, views):
    """e is a live view of the diagonal of the matrix named `aname`: aname.diagonal(), a view-only chain on it, or a
    local name bound to such a view (a .clone() or any arithmetic makes a copy)"""
    while isinstance(e, ast.Call) and isinstance(e.func, ast.Attribute) and e.func.attr in VIEW_ONLY:
        e = e.func.value
    if isinstance(e, ast.Name):
        return e.id in views
    return isinstance(e, ast.Call) and isinstance(e.func, ast.Attribute) and e.func.attr == 'diagonal' and dotted(e.func.value) == aname \
        and not e.args and not e.keywords


@guarded
def rule_damp(repo, tier):
    res = RuleResult('C07.DAMP', 'LM (dense): the diagonal clamp with pg[min], pg[max] is an in-place write through A.diagonal() that '
                     'precedes the trial loop; on every trial the damping is an in-place A.diagonal().add_(<live diagonal> * pg[damping]) '
                     'before the solver call, so A_k = A_(k-1) + lambda diag(A_(k-1)) accumulates', floor=3)
    f = repo.func(OPT, 'LevenbergMarquardt.step')
    whiles = [n for n in ast.walk(f.node) if isinstance(n, ast.While)]
    if not whiles:
        raise AnalysisError('C07.DAMP: no trial loop')
    loop = whiles[0]
    pths = _dense_paths(f)
    bad = {}
    n_trials = 0

    def pgkey(e, key):
        return isinstance(e, ast.Subscript) and isinstance(e.slice, ast.Constant) and e.slice.value == key and isinstance(e.value, ast.Name)
    for ev, ex in pths:
        # the matrix handed to the solver on this path
        aname = None
        for e in ev:
            if e[0] == 'stmt':
                for c in paths.calls_in(e[1]):
                    if dotted(c.func) == 'self.solver':
                        kw = {k.arg: k.value for k in c.keywords}
                        a = kw.get('A', c.args[0] if c.args else None)
                        aname = dotted(a) if a is not None else None
        if aname is None:
            continue
        views = set()
        clamp_before = in_loop = damp_this_iter = False
        for e in ev:
            if e[0] == 'head' and e[1] is loop:
                in_loop, damp_this_iter = True, False
                if not clamp_before:
                    bad.setdefault('the trial loop is entered without the in-place diagonal clamp %s.diagonal().clamp_(pg[min], pg[max])' % aname, loop)
            if e[0] != 'stmt':
                continue
            st = e[1]
            for c in paths.calls_in(st):
                recv_ = c.func.value if isinstance(c.func, ast.Attribute) else None
                # x.add_(..).clamp_(..): an in-place method returns its receiver
                while isinstance(recv_, ast.Call) and isinstance(recv_.func, ast.Attribute) and recv_.func.attr.endswith('_') and not recv_.func.attr.startswith('_'):
                    recv_ = recv_.func.value
                if isinstance(c.func, ast.Attribute) and c.func.attr in ('clamp_', 'clip_', 'clamp', 'clip') and recv_ is not None and _is_diag_view(recv_, aname, views):
                    args = list(c.args) + [k.value for k in c.keywords]
                    ok = any(pgkey(a, 'min') for a in args) and any(pgkey(a, 'max') for a in args)
                    if ok and not in_loop:
                        clamp_before = True
                    elif ok and in_loop:
                        bad.setdefault('the diagonal clamp is applied inside the trial loop', c)
                if isinstance(c.func, ast.Attribute) and c.func.attr == 'add_' and _is_diag_view(c.func.value, aname, views) and in_loop:
                    inc = c.args[0] if c.args else None
                    ok = False
                    if isinstance(inc, ast.BinOp) and isinstance(inc.op, ast.Mult):
                        for a, b in ((inc.left, inc.right), (inc.right, inc.left)):
                            if _is_diag_view(a, aname, views) and pgkey(b, 'damping'):
                                ok = True
                    if ok:
                        damp_this_iter = True
                    else:
                        bad.setdefault('the damping increment `%s` is not <live diagonal of %s> * pg[damping]: a copy taken earlier does not '
                                       'follow the accumulation A_k = A_(k-1) + lambda diag(A_(k-1))' % (src(inc)[:60], aname), c)
                if dotted(c.func) == 'self.solver' and in_loop:
                    n_trials += 1
                    if not damp_this_iter:
                        bad.setdefault('a trial reaches the solver without the in-place damping of the diagonal of %s' % aname, c)
            if isinstance(st, ast.Expr) and isinstance(st.value, ast.BinOp) and \
                    any(_is_diag_view(x, aname, views) for x in ast.walk(st.value) if isinstance(x, (ast.Call, ast.Name))):
                bad.setdefault('expression statement `%s` computes a damped diagonal and discards it' % src(st)[:60], st)
            if isinstance(st, ast.Assign):
                for t in st.targets:
                    if isinstance(t, ast.Name):
                        if _is_diag_view(st.value, aname, views) or \
                                (isinstance(st.value, ast.Call) and isinstance(st.value.func, ast.Attribute) and st.value.func.attr.endswith('_')
                                 and not st.value.func.attr.endswith('__') and _is_diag_view(st.value.func.value, aname, views)):
                            views.add(t.id)
                        else:
                            views.discard(t.id)
                        if t.id == aname:
                            views.clear()
    res.inst({'function': f.fq, 'dense_paths': len(pths), 'trial_solves_checked': n_trials}, f.fq)
    res.inst({'function': f.fq, 'obligation': 'clamp precedes loop'}, 'clamp')
    res.inst({'function': f.fq, 'obligation': 'in-place damping from the live diagonal precedes each solve'}, 'damp')
    if n_trials == 0:
        raise AnalysisError('C07.DAMP: no trial solve found on the dense paths')
    for msg, node in bad.items():
        res.add(Finding('C07.DAMP', f, msg, node=node))
    return res


@guarded
def rule_upd(repo, tier):
    res = RuleResult('C07.UPD', 'update_parameter splits the step by the sizes of the trainable parameters and applies +step through add_ '
                     'with the same requires_grad filter on both sides; Parameter resolves add_ to LieTensor.add_ (retraction via '
                     'ltype.add_); step() runs under torch.no_grad()', floor=5)
    def seq_desc(fn, e, upto_line):
        """(root sequence, sorted filters) of a parameter sequence expression: follows `name = [p for p in SEQ if F]` rebindings made earlier"""
        filters = []
        for _ in range(6):
            if isinstance(e, (ast.ListComp, ast.GeneratorExp)) and len(e.generators) == 1 and isinstance(e.elt, ast.Name) and \
                    isinstance(e.generators[0].target, ast.Name) and e.elt.id == e.generators[0].target.id:
                g = e.generators[0]
                filters += [_filter_norm(i, g.target) for i in g.ifs]
                e = g.iter
                continue
            if isinstance(e, ast.Name):
                last = None
                for n in ast.walk(fn):
                    if isinstance(n, ast.Assign) and n.lineno < upto_line and any(isinstance(t, ast.Name) and t.id == e.id for t in n.targets):
                        if last is None or n.lineno > last.lineno:
                            last = n
                if last is not None:
                    upto_line = last.lineno
                    e = last.value
                    continue
            break
        return (src(e), tuple(sorted(set(filters))))

    def update_descs(f):
        """(split descriptor, apply descriptor, filters applied after the zip, add_ ok) of one update_parameter body"""
        split_d = apply_d = None
        post = []
        add_ok = False
        for n in ast.walk(f.node):
            # sizes the step is split by
            if isinstance(n, (ast.ListComp, ast.GeneratorExp)) and len(n.generators) == 1:
                g = n.generators[0]
                if any(isinstance(c, ast.Call) and isinstance(c.func, ast.Attribute) and c.func.attr == 'numel' for c in ast.walk(n.elt)) and \
                        not (isinstance(g.iter, ast.Call) and dotted(g.iter.func) == 'zip'):
                    base = seq_desc(f.node, g.iter, n.lineno)
                    split_d = (base[0], tuple(sorted(set(base[1]) | {_filter_norm(i, g.target) for i in g.ifs})))
            # the (parameter, slice) pairing
            gens = []
            if isinstance(n, (ast.ListComp, ast.GeneratorExp)):
                gens = [(n.generators[0].iter, n.generators[0].target, n.generators[0].ifs, [n.elt])]
            elif isinstance(n, ast.For):
                ifs = []
                body = n.body
                if len(body) == 1 and isinstance(body[0], ast.If) and not body[0].orelse:
                    ifs, body = [body[0].test], body[0].body
                gens = [(n.iter, n.target, ifs, body)]
            for it, tgt, ifs, body in gens:
                if isinstance(it, ast.Call) and dotted(it.func) == 'zip' and len(it.args) == 2 and isinstance(tgt, ast.Tuple) and len(tgt.elts) == 2:
                    adds = [c for b_ in body for c in ast.walk(b_) if isinstance(c, ast.Call) and isinstance(c.func, ast.Attribute) and c.func.attr in ('add_', 'add', 'sub_')]
                    if not adds:
                        continue
                    apply_d = seq_desc(f.node, it.args[0], n.lineno)
                    post = [_filter_norm(i, tgt.elts[0]) for i in ifs]
                    c = adds[0]
                    pn, dn = (tgt.elts[0].id if isinstance(tgt.elts[0], ast.Name) else None), (tgt.elts[1].id if isinstance(tgt.elts[1], ast.Name) else None)
                    arg = c.args[0] if c.args else None
                    add_ok = c.func.attr == 'add_' and dotted(c.func.value) == pn and arg is not None and \
                        parities(arg, lambda x: isinstance(x, ast.Name) and x.id == dn) == {0}
        return split_d, apply_d, post, add_ok

    descs = {}
    for q in ('_Optimizer.update_parameter', 'LevenbergMarquardt.update_parameter'):
        if not repo.has_func(OPT, q):
            continue
        f = repo.func(OPT, q)
        split_d, apply_d, post, add_ok = update_descs(f)
        if split_d is None or apply_d is None:
            if q.startswith('_Optimizer'):
                raise AnalysisError('C07.UPD: the split / apply pair of %s was not recognised' % q)
            continue
        aligned = split_d == apply_d
        frozen_excluded = any('requires_grad' in x for x in split_d[1])
        descs[q] = split_d
        res.inst({'function': f.fq, 'step split over': split_d, 'slices paired with': apply_d, 'filter after pairing': post, 'aligned': aligned,
                  'frozen excluded': frozen_excluded, 'adds_plus_step': add_ok}, f.fq)
        if not aligned:
            res.add(Finding('C07.UPD', f, 'the step is split by the sizes of %s but its slices are paired, in order, with %s%s: a filter applied after the '
                            'pairing does not realign them, so with a frozen parameter ahead of a trainable one the trainable parameter receives the '
                            'wrong slice' % (split_d, apply_d, (' (then filtered by %s)' % post) if post else ''), construct='filters'))
        if not frozen_excluded:
            res.add(Finding('C07.UPD', f, 'parameters with requires_grad=False are not excluded from the update', construct='frozen'))
        if not add_ok:
            res.add(Finding('C07.UPD', f, 'parameters are not updated by p.add_(+step slice)', construct='add_'))
    # the columns of J and the slices of the step range over the same parameters
    fj = repo.func(OPT, 'RobustModel.flatten_row_jacobian')
    col = None
    for n in ast.walk(fj.node):
        if isinstance(n, (ast.ListComp, ast.GeneratorExp)) and len(n.generators) == 1:
            g = n.generators[0]
            if isinstance(g.iter, ast.Call) and dotted(g.iter.func) == 'zip' and isinstance(g.target, ast.Tuple) and len(g.target.elts) == 2:
                col = tuple(sorted({_filter_norm(i, g.target.elts[1]) for i in g.ifs}))
    if col is None:
        raise AnalysisError('C07.UPD: the column blocks of flatten_row_jacobian were not recognised')
    want = descs.get('_Optimizer.update_parameter', (None, ()))[1]
    okc = col == want
    res.inst({'function': fj.fq, 'column blocks kept for': col, 'step slices exist for': want, 'same parameters': okc}, fj.fq)
    if not okc:
        res.add(Finding('C07.UPD', fj, 'J keeps a column block for the parameters %s while the step is distributed over the parameters %s: with a frozen '
                        'parameter the solved step is longer than the split expects (the step raises) and the solve treats the frozen parameter as free'
                        % (col or 'all', want or 'all'), construct='columns'))
    # MRO of Parameter
    ci = repo.cls(LT, 'Parameter')
    m = repo.find_method(ci, 'add_')
    okm = m is not None and m.cls.name == 'LieTensor'
    # an external tensor class ahead of LieTensor in the MRO defines add_ itself and would win the lookup
    for c in repo.mro(ci)[1:]:
        if isinstance(c, ClassInfo) and c.name == 'LieTensor':
            break
        if isinstance(c, str) and c.split('.')[-1] in ('Parameter', 'Tensor'):
            okm = False
    res.inst({'class': ci.fq, 'add__resolves_to': m.fq if m else None}, ci.fq)
    if not okm:
        res.add(Finding('C07.UPD', (ci.module.relpath, ci.node.lineno, ci.fq), 'Parameter.add_ does not resolve to LieTensor.add_ (base order %s): '
                        'group parameters would be updated by plain addition instead of the retraction' % ci.base_exprs, construct='MRO'))
    la = repo.func(LT, 'LieTensor.add_')
    rets = returns_of(la.node)
    v0 = rv(la.node, rets[0]) if len(rets) == 1 else None
    okd = isinstance(v0, ast.Call) and dotted(v0.func) == 'self.ltype.add_' and \
        v0.args and dotted(v0.args[0]) == 'self'
    res.inst({'function': la.fq, 'dispatches_to_ltype': okd}, la.fq)
    if not okd:
        res.add(Finding('C07.UPD', la, 'LieTensor.add_ must dispatch to self.ltype.add_(self, ...)', construct='dispatch'))
    for cname in ('GaussNewton', 'LevenbergMarquardt'):
        s = repo.func(OPT, cname + '.step')
        ng = any(src(d).replace(' ', '') in ('torch.no_grad()', 'torch.no_grad') for d in s.node.decorator_list)
        res.inst({'function': s.fq, 'no_grad': ng}, s.fq)
        if not ng:
            res.add(Finding('C07.UPD', s, '%s.step is not decorated with torch.no_grad()' % cname, construct='no_grad'))
    return res


def _filter_norm(test, target):
    """filter expression with the loop variable (first element of a tuple target) renamed"""
    tn = target.elts[0].id if isinstance(target, ast.Tuple) else (target.id if isinstance(target, ast.Name) else None)
    class R(ast.NodeTransformer):
        def visit_Name(self, n):
            return ast.Name('$v', n.ctx) if n.id == tn else n
    return dump(R().visit(copy.deepcopy(test)))


@guarded
def rule_keys(repo, tier):
    res = RuleResult('C07.KEYS', 'the hyper-parameter keys a strategy contributes to the parameter group do not collide with the keys the optimiser '
                     'owns (min, max: the clamp of the Hessian diagonal): LevenbergMarquardt merges the strategy defaults over its own', floor=3)
    f = repo.func(OPT, 'LevenbergMarquardt.__init__')
    own = set()
    for n in ast.walk(f.node):
        if isinstance(n, ast.Dict) and any(isinstance(k, ast.Constant) and k.value in ('min', 'max') for k in n.keys):
            own |= {k.value for k in n.keys if isinstance(k, ast.Constant)}
    if not own:
        raise AnalysisError('C07.KEYS: LevenbergMarquardt.__init__ no longer builds its {min, max} defaults')
    sm = repo.module('pypose.optim.strategy')
    for c in sm.classes.values():
        init = c.methods.get('__init__')
        if init is None:
            continue
        keys = set()
        for n in ast.walk(init.node):
            if isinstance(n, ast.Assign) and any(dotted(t) == 'self.defaults' for t in n.targets) and isinstance(n.value, ast.Dict):
                keys |= {k.value for k in n.value.keys if isinstance(k, ast.Constant)}
        clash = sorted(keys & own)
        res.inst({'class': c.fq, 'defaults_keys': sorted(keys), 'optimizer_keys': sorted(own), 'clash': clash}, c.fq)
        if clash:
            res.add(Finding('C07.KEYS', init, 'strategy %s puts %s into its defaults; LevenbergMarquardt merges them over its own clamp bounds, so '
                            'A.diagonal().clamp_(pg[min], pg[max]) uses the strategy\'s damping bounds' % (c.name, clash), construct='key clash %s' % clash))
    return res


@guarded
def rule_wexp(repo, tier):
    """The documented contract is torch broadcasting between the weight's batch shape and the residual's batch shape.  Pairing item (b, m, n) of the
    flattened residual with its block therefore needs the weight EXPANDED to the residual's batch shape before it is cut into blocks.  Any
    repetition of the flat block list is a cyclic (tiled: item j meets block j mod K) or blockwise (repeat_interleave: item j meets block j // k)
    pairing: the first is right only when the weight's batch dimensions are the trailing ones of the residual and none has extent 1, the second
    only for leading ones - a weight of shape M*1*R*R for a B*M*N*R residual is mispaired by both."""
    res = RuleResult('C07.WEXP', 'normalize_RWJ pairs residual items with weight blocks by broadcasting: the weight is expanded to the batch shape of its '
                     'residual (expand / expand_as / broadcast_to against the residual\'s shape) before it is split into blocks; the flat block list is '
                     'never repeated (list * k, tile / repeat / repeat_interleave, nested comprehension)', floor=1)
    f = repo.func(OPT, 'RobustModel.normalize_RWJ')
    bad, good = [], []
    for n in ast.walk(f.node):
        if isinstance(n, ast.Call):
            name = (dotted(n.func) or (n.func.attr if isinstance(n.func, ast.Attribute) else '')).split('.')[-1]
            if name == 'repeat_interleave':
                bad.append((n, 'repeat_interleave repeats every block in place (item j meets block j // k)'))
            elif name in ('tile', 'repeat') and isinstance(n.func, ast.Attribute):
                bad.append((n, 'tiling the flat block list pairs item j with block j mod K'))
            elif name in ('expand', 'expand_as', 'broadcast_to', 'broadcast_tensors') and any(isinstance(x, ast.Attribute) and x.attr == 'shape' for a_ in list(n.args) + [k.value for k in n.keywords]
                                                                                         for x in ast.walk(a_)) or name == 'expand_as':
                good.append(n)
        elif isinstance(n, ast.BinOp) and isinstance(n.op, ast.Mult):
            # list * int
            for a_, b_ in ((n.left, n.right), (n.right, n.left)):
                if isinstance(a_, ast.Name) and isinstance(b_, (ast.Call, ast.Name)) and ('int' in src(b_) or isinstance(b_, ast.Name)):
                    ls = [v for v in ast.walk(f.node) if isinstance(v, ast.Assign) and any(isinstance(t, ast.Name) and t.id == a_.id for t in v.targets)
                          and (isinstance(v.value, (ast.ListComp, ast.List)) or (isinstance(v.value, ast.Call) and ('split' in src(v.value) or 'unbind' in src(v.value)
                                                                                                              or src(v.value).startswith('list('))))]
                    if ls:
                        bad.append((n, 'repeating the flat block list pairs item j with block j mod K'))
        elif isinstance(n, (ast.ListComp, ast.GeneratorExp)) and len(n.generators) == 2:
            g0, g1 = n.generators
            if isinstance(g1.iter, ast.Call) and dotted(g1.iter.func) == 'range' and isinstance(n.elt, ast.Name) and isinstance(g0.target, ast.Name) \
                    and n.elt.id == g0.target.id:
                bad.append((n, 'the inner loop repeats every block in place (item j meets block j // k)'))
            elif isinstance(g0.iter, ast.Call) and dotted(g0.iter.func) == 'range':
                bad.append((n, 'the outer loop tiles the flat block list (item j meets block j mod K)'))
    res.inst({'function': f.fq, 'broadcast expansions': [src(g)[:50] for g in good], 'flat repetitions': [src(b_)[:40] for b_, _ in bad]}, f.fq)
    for b_, why in bad:
        res.add(Finding('C07.WEXP', f, '`%s`: %s; the documented contract is broadcasting, and a weight with a batch extent of 1 between two others (M*1*R*R '
                        'for a B*M*N*R residual), or batch dimensions that are not the trailing ones, is paired with the wrong residual items' % (src(b_)[:60], why), node=b_))
    if not good and not bad:
        raise AnalysisError('C07.WEXP: the weight expansion of normalize_RWJ was not recognised')
    if not good and bad:
        pass
    return res


def _rules_core(repo, tier):
    from ..stale import rule_stale
    from ..effects import rule_pure
    return [rule_wexp(repo, tier), rule_sys(repo, tier), rule_corr(repo, tier), rule_damp(repo, tier), rule_upd(repo, tier), rule_keys(repo, tier),
            rule_stale(repo, 'C07.STALE', [(OPT, 'LevenbergMarquardt.step'), (OPT, 'GaussNewton.step')]),
            rule_pure(repo, 'C07.PURE', 'what a step hands to its collaborators stays intact: no linear solver writes into A or b (the LM trial loop solves '
                      'again after a rejection), no corrector / weight normalisation writes into the residuals, Jacobians or weights it is given',
                      [('pypose.optim.solver', q + '.forward') for q in ('PINV', 'LSTSQ', 'Cholesky', 'CG')] +
                      [('pypose.optim.corrector', 'FastTriggs.forward'), ('pypose.optim.corrector', 'Triggs.forward'),
                       (OPT, 'RobustModel.normalize_RWJ'), (OPT, 'RobustModel.flatten_row_jacobian')])]


VIEW_SITES = {
    ('pypose.optim.corrector:Triggs.forward', 'v0.view(v1.shape + (v0.shape[-1],))'):
        'splits the leading axis of the 2-D Jacobian into the residual shape, last axis kept: a pure split is valid for every stride pattern',
}


def rule_view07(repo):
    from ..axisdefault import rule_viewarg
    return rule_viewarg(repo, 'C07.VIEW', ['pypose.optim.optimizer', 'pypose.optim.functional', 'pypose.optim.corrector', 'pypose.optim.solver', 'pypose.optim.strategy'],
                        floor=5, exempt_sites=VIEW_SITES)


def rules(repo, tier):
    from ..memo import rule_memo
    from ..optional import rule_optional
    from ..mode import mode_rules
    from ..callsig import rule_callsig
    from ..docsig import rule_docsig
    return list(_rules_core(repo, tier)) + __import__('sa.core', fromlist=['x']).reid([__import__('sa.rules.c08', fromlist=['x']).rule_rej_exc_strat(repo, tier), __import__('sa.rules.c08', fromlist=['x']).rule_ts(repo, tier), __import__('sa.rules.c10', fromlist=['x']).rule_tri(repo, tier), __import__('sa.core', fromlist=['x']).guarded(__import__('sa.rules.c10', fromlist=['x']).rule_budget)(repo, tier), __import__('sa.rules.c05', fromlist=['x']).rule_retr_add(repo), __import__('sa.rules.c04', fromlist=['x']).rule_sb(repo, tier), __import__('sa.rules.c04', fromlist=['x']).rule_vt(repo, tier)], 'C07') + [rule_view07(repo), __import__('sa.mode', fromlist=['x']).rule_sharedstate(repo, 'C07.SHAREDSTRAT', ['pypose.optim.strategy']), rule_memo(repo, 'C07.MEMO', 'history independence: nothing computed from the contents of a tensor argument is kept '
                                                      'under the identity, address or version of that tensor, in module-level storage, or published from a generator '
                                                      'before it is complete - a later call with the same object and other contents must not be answered from it',
                                                      ['pypose.optim.optimizer', 'pypose.optim.solver', 'pypose.optim.corrector', 'pypose.optim.functional'], floor=3),
            rule_optional(repo, 'C07.OPT', ['pypose.optim.optimizer', 'pypose.optim.solver', 'pypose.optim.corrector', 'pypose.optim.functional'])] + mode_rules(repo, 'C07', ['pypose.optim.optimizer', 'pypose.optim.solver', 'pypose.optim.corrector', 'pypose.optim.functional']) + [rule_callsig(repo, 'C07.SIG', ['pypose.optim.optimizer', 'pypose.optim.solver', 'pypose.optim.corrector', 'pypose.optim.functional']), rule_docsig(repo, 'C07.DOC', ['pypose.optim.optimizer', 'pypose.optim.solver', 'pypose.optim.corrector', 'pypose.optim.functional'])]
