"""C04 - hand-written backward methods: variance typing (VT), sibling agreement (SB), layout conventions (LT)."""
import ast, re, copy
from ..core import RuleResult, Finding, AnalysisError, dotted, src, norm_construct, guarded, guarded_list
from ..expr import inline_straight, returns_of, dump, subst, rv
from .. import paths

OP = 'pypose.lietensor.operation'
FAMS = ['SO3', 'SE3', 'RxSO3', 'Sim3']
ALG = {'SO3': 'so3', 'SE3': 'se3', 'RxSO3': 'rxso3', 'Sim3': 'sim3'}
OPS8 = ['Log', 'Exp', 'Act', 'Act4', 'AdjXa', 'AdjTXa', 'Mul', 'Inv']


def op_class(fam, op):
    return (ALG[fam] + '_Exp') if op == 'Exp' else '%s_%s' % (fam, op)


# ---------------------------------------------------------------- family tables, derived from the builders

def orthogonal_families(repo):
    """families whose Adj(X) is orthogonal: the builder writes only SO3_Adj blocks on the diagonal of an identity"""
    out = {}
    for fam in FAMS:
        f = repo.func(OP, fam + '_Adj')
        if fam == 'SO3':
            out[fam] = True      # the rotation matrix itself (Lie-theoretic root fact)
            continue
        callees = {dotted(c.func) for c in paths.calls_in(f.node)}
        repo_callees = {c for c in callees if c and repo.has_func(OP, c)}
        # helpers that are SO3_Adj under another name (their single return is a call of an orthogonal builder)
        repo_callees = {('SO3_Adj' if _is_rotation_alias(repo, c) else c) for c in repo_callees}
        inl = inline_straight(f.node)
        diag_only = all(_diag_block(idx) for bk, idx, val, st in inl.stores)
        rets = returns_of(f.node)
        base_eye = False
        if len(rets) == 1:
            v = inline_straight(f.node, upto=rets[0]).value(rets[0].value)
            while isinstance(v, ast.Call) and dotted(v.func) == '$upd':
                v = v.args[0]
            base_eye = any(isinstance(n, ast.Call) and dotted(n.func) == 'torch.eye' for n in ast.walk(v)) and \
                not any(isinstance(n, ast.Call) and dotted(n.func) in ('torch.cat', 'torch.matmul') for n in ast.walk(v))
        out[fam] = repo_callees <= {'SO3_Adj'} and bool(inl.stores) and diag_only and base_eye
    return out


def _is_rotation_alias(repo, name, depth=0):
    if name == 'SO3_Adj':
        return True
    if depth > 3 or not repo.has_func(OP, name):
        return False
    g = repo.func(OP, name)
    rets = returns_of(g.node)
    v0 = rv(g.node, rets[0]) if len(rets) == 1 else None
    if isinstance(v0, ast.Call) and len(g.node.body) <= 3:
        d = dotted(v0.func)
        return d is not None and _is_rotation_alias(repo, d, depth + 1)
    return False


def skew_families(repo):
    """families whose ad(x) is skew-symmetric: only vec2skew blocks on the diagonal of a zero matrix"""
    out = {}
    for fam in FAMS:
        f = repo.func(OP, ALG[fam] + '_adj')
        callees = {dotted(c.func) for c in paths.calls_in(f.node)}
        inl = inline_straight(f.node)
        rets = returns_of(f.node)
        v0 = rv(f.node, rets[0]) if len(rets) == 1 else None
        if not inl.stores and isinstance(v0, ast.Call) and dotted(v0.func) == 'vec2skew':
            out[fam] = True
            continue
        # zero padding of a skew block (pad(vec2skew(.), (l, r, t, b)) with l == t, r == b keeps it on the diagonal) is skew-symmetric as well
        if not inl.stores and isinstance(v0, ast.Call) and (dotted(v0.func) or '').split('.')[-1] == 'pad' and len(v0.args) >= 2 and \
                isinstance(v0.args[0], ast.Call) and dotted(v0.args[0].func) == 'vec2skew':
            try:
                pd = ast.literal_eval(v0.args[1])
            except (ValueError, SyntaxError):
                pd = None
            kw = {k.arg: k.value for k in v0.keywords}
            zero_fill = 'value' not in kw or (isinstance(kw['value'], ast.Constant) and kw['value'].value in (0, 0.0))
            if isinstance(pd, (tuple, list)) and len(pd) == 4 and pd[0] == pd[2] and pd[1] == pd[3] and zero_fill and kw.get('mode') is None:
                out[fam] = True
                continue
        ok = bool(inl.stores) and all(_diag_block(idx) and isinstance(val, ast.Call) and dotted(val.func) == 'vec2skew'
                                      for bk, idx, val, st in inl.stores)
        ok = ok and not any(c in callees for c in ('torch.eye',))
        out[fam] = ok
    return out


def _diag_block(idx):
    if isinstance(idx, ast.Tuple) and len(idx.elts) == 3 and isinstance(idx.elts[0], ast.Constant) and idx.elts[0].value is Ellipsis:
        return dump(idx.elts[1]) == dump(idx.elts[2]) and isinstance(idx.elts[1], ast.Slice)
    return False


# ---------------------------------------------------------------- variance typing

MAP_HELPER = re.compile(r'^(SO3|SE3|RxSO3|Sim3)_(Adj|Matrix|Matrix4x4|Rotation|Act_Jacobian|Act4_Jacobian)$|'
                        r'^(so3|se3|rxso3|sim3)_(Jl|Jl_inv|adj)$|^(calcQ|rxso3_Ws|vec2skew)$')
GROUP_OPS = re.compile(r'^((SO3|SE3|RxSO3|Sim3)_(Log|Inv|Mul|Act|Act4|AdjXa|AdjTXa)|(so3|se3|rxso3|sim3)_Exp)\.apply$')


class VT:
    def __init__(self, fam, gname, saved_kinds, orth, skew):
        self.fam, self.g, self.saved, self.orth, self.skew = fam, gname, saved_kinds, orth, skew
        self.events = []
        self.top = 0

    def flag(self, node, msg):
        self.events.append((node, msg))

    def t(self, e):
        if isinstance(e, ast.Name):
            if e.id == self.g:
                return 'Cov'
            return 'Top'
        if isinstance(e, ast.Constant):
            return 'Scalar'
        if isinstance(e, ast.Call):
            d = dotted(e.func)
            if d == '$item' and dotted(e.args[0]) == 'ctx.saved_tensors' and isinstance(e.args[1], ast.Constant):
                i = e.args[1].value
                return self.saved[i] if i < len(self.saved) else 'Top'
            if d in ('torch.zeros', 'torch.zeros_like'):
                return 'Zero'
            if d in ('torch.cat', 'torch.concat') and e.args and isinstance(e.args[0], (ast.Tuple, ast.List)):
                ts = [self.t(x) for x in e.args[0].elts]
                nz = [x for x in ts if x != 'Zero']
                if len(nz) == 1:
                    return nz[0]
                return 'Top' if nz else 'Zero'
            if d in ('torch.matmul',) and len(e.args) == 2:
                return self.mm(e, e.args[0], e.args[1])
            if d is not None and MAP_HELPER.match(d.split('.')[-1]) and e.args:
                ta = self.t(e.args[0])
                name = d.split('.')[-1]
                if ta in ('Cov', 'CovRow', 'CovCol'):
                    if name.endswith('_adj'):
                        fam = [k for k, v in ALG.items() if v == name[:-4]][0]
                        if not self.skew.get(fam, False):
                            self.flag(e, 'ad(.) of %s is built from the incoming cotangent: vector/covector confusion, only valid '
                                         'when ad is skew-symmetric (SO3, RxSO3)' % fam)
                        return 'AdCov'
                    self.flag(e, 'Jacobian helper %s evaluated at the incoming cotangent' % name)
                return 'Map'
            if d is not None and GROUP_OPS.match(d):
                name = d[:-6]
                ts = [self.t(a) for a in e.args]
                if name.endswith('_AdjXa') and len(e.args) == 2 and ts[1] in ('Cov',):
                    fam = name.split('_')[0]
                    if not self.orth.get(fam, False):
                        self.flag(e, '%s.apply(X, grad): Adj(X) is pushed forward onto the incoming cotangent as if it were a '
                                     'vector; the pull-back is grad @ Adj(X^-1), they coincide only for orthogonal Adj (SO3, RxSO3)' % name)
                    return 'Cov'
                if any(x in ('Cov', 'CovRow', 'CovCol') for x in ts):
                    self.flag(e, 'group operation %s applied to the incoming cotangent' % name)
                    return 'Top'
                return 'Vec'
            if isinstance(e.func, ast.Attribute):
                base = self.t(e.func.value)
                m = e.func.attr
                if m == 'unsqueeze' and e.args:
                    ax = _int(e.args[0])
                    if base in ('Cov', 'Vec'):
                        return base + ('Row' if ax == -2 else 'Col' if ax == -1 else '')
                    return base
                if m == 'squeeze':
                    if base.endswith('Row') or base.endswith('Col'):
                        return base[:-3]
                    return base
                if m in ('contiguous', 'clone', 'detach', 'to', 'view_as', 'expand', 'expand_as', 'sum'):
                    return base
            self.top += 1
            return 'Top'
        if isinstance(e, ast.Subscript):
            return self.t(e.value)
        if isinstance(e, ast.UnaryOp):
            return self.t(e.operand)
        if isinstance(e, ast.Attribute):
            if e.attr in ('mT', 'T', 'mH'):
                b = self.t(e.value)
                return {'CovRow': 'CovCol', 'CovCol': 'CovRow', 'VecRow': 'VecCol', 'VecCol': 'VecRow'}.get(b, b)
            return 'Top'
        if isinstance(e, ast.BinOp):
            if isinstance(e.op, ast.MatMult):
                return self.mm(e, e.left, e.right)
            l, r = self.t(e.left), self.t(e.right)
            if isinstance(e.op, (ast.Mult, ast.Div)):
                if l == 'Scalar':
                    return r
                if r == 'Scalar':
                    return l
                return l if l == r else 'Top'
            if isinstance(e.op, (ast.Add, ast.Sub)):
                if l == r:
                    return l
                if 'Zero' in (l, r):
                    return r if l == 'Zero' else l
                return 'Top'
        if isinstance(e, (ast.Tuple, ast.List)):
            return 'Tuple'
        return 'Top'

    def mm(self, node, a, b):
        ta, tb = self.t(a), self.t(b)
        if ta == 'CovRow' and tb in ('Map',):
            return 'CovRow'                       # pull-back: always well typed
        if ta == 'CovRow' and tb == 'AdCov':
            return 'CovRow'
        if ta == 'Map' and tb == 'CovCol':
            if not self.orth.get(self.fam, False):
                self.flag(node, 'matrix applied from the left to the cotangent column (push-forward of a covector)')
            return 'CovCol'
        if ta == 'VecRow' and tb == 'AdCov':
            # a^T ad(g): equals -(g^T ad(a)) up to transposition only when ad is skew
            return 'CovRow'
        if ta == 'VecRow' and tb == 'Map':
            return 'VecRow'
        if ta == 'Map' and tb == 'VecCol':
            return 'VecCol'
        if ta == 'Map' and tb == 'Map':
            return 'Map'
        if 'Top' in (ta, tb):
            return 'Top'
        return 'Top'


def _int(e):
    if isinstance(e, ast.Constant) and isinstance(e.value, int):
        return e.value
    if isinstance(e, ast.UnaryOp) and isinstance(e.op, ast.USub) and isinstance(e.operand, ast.Constant):
        return -e.operand.value
    return None


def saved_kinds(repo, cname):
    """kinds ('Vec' | 'Map') of what setup_context saves, position by position"""
    f = repo.func(OP, cname + '.setup_context')
    inl = inline_straight(f.node)
    for st, env in inl.log:
        for c in paths.calls_in(st):
            if dotted(c.func) == 'ctx.save_for_backward':
                out = []
                for a in c.args:
                    v = subst(a, env)
                    d = dotted(v.func) if isinstance(v, ast.Call) else None
                    out.append('Map' if d and MAP_HELPER.match(d.split('.')[-1]) else 'Vec')
                return out, [subst(a, env) for a in c.args]
    raise AnalysisError('C04: %s.setup_context saves nothing' % cname)


@guarded
def rule_vt(repo, tier):
    res = RuleResult('C04.VT', 'variance typing of every hand-written backward: the incoming cotangent is a covector, it may only '
                     'be pulled back (row @ map); push-forwards / ad(cotangent) are accepted only for families with orthogonal '
                     'Adj / skew ad (derived: SO3, RxSO3)', floor=32)
    orth, skew = orthogonal_families(repo), skew_families(repo)
    res.notes.append('orthogonal Adj families (derived): %s' % sorted(k for k, v in orth.items() if v))
    res.notes.append('skew ad families (derived): %s' % sorted(k for k, v in skew.items() if v))
    # Lie-theoretic table (trusted base): Adj is orthogonal / ad is skew exactly for the rotation(-scale) groups
    for fam in FAMS:
        want = fam in ('SO3', 'RxSO3')
        if orth[fam] != want:
            b = repo.func(OP, fam + '_Adj')
            res.add(Finding('C04.VT', b, '%s_Adj %s the block structure of an orthogonal adjoint (SO3_Adj blocks on the diagonal of an '
                            'identity) but Adj(%s) %s orthogonal: either the adjoint matrix is wrong or the backward shortcuts relying on '
                            'orthogonality are' % (fam, 'has' if orth[fam] else 'no longer has', fam, 'is not' if not want else 'is'),
                            construct='%s_Adj structure' % fam))
        if skew[fam] != want:
            b = repo.func(OP, ALG[fam] + '_adj')
            res.add(Finding('C04.VT', b, '%s_adj %s the block structure of a skew-symmetric ad (vec2skew blocks on the diagonal of a zero '
                            'matrix), contrary to the Lie algebra of %s' % (ALG[fam], 'has' if skew[fam] else 'no longer has', fam),
                            construct='%s_adj structure' % ALG[fam]))
    for fam in FAMS:
        for op in OPS8:
            cname = op_class(fam, op)
            f = repo.func(OP, cname + '.backward')
            pp = f.pos_params
            if len(pp) != 2:
                raise AnalysisError('C04.VT: %s.backward has parameters %s' % (cname, pp))
            kinds, _ = saved_kinds(repo, cname)
            rets = returns_of(f.node)
            if len(rets) != 1:
                raise AnalysisError('C04.VT: %s.backward has %d returns' % (cname, len(rets)))
            val = inline_straight(f.node, upto=rets[0]).value(rets[0].value)
            vt = VT(fam, pp[1], kinds, orth, skew)
            comps = val.elts if isinstance(val, ast.Tuple) else [val]
            types = [vt.t(c) for c in comps]
            res.inst({'function': f.fq, 'returned': types, 'events': len(vt.events)}, f.fq)
            res.unresolved += vt.top
            seen = set()
            for node, msg in vt.events:
                if msg in seen:
                    continue
                seen.add(msg)
                res.add(Finding('C04.VT', f, msg, construct=msg.split(':')[0][:80] + ' | ' + _shape(node)))
            for i, (c, t) in enumerate(zip(comps, types)):
                if isinstance(c, ast.Constant) and c.value is None:
                    continue
                if t not in ('Cov', 'Top'):
                    res.add(Finding('C04.VT', f, 'returned gradient #%d has variance type %s, must be a covector' % (i, t),
                                    construct='return #%d : %s' % (i, t)))
                if t == 'Top':
                    res.unresolved += 1
    if res.unresolved > 8:
        raise AnalysisError('C04.VT: %d expressions could not be typed (ceiling 8)' % res.unresolved)
    return res


def _shape(node):
    """callee skeleton of the offending expression with family prefixes removed (stable key)"""
    names = []
    for n in ast.walk(node):
        if isinstance(n, ast.Call):
            d = dotted(n.func)
            if d and not d.startswith('$'):
                names.append(re.sub(r'^(SO3|SE3|RxSO3|Sim3|so3|se3|rxso3|sim3)_', '', d))
    return ','.join(names[:4])




# ---------------------------------------------------------------- SB: sibling agreement of the four families

from .lie_common import normalised_return, FAM_RE, ALG_RE, rule_masks      # noqa: E402
from .. import layout as L                                      # noqa: E402


def _famnorm(s):
    s = FAM_RE.sub('G_', s)
    return ALG_RE.sub('g_', s)


@guarded
def rule_sb(repo, tier):
    res = RuleResult('C04.SB', 'the four family siblings of each op return structurally equal backward / setup_context expression '
                     'trees after family normalisation (SO3|SE3|RxSO3|Sim3 -> G, so3|.. -> g); AdjTXa is compared within the '
                     'orthogonal pair (SO3, RxSO3) and within the non-orthogonal pair (SE3, Sim3)', floor=16)
    for op in OPS8:
        for meth in ('backward', 'setup_context'):
            forms = {}
            for fam in FAMS:
                f = repo.func(OP, op_class(fam, op) + '.' + meth)
                if meth == 'backward':
                    n = normalised_return(f, _famnorm)
                    if n is not None:
                        n = n + '||' + _skeleton(f)
                else:
                    n = _saved_norm(repo, op_class(fam, op))
                if n is None:
                    raise AnalysisError('C04.SB: %s.%s lost its single return / save_for_backward' % (op_class(fam, op), meth))
                forms[fam] = (n, f)
            groups = [FAMS] if op != 'AdjTXa' else [['SO3', 'RxSO3'], ['SE3', 'Sim3']]
            for grp in groups:
                vals = {}
                for fam in grp:
                    vals.setdefault(forms[fam][0], []).append(fam)
                res.inst({'op': op, 'method': meth, 'families': grp, 'distinct_forms': len(vals)}, (op, meth, tuple(grp)))
                if len(vals) > 1:
                    # the minority form is the suspect
                    minority = sorted(vals.values(), key=len)[0]
                    for fam in minority:
                        f = forms[fam][1]
                        res.add(Finding('C04.SB', f, '%s.%s differs structurally from its siblings %s (after family normalisation): a sign, '
                                        'helper or operand role was changed in one family only' % (op_class(fam, op), meth,
                                                                                              [x for x in grp if x != fam]),
                                        construct='%s.%s vs siblings' % (op, meth)))
    return res


def _skeleton(f):
    """control skeleton of a function: nesting depth and (family-normalised) test of every branch / loop"""
    out = []

    def rec(stmts, depth):
        for st in stmts:
            if isinstance(st, (ast.If, ast.While)):
                out.append('%d:%s' % (depth, _famnorm(src(st.test))))
                rec(st.body, depth + 1)
                rec(st.orelse, depth + 1)
            elif isinstance(st, (ast.For, ast.With, ast.Try)):
                out.append('%d:%s' % (depth, type(st).__name__))
                rec(getattr(st, 'body', []), depth + 1)
                rec(getattr(st, 'orelse', []) or [], depth + 1)
                for h in getattr(st, 'handlers', []) or []:
                    rec(h.body, depth + 1)
                rec(getattr(st, 'finalbody', []) or [], depth + 1)
    rec(f.node.body, 0)
    return ';'.join(out)


def _saved_norm(repo, cname):
    kinds, exprs = saved_kinds(repo, cname)
    return '|'.join(_famnorm(dump(e)) for e in exprs)


# ---------------------------------------------------------------- LT: arity / shape conventions of gradients

OPSIG = {'Log': (['G'], 'g'), 'Exp': (['g'], 'G'), 'Act': (['G', 3], 3), 'Act4': (['G', 4], 4), 'AdjXa': (['G', 'g'], 'g'),
         'AdjTXa': (['G', 'g'], 'g'), 'Mul': (['G', 'G'], 'G'), 'Inv': (['G'], 'G')}


class _SavedSubst(ast.NodeTransformer):
    def visit_Call(self, n):
        self.generic_visit(n)
        if dotted(n.func) == '$item' and dotted(n.args[0]) in ('ctx.saved_tensors', 'inputs') and isinstance(n.args[1], ast.Constant):
            return ast.Name('$%s%d' % ('saved' if dotted(n.args[0]) == 'ctx.saved_tensors' else 'in', n.args[1].value), ast.Load())
        # torch.zeros(<shape> + (k,), ...) : a block of k zeros in the last dimension
        if dotted(n.func) == 'torch.zeros' and n.args and isinstance(n.args[0], ast.BinOp) and isinstance(n.args[0].op, ast.Add) \
                and isinstance(n.args[0].right, ast.Tuple) and len(n.args[0].right.elts) == 1 and isinstance(n.args[0].right.elts[0], ast.Constant):
            return ast.Call(ast.Name('$zeros', ast.Load()), [n.args[0].right.elts[0]], [])
        return n


class _BTyper(L.Typer):
    def call(self, e):
        if dotted(e.func) == '$zeros':
            return L.Vec([('z', e.args[0].value)])
        return super().call(e)


@guarded
def rule_lt(repo, tier):
    res = RuleResult('C04.LT', 'backward returns one gradient per forward input; a gradient for a group input is (manifold-dim part, one '
                     'zero), for an algebra / point input the full dimension; grad_output[..., :-1] is used exactly when the op output '
                     'is a group element (typed matrix products); saved tensors are used with the layout setup_context saved', floor=32)
    table = L.extract_table(repo)
    sigs = L.signatures(table)
    for fam in FAMS:
        for op in OPS8:
            cname = op_class(fam, op)
            ins, outk = OPSIG[op]
            def lay(k):
                if k == 'G':
                    return L.Vec(L.atoms_of(table, fam))
                if k == 'g':
                    return L.Vec(L.atoms_of(table, ALG[fam]))
                return L.Vec([('g', 3)] if k == 3 else [('g', 3), ('g', 1)])
            in_l = [lay(k) for k in ins]
            out_l = lay(outk)
            fwd = repo.func(OP, cname + '.forward')
            if len(fwd.pos_params) != len(ins):
                raise AnalysisError('C04.LT: %s.forward takes %s' % (cname, fwd.pos_params))
            _, saved_exprs = saved_kinds(repo, cname)
            env = {'output': out_l}
            for i, l in enumerate(in_l):
                env['$in%d' % i] = l
            sty = _BTyper(table, sigs, env)
            benv = {}
            for i, e in enumerate(saved_exprs):
                benv['$saved%d' % i] = sty.t(_SavedSubst().visit(copy.deepcopy(e)))
            f = repo.func(OP, cname + '.backward')
            gname = f.pos_params[1]
            benv[gname] = L.Vec([('g', out_l.size)])
            rets = returns_of(f.node)
            val = inline_straight(f.node, upto=rets[0]).value(rets[0].value)
            val = _SavedSubst().visit(copy.deepcopy(val))
            ty = _BTyper(table, sigs, benv)
            comps = val.elts if isinstance(val, ast.Tuple) else [val]
            types = [ty.t(c) for c in comps]
            res.inst({'function': f.fq, 'inputs': ins, 'gradients': [repr(t) for t in types], 'saved': [repr(v) for v in benv.values()][:-1]}, f.fq)
            res.unresolved += ty.unknown
            if len(comps) != len(ins):
                res.add(Finding('C04.LT', f, '%s.backward returns %d gradients for %d forward inputs' % (cname, len(comps), len(ins)),
                                construct='arity'))
                continue
            seen = set()
            for node, msg in ty.problems + sty.problems:
                if msg not in seen:
                    seen.add(msg)
                    res.add(Finding('C04.LT', f, msg, construct=re.sub(r'\s+', ' ', msg)[:160]))
            for i, (k, t) in enumerate(zip(ins, types)):
                if not isinstance(t, L.Vec) or t.form != 'vec':
                    if t is not None:
                        res.add(Finding('C04.LT', f, 'gradient #%d of %s is %s, not a vector' % (i, cname, t), construct='grad #%d form' % i))
                    else:
                        res.unresolved += 1
                    continue
                want = in_l[i].size
                zero_tail = bool(t.atoms) and t.atoms[-1] == ('z', 1)
                if t.size != want:
                    res.add(Finding('C04.LT', f, 'gradient #%d of %s has %d entries (%s); the input has %d' % (i, cname, t.size, t, want),
                                    construct='grad #%d size' % i))
                elif k == 'G' and not zero_tail:
                    res.add(Finding('C04.LT', f, 'gradient #%d of %s (group input) must end with the structural zero slot; got %s' % (i, cname, t),
                                    construct='grad #%d zero slot' % i))
                elif k != 'G' and any(a[0] == 'z' for a in t.atoms):
                    res.add(Finding('C04.LT', f, 'gradient #%d of %s (algebra / point input) carries a structural zero slot: %s' % (i, cname, t),
                                    construct='grad #%d zero slot' % i))
    if res.unresolved > 12:
        raise AnalysisError('C04.LT: %d expressions could not be typed (ceiling 12)' % res.unresolved)
    return res


@guarded
def rule_saved(repo, tier):
    """The left-perturbation Jacobian of the action, d (Exp(e) X . p) / d e at e = 0, is a function of the TRANSFORMED point X . p.  In every
    Act / Act4 Function the argument of the *_Act*_Jacobian helper must therefore be the forward's output: the saved slot that setup_context
    filled from `output`, or a recomputation <Class>.forward(saved inputs in order).  Roles are traced through save_for_backward /
    saved_tensors by position, not by variable name."""
    res = RuleResult('C04.SAVED', 'Act / Act4 backward: the action Jacobian w.r.t. the group element is evaluated at the transformed point (the forward '
                     'output), traced by position through save_for_backward / saved_tensors', floor=8)
    m = repo.module(OP)
    for ci in m.classes.values():
        bw, sc, fw = ci.methods.get('backward'), ci.methods.get('setup_context'), ci.methods.get('forward')
        if bw is None or sc is None or fw is None:
            continue
        jac = [c for c in paths.calls_in(bw.node) if isinstance(c.func, ast.Name) and c.func.id.endswith('_Jacobian') and '_Act' in c.func.id and c.args]
        if not jac:
            continue
        # roles saved by setup_context
        scp = sc.pos_params
        if len(scp) < 3:
            raise AnalysisError('C04.SAVED: %s.setup_context has an unexpected signature' % ci.name)
        in_name, out_name = scp[1], scp[2]
        role = {out_name: 'out'}
        for n in ast.walk(sc.node):
            if isinstance(n, ast.Assign):
                if isinstance(n.value, ast.Name) and n.value.id == in_name:
                    for t in n.targets:
                        if isinstance(t, ast.Tuple):
                            for i, x in enumerate(t.elts):
                                if isinstance(x, ast.Name):
                                    role[x.id] = 'in%d' % i
                elif isinstance(n.value, ast.Name) and n.value.id in role:
                    for t in n.targets:
                        if isinstance(t, ast.Name):
                            role[t.id] = role[n.value.id]
                elif isinstance(n.value, ast.Subscript) and isinstance(n.value.value, ast.Name) and n.value.value.id == in_name and \
                        isinstance(n.value.slice, ast.Constant):
                    for t in n.targets:
                        if isinstance(t, ast.Name):
                            role[t.id] = 'in%d' % n.value.slice.value
        saves = [c for c in paths.calls_in(sc.node) if isinstance(c.func, ast.Attribute) and c.func.attr == 'save_for_backward']
        if len(saves) != 1:
            raise AnalysisError('C04.SAVED: %s.setup_context has %d save_for_backward calls' % (ci.name, len(saves)))
        slots = [role.get(a.id) if isinstance(a, ast.Name) else None for a in saves[0].args]
        # roles in backward
        brole = {}
        for n in ast.walk(bw.node):
            if isinstance(n, ast.Assign) and isinstance(n.value, ast.Attribute) and n.value.attr == 'saved_tensors':
                for t in n.targets:
                    if isinstance(t, ast.Tuple):
                        for i, x in enumerate(t.elts):
                            if isinstance(x, ast.Name) and i < len(slots):
                                brole[x.id] = slots[i]
        changed = True
        while changed:
            changed = False
            for n in ast.walk(bw.node):
                if isinstance(n, ast.Assign) and len(n.targets) == 1 and isinstance(n.targets[0], ast.Name) and n.targets[0].id not in brole:
                    v = n.value
                    r = None
                    if isinstance(v, ast.Name) and v.id in brole:
                        r = brole[v.id]
                    elif isinstance(v, ast.Call) and (dotted(v.func) or '') in (ci.name + '.forward', ci.name + '.apply') and \
                            [brole.get(a.id) if isinstance(a, ast.Name) else None for a in v.args] == ['in%d' % i for i in range(len(v.args))] and v.args:
                        r = 'out'
                    if r is not None:
                        brole[n.targets[0].id] = r
                        changed = True
        for c in jac:
            a0 = c.args[0]
            r = brole.get(a0.id) if isinstance(a0, ast.Name) else None
            if r is None and isinstance(a0, ast.Call) and (dotted(a0.func) or '') in (ci.name + '.forward', ci.name + '.apply'):
                r = 'out' if [brole.get(a.id) if isinstance(a, ast.Name) else None for a in a0.args] == ['in%d' % i for i in range(len(a0.args))] else None
            res.inst({'class': ci.fq, 'jacobian': src(c)[:50], 'saved slots': slots, 'argument is': r}, ci.fq)
            if r != 'out':
                res.add(Finding('C04.SAVED', bw, '`%s` evaluates the action Jacobian at %s; it is a function of the transformed point, the forward output '
                                '(setup_context saves %s)' % (src(c)[:50], {'in0': 'the group element', 'in1': 'the UNtransformed input point'}.get(r, 'a value of unknown origin'),
                                                              slots), node=c))
    return res


def rule_mat4(repo, tier):
    from .c03 import rule_mat
    return rule_mat(repo, 'C04.MAT', strict=True)


@guarded
def rule_hrow(repo, tier):
    """The action on a homogeneous 4-vector leaves its last coordinate alone (out[3] = w for every group element), so the Jacobian of Act4 with
    respect to the element has a ZERO last row.  Block analysis of the four *_Act4_Jacobian builders: a zero-initialised matrix stays zero in row 3
    when every store addresses rows :3 only (or stores whole rows of a block that is itself zero in its last row); a concatenation along the
    columns keeps the property iff every block has it.  A block like p.unsqueeze(-1) (the 4-vector itself as scale column) puts w into row 3: the
    scale slot of X.grad then receives w times the cotangent of the homogeneous coordinate."""
    res = RuleResult('C04.HROW', 'every *_Act4_Jacobian has a zero last row (the homogeneous coordinate does not depend on the group element): blocks are '
                     'stored into rows :3 of a zero matrix, or concatenated from blocks with that property', floor=4)
    names = ['SO3_Act4_Jacobian', 'SE3_Act4_Jacobian', 'RxSO3_Act4_Jacobian', 'Sim3_Act4_Jacobian']
    memo = {}

    def rows_only_top(sl):
        el = list(sl.elts) if isinstance(sl, ast.Tuple) else [sl]
        if not el or not (isinstance(el[0], ast.Constant) and el[0].value is Ellipsis):
            return None
        el = el[1:]
        if len(el) == 1:
            return 'all'                      # [..., cols]: whole rows... of the LAST axis only -> every row is written
        if len(el) != 2:
            return None
        r = el[0]
        if isinstance(r, ast.Constant) and isinstance(r.value, int):
            return 'top' if 0 <= r.value <= 2 else 'touches'
        if isinstance(r, ast.Slice) and r.step is None:
            lo = 0 if r.lower is None else (r.lower.value if isinstance(r.lower, ast.Constant) and isinstance(r.lower.value, int) else None)
            hi = r.upper.value if isinstance(r.upper, ast.Constant) and isinstance(r.upper.value, int) else None
            if r.upper is None:
                return 'all' if lo == 0 else 'touches'
            if lo is not None and hi is not None and 0 <= lo and 0 < hi <= 3:
                return 'top'
            return 'touches'
        return None

    def and3(vals):
        vals = list(vals)
        if any(v is False for v in vals):
            return False
        return None if any(v is None for v in vals) else True

    def zero_last(e, depth=0, param=None):
        """True: last row provably zero; False: provably carries data; None: idiom not recognised"""
        if isinstance(e, ast.Call):
            d = dotted(e.func) or ''
            if d == '$upd':
                prev, idx, val = e.args
                how = rows_only_top(idx.slice) if isinstance(idx, ast.Subscript) else None
                if how == 'top':
                    return zero_last(prev, depth, param)
                if how == 'all':
                    return and3([zero_last(prev, depth, param), zero_last(val, depth, param)])
                if how == 'touches':
                    return False
                return None
            if d in ('torch.zeros', 'torch.zeros_like') or (isinstance(e.func, ast.Attribute) and e.func.attr == 'new_zeros'):
                return True
            if d in ('torch.cat', 'torch.concat') and e.args and isinstance(e.args[0], (ast.Tuple, ast.List)):
                dim = next((k.value for k in e.keywords if k.arg == 'dim'), e.args[1] if len(e.args) > 1 else None)
                try:
                    dv = ast.literal_eval(dim) if dim is not None else 0
                except (ValueError, SyntaxError):
                    return None
                if dv == -1:
                    return and3(zero_last(x, depth, param) for x in e.args[0].elts)
                if dv == -2:
                    return zero_last(e.args[0].elts[-1], depth, param)
                return None
            if d.endswith('functional.pad') or d in ('F.pad', 'pad'):
                try:
                    pad = ast.literal_eval(e.args[1]) if len(e.args) > 1 else None
                except (ValueError, SyntaxError):
                    pad = None
                if isinstance(pad, (tuple, list)) and len(pad) >= 4 and pad[3] >= 1:
                    return True
                return None
            if isinstance(e.func, ast.Attribute) and e.func.attr == 'unsqueeze' and len(e.args) == 1 and src(e.args[0]).replace(' ', '') == '-1' \
                    and isinstance(e.func.value, ast.Name) and e.func.value.id == param:
                return False                  # the homogeneous 4-vector itself as a column: its last entry w lands in row 3
            if isinstance(e.func, ast.Name) and e.func.id in repo.module(OP).functions and depth < 4:
                g = e.func.id
                if g not in memo:
                    memo[g] = None
                    gf = repo.func(OP, g)
                    rets = returns_of(gf.node)
                    if len(rets) == 1 and rets[0].value is not None:
                        memo[g] = zero_last(inline_straight(gf.node, upto=rets[0]).value(rets[0].value), depth + 1, gf.pos_params[0] if gf.pos_params else None)
                return memo[g]
        return None

    for n in names:
        f = repo.func(OP, n)
        rets = returns_of(f.node)
        if len(rets) != 1 or rets[0].value is None:
            raise AnalysisError('C04.HROW: %s has %d returns' % (n, len(rets)))
        v = inline_straight(f.node, upto=rets[0]).value(rets[0].value)
        ok = zero_last(v, 0, f.pos_params[0] if f.pos_params else None)
        if ok is None:
            raise AnalysisError('C04.HROW: the block structure of %s is not recognised' % n)
        res.inst({'function': f.fq, 'last_row_zero': ok}, f.fq)
        if not ok:
            res.add(Finding('C04.HROW', f, '%s: the last row of the Jacobian (derivative of the homogeneous coordinate, which no group element changes) is '
                            'not zero - a block is written into row 3 or the full 4-vector is used as a column; the gradient of X then picks up the '
                            'cotangent of the homogeneous coordinate' % n, node=rets[0], construct='last row of the Act4 Jacobian'))
    return res


FRESH_CTORS = {'torch.zeros', 'torch.ones', 'torch.eye', 'torch.empty', 'torch.full'}


def _vmap_scan(repo, f, tainted, depth, trail, out, seen):
    """Forward taint scan of one function body: `tainted` = names holding values that are BATCHED under vmap (the cotangent of a vectorised
    reverse pass and everything computed from it).  A tensor allocated by an explicit constructor from shape expressions (torch.zeros(x.shape[:-1] + ..))
    is un-batched under vmap whatever its operands; writing a batched value into it in place is the operation vmap cannot do.
    -> True if the function's result is tainted."""
    key = (f.fq, tuple(sorted(tainted)))
    if key in seen or depth > 3:
        return True
    seen.add(key)
    tainted = set(tainted)
    fresh = set()
    ret_tainted = False

    def is_t(e):
        # meta-data of a batched tensor (shape / dtype / device / size()) is not batched
        meta = set()
        for x in ast.walk(e):
            if isinstance(x, ast.Attribute) and x.attr in ('shape', 'device', 'dtype', 'ndim', 'layout', 'size', 'dim', 'numel') and isinstance(x.value, ast.Name):
                meta.add(id(x.value))
        return any(isinstance(x, ast.Name) and x.id in tainted and id(x) not in meta for x in ast.walk(e))

    def call_effects(st):
        """calls inside st that receive a tainted argument: scan the callee"""
        nonlocal ret_tainted
        for c in paths.calls_in(st):
            args = list(c.args) + [k.value for k in c.keywords]
            targs = [i for i, a_ in enumerate(c.args) if is_t(a_)]
            if not targs:
                continue
            callee = None
            if isinstance(c.func, ast.Name) and c.func.id in repo.module(OP).functions:
                callee = repo.module(OP).functions[c.func.id]
                params = callee.pos_params
            elif isinstance(c.func, ast.Attribute) and c.func.attr == 'apply' and isinstance(c.func.value, ast.Name) and c.func.value.id in repo.module(OP).classes:
                ci = repo.module(OP).classes[c.func.value.id]
                callee = ci.methods.get('forward')
                params = [p_ for p_ in (callee.pos_params if callee else []) if p_ != 'ctx']
            if callee is None:
                continue
            tp = {params[i] for i in targs if i < len(params)}
            if tp:
                _vmap_scan(repo, callee, tp, depth + 1, trail + [f.fq], out, seen)

    def walk(body):
        nonlocal ret_tainted
        for st in body:
            if isinstance(st, (ast.FunctionDef, ast.ClassDef)):
                continue
            call_effects(st)
            if isinstance(st, ast.Assign):
                v = st.value
                for t in st.targets:
                    if isinstance(t, ast.Subscript):
                        base = t.value
                        if isinstance(base, ast.Name) and base.id in fresh and is_t(v):
                            out.append((f, st, base.id, trail + [f.fq]))
                    for el in (t.elts if isinstance(t, (ast.Tuple, ast.List)) else [t]):
                        if isinstance(el, ast.Name):
                            d = dotted(v.func) if isinstance(v, ast.Call) else None
                            core = v
                            while isinstance(core, ast.Call) and isinstance(core.func, ast.Attribute) and core.func.attr in ('repeat', 'expand', 'clone', 'contiguous', 'to'):
                                core = core.func.value
                            dc = dotted(core.func) if isinstance(core, ast.Call) else None
                            if dc in FRESH_CTORS and not is_t(core):
                                fresh.add(el.id)
                                tainted.discard(el.id)
                            elif is_t(v):
                                tainted.add(el.id)
                                fresh.discard(el.id)
                            else:
                                fresh.discard(el.id)
                                tainted.discard(el.id)
            elif isinstance(st, ast.AugAssign):
                base = st.target.value if isinstance(st.target, ast.Subscript) else st.target
                if isinstance(base, ast.Name) and base.id in fresh and is_t(st.value):
                    out.append((f, st, base.id, trail + [f.fq]))
                elif isinstance(st.target, ast.Name) and is_t(st.value):
                    tainted.add(st.target.id)
            elif isinstance(st, ast.Expr) and isinstance(st.value, ast.Call) and isinstance(st.value.func, ast.Attribute) and st.value.func.attr.endswith('_') \
                    and isinstance(st.value.func.value, ast.Name) and st.value.func.value.id in fresh and any(is_t(a_) for a_ in st.value.args):
                out.append((f, st, st.value.func.value.id, trail + [f.fq]))
            elif isinstance(st, ast.Return) and st.value is not None and is_t(st.value):
                ret_tainted = True
            for fld in ('body', 'orelse', 'finalbody'):
                sub = getattr(st, fld, None)
                if isinstance(sub, list) and sub and isinstance(sub[0], ast.stmt):
                    walk(sub)
    walk(f.node.body)
    return ret_tainted


@guarded
def rule_vmap(repo, tier):
    """The vectorised reverse pass (pp.func.jacrev, torch.autograd.functional.jacobian(vectorize=True), modjac(vectorize=True)) runs every backward ONCE
    under torch.vmap with the cotangent batched.  All operators declare generate_vmap_rule = True, i.e. their bodies are executed under vmap as they
    are.  What vmap cannot execute is an in-place write of a batched value into an un-batched tensor: a buffer allocated inside the body by
    torch.zeros / eye / empty from shape expressions is un-batched, a value computed from the cotangent is batched."""
    res = RuleResult('C04.VMAP', 'vectorised reverse mode: in no backward (and in no helper / forward it calls with a cotangent-derived argument) is a value '
                     'computed from grad_output written in place into a tensor freshly allocated from shape expressions (torch.zeros / eye / empty): the write '
                     'is what vmap rejects, so the Jacobian cannot be taken by jacrev for that operator while its siblings work', floor=25)
    out = []
    n = 0
    for cname, ci in sorted(repo.module(OP).classes.items()):
        bw = ci.methods.get('backward')
        if bw is None:
            continue
        gv = any(isinstance(st, ast.Assign) and any(isinstance(t, ast.Name) and t.id == 'generate_vmap_rule' for t in st.targets) and
                 isinstance(st.value, ast.Constant) and st.value.value is True for st in ci.node.body)
        if not gv:
            continue
        n += 1
        grads = {p_ for p_ in bw.pos_params if p_ != 'ctx'}
        before = len(out)
        _vmap_scan(repo, bw, grads, 0, [], out, set())
        res.inst({'class': ci.fq, 'cotangent parameters': sorted(grads), 'in-place writes of cotangent-derived values into fresh buffers': len(out) - before}, ci.fq)
    seenk = set()
    for f, st, buf, trail in out:
        k = (f.fq, src(st)[:60], trail[0])
        if k in seenk:
            continue
        seenk.add(k)
        res.add(Finding('C04.VMAP', repo.func(OP, trail[0].split(':')[1]) if ':' in trail[0] else f, 'reached from %s with a cotangent-derived argument: `%s` in %s writes it in place into `%s`, '
                        'a buffer allocated from shape expressions (un-batched under vmap): jacrev / jacobian(vectorize=True) raise "vmap: inplace arithmetic ... is not '
                        'possible" for this operator' % (trail[0].split(':')[-1], src(st)[:60], f.qual, buf), node=None,
                        construct='vmap in-place|%s|%s' % (f.qual, buf)))
    if n == 0:
        raise AnalysisError('C04.VMAP: no autograd function with generate_vmap_rule found')
    # fixture
    fx = ast.parse('def h(x):\n    J = torch.zeros(x.shape[:-1] + (3, 3))\n    J[..., :3, :3] = x\n    return J\n')
    return res


def _rules_core(repo, tier):
    # the Jacobian helpers the hand-written backwards are built from: same mask / guarded-division obligations as the forward coefficient helpers
    return list(rule_masks(repo, 'C04.MP', 'C04.GD', [(OP, 'so3_Jl'), (OP, 'so3_Jl_inv'), (OP, 'calcQ')], floor=3)) + [rule_vt(repo, tier), rule_sb(repo, tier), rule_lt(repo, tier), rule_pure(repo, tier), rule_dep(repo, tier), rule_saved(repo, tier), rule_mat4(repo, tier), rule_hrow(repo, tier), rule_vmap(repo, tier), __import__('sa.limits', fromlist=['x']).rule_bernoulli(repo, 'C04.BERN', OP, [('sim3_Jl', 'sim3_Jl_inv', 'sim3_adj')])]


@guarded
def rule_pure(repo, tier):
    from .. import effects
    res = RuleResult('C04.PURE', 'every function and autograd method of pypose.lietensor.operation is pure: it writes in place neither into '
                     'its arguments / saved tensors nor into storage shared between calls (memoised results, module-level tensors) - '
                     'otherwise gradients depend on call history', floor=100)
    S, stats = effects.compute_summaries(repo)
    for f in repo.module(OP).functions.values():
        s = S[f.fq]
        res.inst({'function': f.fq, 'mutates_params': sorted(str(x) for x in s.mut), 'writes_shared': sorted(s.shared)}, f.fq)
        for lab, (node, why, chain) in s.shared.items():
            res.add(Finding('C04.PURE', f, 'in-place write into %s (%s%s): a later backward pass sees the modified object' % (
                lab, why, (' via ' + ' -> '.join(chain)) if chain else ''), node=node if isinstance(node, ast.AST) else None,
                construct='shared <- ' + lab))
        for (pi, path) in sorted(s.mut, key=str):
            node, why, chain = s.sinks[(pi, path)]
            pname = f.params[pi] if pi < len(f.params) else '?'
            res.add(Finding('C04.PURE', f, 'overwrites its argument `%s` in place (%s)' % (pname, why), node=node if isinstance(node, ast.AST) else None,
                            construct='param <- ' + pname))
    return res


# ---------------------------------------------------------------- DEP: slot-dependency agreement between Act4 forward and its Jacobian helper

def _slots_used(repo, fname, layout_slots, depth=0):
    """roles of the (single) vector parameter of helper `fname` that its result depends on, following repo callees"""
    f = repo.func(OP, fname)
    p = f.pos_params[0]
    used = set()
    size = layout_slots[-1][2]
    inl = inline_straight(f.node)
    exprs = [v for v in inl.env.values() if isinstance(v, ast.AST)]
    for r in returns_of(f.node):
        if r.value is not None:
            exprs.append(inline_straight(f.node, upto=r).value(r.value))

    def roles_of_slice(sl):
        lo = L._const(sl.lower, 0) if isinstance(sl, ast.Slice) else L._const(sl, None)
        hi = L._const(sl.upper, size) if isinstance(sl, ast.Slice) else (None if lo is None else lo + 1)
        if lo is None or hi is None:
            return {r for r, a, b in layout_slots}
        lo = lo + size if lo < 0 else lo
        hi = hi + size if hi < 0 else min(hi, size)
        return {r for r, a, b in layout_slots if a < hi and lo < b}
    for e in exprs:
        for n in ast.walk(e):
            if isinstance(n, ast.Subscript) and isinstance(n.value, ast.Name) and n.value.id == p and isinstance(n.slice, ast.Tuple) \
                    and len(n.slice.elts) >= 2 and isinstance(n.slice.elts[0], ast.Constant) and n.slice.elts[0].value is Ellipsis:
                used |= roles_of_slice(n.slice.elts[1])
            if isinstance(n, ast.Call) and isinstance(n.func, ast.Name) and repo.has_func(OP, n.func.id) and depth < 3:
                for a in n.args:
                    if isinstance(a, ast.Name) and a.id == p:
                        g = repo.func(OP, n.func.id)
                        if len(g.pos_params) == 1:
                            used |= _slots_used(repo, n.func.id, layout_slots, depth + 1)
                        else:
                            used |= {r for r, _, _ in layout_slots}
            if isinstance(n, ast.Name) and n.id == p and isinstance(getattr(n, 'ctx', None), ast.Load):
                pass
    # bare uses of the whole parameter in arithmetic (not as a call argument / subscript base / shape query)
    for e in exprs:
        parents = {}
        for n in ast.walk(e):
            for c in ast.iter_child_nodes(n):
                parents[id(c)] = n
        for n in ast.walk(e):
            if isinstance(n, ast.Name) and n.id == p:
                par = parents.get(id(n))
                if isinstance(par, ast.Subscript) and par.value is n:
                    continue
                if isinstance(par, ast.Attribute) and par.attr in ('shape', 'device', 'dtype'):
                    continue
                if isinstance(par, ast.Call) and n in par.args and isinstance(par.func, ast.Name) and repo.has_func(OP, par.func.id):
                    continue
                used |= {r for r, _, _ in layout_slots}
    return used


@guarded
def rule_dep(repo, tier):
    res = RuleResult('C04.DEP', 'slot-dependency agreement: for groups with a translation slot the forward of Act4 multiplies the translation by '
                     'the homogeneous coordinate of the point, so the pose gradient (its Act4 Jacobian helper) must depend on that '
                     'coordinate; every Act / Act4 Jacobian depends on the spatial part of the point', floor=8)
    table = L.extract_table(repo)
    vec3 = [('r', 0, 3)]
    vec4 = [('r', 0, 3), ('h', 3, 4)]
    for fam in FAMS:
        has_t = any(s[0] == 't' for s in table[fam]['slots'])
        for name, lay in ((fam + '_Act_Jacobian', vec3), (fam + '_Act4_Jacobian', vec4)):
            used = _slots_used(repo, name, lay)
            f = repo.func(OP, name)
            want = {'r'} | ({'h'} if (has_t and lay is vec4) else set())
            res.inst({'function': f.fq, 'point_slots_used': sorted(used), 'required': sorted(want)}, f.fq)
            for r in sorted(want - used):
                res.add(Finding('C04.DEP', f, '%s does not depend on the %s of the point although the forward action does: the %s block of the '
                                'pose gradient is wrong whenever that coordinate differs from the value implicitly assumed' % (
                                    name, 'homogeneous coordinate w' if r == 'h' else 'spatial part', 'translation' if r == 'h' else 'rotation'),
                                construct='missing dependence on ' + r))
        # forward side of the same fact
        if has_t:
            fw = repo.func(OP, fam + '_Act4.forward')
            v = inline_straight(fw.node, upto=returns_of(fw.node)[0]).value(returns_of(fw.node)[0].value)
            X, p = fw.pos_params
            prod = False
            for n in ast.walk(v):
                if isinstance(n, ast.BinOp) and isinstance(n.op, ast.Mult):
                    s_ = (src(n.left).replace(' ', ''), src(n.right).replace(' ', ''))
                    if any(x.startswith(X + '[') for x in s_) and any(x.startswith(p + '[...,3') for x in s_):
                        prod = True
            res.inst({'function': fw.fq, 'translation_times_w': prod}, fw.fq)
            if not prod:
                res.add(Finding('C04.DEP', fw, '%s_Act4.forward does not scale the translation by the homogeneous coordinate of the point' % fam,
                                construct='forward t*w'))
    return res


def _scalar_terms(fnode):
    """[(store stmt, term)]: additive terms written into a 2-D BLOCK (both indices slices) that are a bare component of the argument broadcast over the block
    (x[..., k:].unsqueeze(-1), possibly scaled by constants) - no identity / skew / matrix factor"""
    params = {a.arg for a in fnode.args.args}
    defs = {}
    for n in ast.walk(fnode):
        if isinstance(n, ast.Assign):
            if len(n.targets) == 1 and isinstance(n.targets[0], ast.Name):
                defs.setdefault(n.targets[0].id, []).append(n.value)
            elif len(n.targets) == 1 and isinstance(n.targets[0], ast.Tuple) and isinstance(n.value, ast.Tuple) and len(n.targets[0].elts) == len(n.value.elts):
                for t, v in zip(n.targets[0].elts, n.value.elts):
                    if isinstance(t, ast.Name):
                        defs.setdefault(t.id, []).append(v)

    def bare(e, depth=0):
        """e is a component of a parameter reshaped by unsqueeze / [..., None] only"""
        if depth > 6:
            return False
        if isinstance(e, ast.Name):
            if e.id in params:
                return False
            ds = defs.get(e.id, [])
            return len(ds) == 1 and bare(ds[0], depth + 1)
        if isinstance(e, ast.Subscript):
            return isinstance(e.value, ast.Name) and e.value.id in params or bare(e.value, depth + 1)
        if isinstance(e, ast.Call) and isinstance(e.func, ast.Attribute) and e.func.attr in ('unsqueeze', 'clone', 'exp', 'neg') and not (dotted(e.func) or '').startswith('torch.'):
            return bare(e.func.value, depth + 1)
        if isinstance(e, ast.UnaryOp):
            return bare(e.operand, depth + 1)
        if isinstance(e, ast.BinOp) and isinstance(e.op, (ast.Mult, ast.Div)):
            return (bare(e.left, depth + 1) and isinstance(e.right, ast.Constant)) or (bare(e.right, depth + 1) and isinstance(e.left, ast.Constant))
        return False

    def terms(e):
        if isinstance(e, ast.BinOp) and isinstance(e.op, (ast.Add, ast.Sub)):
            return terms(e.left) + terms(e.right)
        return [e]
    out = []
    for n in ast.walk(fnode):
        tgt = val = None
        if isinstance(n, ast.Assign) and len(n.targets) == 1 and isinstance(n.targets[0], ast.Subscript):
            tgt, val = n.targets[0], n.value
        elif isinstance(n, ast.AugAssign) and isinstance(n.op, (ast.Add, ast.Sub)) and isinstance(n.target, ast.Subscript):
            tgt, val = n.target, n.value
        if tgt is None or not isinstance(tgt.slice, ast.Tuple) or len(tgt.slice.elts) < 2:
            continue
        if not (isinstance(tgt.slice.elts[-1], ast.Slice) and isinstance(tgt.slice.elts[-2], ast.Slice)):
            continue
        for t in terms(val):
            if bare(t):
                out.append((n, t))
    return out


@guarded
def rule_scalei(repo):
    """In the algebra adjoints and coupling matrices a scalar component (the log-scale sigma) enters a matrix block as sigma * I.  Written into a block as a bare
    broadcast scalar it is added to all nine entries (sigma * ones): the forward values that read the diagonal only stay right, the series built on ad (sim3_Jl,
    sim3_Jl_inv, the gradients of Sim3 Exp / Log / Adj) are wrong whenever sigma != 0."""
    res = RuleResult('C04.SCALEI', 'no matrix block of the adjoint / Jacobian helpers receives a bare scalar component of the argument as an additive term: a scalar enters '
                     'a block multiplied by an identity (or through a diagonal view)', floor=20)
    n = 0
    for q, f in repo.module(OP).functions.items():
        if '.' in q:
            continue
        hits = _scalar_terms(f.node)
        n += 1
        res.inst({'function': f.fq, 'bare scalar terms in block stores': [src(t)[:40] for _, t in hits]}, f.fq)
        for st, t in hits:
            res.add(Finding('C04.SCALEI', f, '`%s` adds the scalar `%s` to EVERY entry of the block (broadcast): the scale part of the adjoint is sigma * I, it belongs on the '
                            'diagonal only' % (src(st)[:70], src(t)[:40]), node=st, construct='scalar broadcast into a block'))
    fx = ast.parse('def f(x):\n    s = x[..., 6:]\n    ad = g(x)\n    ad[..., :3, :3] += s.unsqueeze(-1)\n    ad[..., 3:6, :3] = P + s.unsqueeze(-1) * I3x3\n    return ad\n').body[0]
    if len(_scalar_terms(fx)) != 1:
        raise AnalysisError('C04.SCALEI: fixtures no longer classified')
    return res


@guarded
def rule_once(repo):
    """modjac / modjacrev / modjacfwd differentiate the model: they hand a closure that calls it to the differentiation routine and never evaluate the model
    themselves.  An extra forward pass (a NaN probe, a shape check, a logged output) runs a stateful model twice per call - a clock, a sampler, a data cursor in
    the model advances, and the Jacobian that comes back belongs to the step after the one the caller asked for."""
    res = RuleResult('C04.ONCE', 'pypose.optim.functional: the model is evaluated only inside the closure handed to jacobian / jacrev / jacfwd - no direct call of the '
                     'model, of functional_call or of the closure in the body of modjac / modjacrev / modjacfwd', floor=3)
    mod = repo.module('pypose.optim.functional')
    for q in ('modjac', 'modjacrev', 'modjacfwd'):
        f = mod.functions.get(q)
        if f is None:
            raise AnalysisError('C04.ONCE: %s not found' % q)
        nested = {n.name for n in ast.walk(f.node) if isinstance(n, ast.FunctionDef) and n is not f.node}
        partials = {a.targets[0].id for a in ast.walk(f.node) if isinstance(a, ast.Assign) and len(a.targets) == 1 and isinstance(a.targets[0], ast.Name) and
                    isinstance(a.value, ast.Call) and dotted(a.value.func) in ('partial', 'functools.partial')}
        callers = nested | partials | {'model', 'functional_call', 'func'}
        hits = []
        stack = list(f.node.body)
        while stack:
            n = stack.pop()
            if isinstance(n, (ast.FunctionDef, ast.AsyncFunctionDef, ast.Lambda, ast.ClassDef)):
                continue
            if isinstance(n, ast.Call) and isinstance(n.func, ast.Name) and n.func.id in callers:
                hits.append(n)
            stack.extend(ast.iter_child_nodes(n))
        res.inst({'function': f.fq, 'closures': sorted(nested | partials), 'direct evaluations of the model': [src(c)[:50] for c in hits]}, f.fq)
        for c in hits:
            res.add(Finding('C04.ONCE', f, '`%s` evaluates the model in the body of %s, outside the differentiation: a model with internal state (a clock advanced per '
                            'call, a sampler) is stepped twice, the Jacobian returned is the one of the NEXT state' % (src(c)[:50], q), node=c,
                            construct='extra forward pass|' + q))
    return res


def rules(repo, tier):
    from ..memo import rule_memo
    from ..optional import rule_optional
    from ..mode import mode_rules
    from ..callsig import rule_callsig
    from ..docsig import rule_docsig
    from ..axisdefault import rule_axisdefault
    return list(_rules_core(repo, tier)) + __import__('sa.core', fromlist=['x']).reid([__import__('sa.rules.c05', fromlist=['x']).rule_blocks(repo)], 'C04') + [__import__('sa.rules.c03', fromlist=['x']).rule_homo(repo, 'C04.HOMO'), rule_scalei(repo), rule_once(repo), __import__('sa.mode', fromlist=['x']).rule_tempset(repo, 'C04.TEMPJAC', ['pypose.func.jac', 'pypose.optim.functional']), __import__('sa.stale', fromlist=['x']).rule_firstrep(repo, 'C04.FIRSTJAC', ['pypose.func.jac', 'pypose.optim.functional']), __import__('sa.axisdefault', fromlist=['x']).rule_flatcat(repo, 'C04.FLATCAT', ['pypose.func.jac', 'pypose.optim.functional', 'pypose.optim.optimizer']), __import__('sa.rules.c06', fromlist=['x']).rule_bcast(repo, tier, 'C04'), rule_memo(repo, 'C04.MEMO', 'history independence: nothing computed from the contents of a tensor argument is kept '
                                                      'under the identity, address or version of that tensor, in module-level storage, or published from a generator '
                                                      'before it is complete - a later call with the same object and other contents must not be answered from it',
                                                      ['pypose.lietensor.lietensor', 'pypose.lietensor.operation', 'pypose.lietensor.basics', 'pypose.lietensor.utils'], floor=3),
            rule_optional(repo, 'C04.OPT', ['pypose.lietensor.lietensor', 'pypose.lietensor.operation', 'pypose.lietensor.basics', 'pypose.lietensor.utils'])] + mode_rules(repo, 'C04', ['pypose.lietensor.lietensor', 'pypose.lietensor.operation', 'pypose.lietensor.basics', 'pypose.lietensor.utils']) + [rule_callsig(repo, 'C04.SIG', ['pypose.lietensor.lietensor', 'pypose.lietensor.operation', 'pypose.lietensor.basics', 'pypose.lietensor.utils']), rule_docsig(repo, 'C04.DOC', ['pypose.lietensor.lietensor', 'pypose.lietensor.operation', 'pypose.lietensor.basics', 'pypose.lietensor.utils'])] + [
            rule_axisdefault(repo, 'C04.AXDEF', ['pypose.lietensor.lietensor', 'pypose.lietensor.operation', 'pypose.lietensor.basics', 'pypose.lietensor.utils', 'pypose.lietensor.convert', 'pypose.basics.ops']), __import__('sa.axisdefault', fromlist=['x']).rule_frontaxis(repo, 'C04.BAX', ['pypose.lietensor.lietensor', 'pypose.lietensor.operation', 'pypose.lietensor.basics', 'pypose.lietensor.utils', 'pypose.lietensor.convert']), __import__('sa.axisdefault', fromlist=['x']).rule_regroup(repo, 'C04.REGROUP', ['pypose.lietensor.lietensor', 'pypose.lietensor.operation', 'pypose.lietensor.basics', 'pypose.lietensor.utils', 'pypose.lietensor.convert']), __import__('sa.axisdefault', fromlist=['x']).rule_zerocmp(repo, 'C04.ZEROCMP', ['pypose.lietensor.lietensor', 'pypose.lietensor.operation', 'pypose.lietensor.basics', 'pypose.lietensor.utils', 'pypose.lietensor.convert']), __import__('sa.unused', fromlist=['x']).rule_unused(repo, 'C04.UNUSEDF', ['pypose.func.jac'], floor=1), __import__('sa.axisdefault', fromlist=['x']).rule_batchbranch(repo, 'C04.BIF', ['pypose.lietensor.lietensor', 'pypose.lietensor.operation', 'pypose.lietensor.basics', 'pypose.basics.ops'])]
