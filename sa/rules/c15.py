"""C15 - dynamics: system clock ownership, hook, subclass initialisation, NLS linearisation roles, LTI equations."""
import ast
from ..core import RuleResult, Finding, AnalysisError, dotted, src, norm_construct, ClassInfo, guarded, guarded_list
from ..expr import inline_straight, returns_of, dump, parities
from .. import paths

DYN = 'pypose.module.dynamics'
CLOCK = '_t'
OWNERS = {'System.forward_hook', 'System.reset', 'System.systime.setter', 'System.__init__'}
INPLACE_OK = {'add_', 'fill_', 'copy_', 'zero_'}


def clock_writes(f):
    """[(kind, node)] writes to <obj>._t in function f: 'inplace:<meth>' | 'rebind' | 'register'"""
    out = []
    for n in ast.walk(f.node):
        if isinstance(n, ast.Call) and isinstance(n.func, ast.Attribute) and isinstance(n.func.value, ast.Attribute) and n.func.value.attr == CLOCK:
            m = n.func.attr
            if m.endswith('_') and not m.endswith('__'):
                out.append(('inplace:' + m, n))
        if isinstance(n, ast.Attribute) and n.attr == CLOCK and isinstance(n.ctx, (ast.Store, ast.Del)):
            out.append(('rebind', n))
        if isinstance(n, ast.AugAssign) and isinstance(n.target, ast.Attribute) and n.target.attr == CLOCK:
            out.append(('augassign', n))
        if isinstance(n, ast.Call) and isinstance(n.func, ast.Attribute) and n.func.attr == 'register_buffer' and n.args and \
                isinstance(n.args[0], ast.Constant) and n.args[0].value == CLOCK:
            out.append(('register', n))
        if isinstance(n, ast.Call) and dotted(n.func) == 'setattr' and len(n.args) >= 2 and isinstance(n.args[1], ast.Constant) and n.args[1].value == CLOCK:
            out.append(('rebind', n))
    return out


@guarded
def rule_own_hook(repo):
    res = RuleResult('C15.OWN', 'the system clock _t is written only by System.__init__ (register_buffer), forward_hook (+1, exactly once '
                     'on every path), reset and the systime setter, and only in place (add_/fill_/copy_): a rebind would alias the '
                     'caller\'s tensor or detach the registered buffer', floor=4)
    n_ext = 0
    for f in repo.all_functions():
        ws = clock_writes(f)
        if not ws:
            continue
        owner = f.module.name == DYN and f.qual in OWNERS
        for kind, node in ws:
            res.inst({'function': f.fq, 'write': kind, 'owner': owner}, (f.fq, kind, getattr(node, 'lineno', 0)))
            if not owner:
                n_ext += 1
                res.add(Finding('C15.OWN', f, 'the system clock is written outside its owners (forward_hook / reset / systime setter)', node=node))
            elif kind == 'register':
                if f.qual != 'System.__init__':
                    res.add(Finding('C15.OWN', f, 'the clock buffer is re-registered outside System.__init__', node=node))
            elif kind.startswith('inplace:'):
                if kind.split(':')[1] not in INPLACE_OK:
                    res.add(Finding('C15.OWN', f, 'unexpected in-place operation %s on the clock' % kind, node=node))
            else:
                res.add(Finding('C15.OWN', f, 'the clock buffer is rebound (`%s`) instead of being written in place: the system would share '
                                'its time with the caller\'s tensor (or lose its registered buffer)' % src(_stmt_of(f, node))[:70], node=node))
    # positive fixture for the expected-zero part: the recogniser must see an external write when there is one
    fx = ast.parse('def f(sys):\n    sys._t = 0\n    sys._t.add_(2)\n')
    class _F:
        node = fx.body[0]
    if len(clock_writes(_F)) != 2:
        raise AnalysisError('C15.OWN: positive fixture not recognised')
    # HOOK
    init = repo.func(DYN, 'System.__init__')
    reg = [c for c in paths.calls_in(init.node) if dotted(c.func) == 'self.register_forward_hook']
    ok = len(reg) == 1 and reg[0].args and dotted(reg[0].args[0]) == 'self.forward_hook'
    res.inst({'function': init.fq, 'registers_forward_hook': ok}, init.fq)
    if not ok:
        res.add(Finding('C15.HOOK', init, 'System.__init__ does not register self.forward_hook exactly once', construct='register hook'))
    hook = repo.cls(DYN, 'System').methods.get('forward_hook')
    if hook is None:
        if ok:
            raise AnalysisError('C15.HOOK: System.forward_hook is registered but not defined')
        res.add(Finding('C15.HOOK', init, 'System has no forward hook any more: the clock advance is no longer attached to the call of the module but (at best) '
                        'to forward(), which the documentation invites users to redefine - such a system is never advanced', construct='no forward hook'))
    pths, _ = paths.function_paths(hook.node, limit=256) if hook is not None else ([], False)
    for ev, ex in pths:
        incs = []
        for e in ev:
            if e[0] == 'stmt':
                for c in paths.calls_in(e[1]):
                    if isinstance(c.func, ast.Attribute) and dotted(c.func.value) == 'self._t' and c.func.attr == 'add_':
                        incs.append(src(c.args[0]) if c.args else '?')
        if incs != ['1'] or ex == 'raise':
            res.add(Finding('C15.HOOK', hook, 'forward_hook advances the clock by %s on a path (must be exactly one add_(1))' % incs,
                            construct='hook increments'))
            break
    if hook is not None:
        res.inst({'function': hook.fq, 'paths': len(pths)}, hook.fq)
    # reset / setter set the clock from their argument
    rs = repo.func(DYN, 'System.reset')
    ok = any(isinstance(c.func, ast.Attribute) and dotted(c.func.value) == 'self._t' and c.func.attr in ('fill_', 'copy_') and c.args and
             dotted(c.args[0]) == rs.pos_params[1] for c in paths.calls_in(rs.node))
    res.inst({'function': rs.fq, 'sets_clock_from_argument': ok}, rs.fq)
    if not ok:
        res.add(Finding('C15.HOOK', rs, 'reset(t) does not write its argument into the clock', construct='reset'))
    st = repo.func(DYN, 'System.systime.setter')
    ok = any(isinstance(c.func, ast.Attribute) and dotted(c.func.value) == 'self._t' and c.func.attr in ('fill_', 'copy_') and c.args and
             dotted(c.args[0]) == st.pos_params[1] for c in paths.calls_in(st.node))
    res.inst({'function': st.fq, 'sets_clock_from_argument': ok}, st.fq)
    if not ok:
        res.add(Finding('C15.HOOK', st, 'the systime setter does not copy its argument into the clock in place', construct='setter'))
    # no forward() override may touch the clock itself (the hook does it once)
    return res


def _stmt_of(f, node):
    best = f.node
    for n in ast.walk(f.node):
        if isinstance(n, ast.stmt) and any(x is node for x in ast.walk(n)):
            best = n
    return best


@guarded
def rule_super(repo):
    res = RuleResult('C15.SUPER', 'every System subclass __init__ in the package calls super().__init__() (buffer and hook registration)', floor=3)
    base = repo.cls(DYN, 'System')
    for c in repo.subclasses_of(base):
        init = c.methods.get('__init__')
        if init is None:
            res.inst({'class': c.fq, 'inherits_init': True}, c.fq)
            continue
        ok = any(isinstance(x.func, ast.Attribute) and x.func.attr == '__init__' and isinstance(x.func.value, ast.Call)
                 and dotted(x.func.value.func) == 'super' for x in paths.calls_in(init.node))
        # must be unconditional: on every path
        if ok:
            pths, _ = paths.function_paths(init.node, limit=512)
            for ev, ex in pths:
                if ex == 'raise':
                    continue
                if not any(e[0] == 'stmt' and any(isinstance(x.func, ast.Attribute) and x.func.attr == '__init__' and isinstance(x.func.value, ast.Call)
                                                  and dotted(x.func.value.func) == 'super' for x in paths.calls_in(e[1])) for e in ev):
                    ok = False
        res.inst({'class': c.fq, 'calls_super_init': ok}, c.fq)
        if not ok:
            res.add(Finding('C15.SUPER', init, '%s.__init__ does not call super().__init__() on every path: the clock buffer and the forward '
                            'hook are not registered' % c.name, construct='super init'))
    return res


# role table of the linearisation:  name -> (function differentiated, position of the differentiated argument, evaluation point)
LIN = {'A': ('state_transition', 0, '_ref_state'), 'B': ('state_transition', 1, '_ref_input'),
       'C': ('observation', 0, '_ref_state'), 'D': ('observation', 1, '_ref_input')}
REFS = ['self._ref_state', 'self._ref_input', 'self._ref_t']


@guarded
def rule_lin(repo):
    res = RuleResult('C15.LIN', 'NLS: A/B differentiate state_transition, C/D observation, with respect to the state (A, C) / input (B, D) '
                     'argument, the other arguments held at the stored reference triple, evaluated at _ref_state / _ref_input; c1 = _ref_f '
                     '- A x* - B u*, c2 = _ref_g - C x* - D u*; set_refpoint stores f and g at the stored reference triple', floor=8)
    for name, (fn, pos, at) in LIN.items():
        f = repo.func(DYN, 'NLS.' + name)
        rets = returns_of(f.node)
        if len(rets) != 1:
            raise AnalysisError('C15.LIN: NLS.%s has %d returns' % (name, len(rets)))
        v = inline_straight(f.node, upto=rets[0]).value(rets[0].value)
        ok = False
        why = 'not a jacobian(lambda, point) call'
        if isinstance(v, ast.Call) and (dotted(v.func) or '').split('.')[-1] == 'jacobian' and len(v.args) >= 2 and isinstance(v.args[0], ast.Lambda):
            lam, point = v.args[0], v.args[1]
            lp = [a.arg for a in lam.args.args]
            body = lam.body
            why = None
            if not (isinstance(body, ast.Call) and dotted(body.func) == 'self.' + fn):
                why = 'differentiates %s, expected self.%s' % (src(body.func) if isinstance(body, ast.Call) else src(body)[:30], fn)
            elif len(lp) != 1 or len(body.args) != 3:
                why = 'unexpected arity'
            else:
                args = [dotted(a) for a in body.args]
                want = list(REFS)
                want[pos] = lp[0]
                if args != want:
                    why = 'arguments %s, expected %s (variable in slot %d, the others at the reference point)' % (args, want, pos)
                elif dotted(point) != 'self.' + at:
                    why = 'evaluated at %s, expected self.%s' % (src(point), at)
            ok = why is None
        res.inst({'function': f.fq, 'role': LIN[name], 'ok': ok}, f.fq)
        if not ok:
            res.add(Finding('C15.LIN', f, 'NLS.%s: %s' % (name, why), construct='%s role' % name))
    for cn, ref, M1, M2 in (('c1', '_ref_f', 'A', 'B'), ('c2', '_ref_g', 'C', 'D')):
        f = repo.func(DYN, 'NLS.' + cn)
        rets = returns_of(f.node)
        v = inline_straight(f.node, upto=rets[0]).value(rets[0].value)
        terms = _signed_terms(v)
        want = {('+', 'self.' + ref), ('-', 'bmv(self.%s, self._ref_state)' % M1), ('-', 'bmv(self.%s, self._ref_input)' % M2)}
        got = {(s, src(t).replace(' ', '').replace(',', ', ')) for s, t in terms}
        ok = got == want
        res.inst({'function': f.fq, 'terms': sorted(got), 'ok': ok}, f.fq)
        if not ok:
            res.add(Finding('C15.LIN', f, 'NLS.%s is %s; expected %s' % (cn, sorted(got), sorted(want)), construct=cn))
    f = repo.func(DYN, 'NLS.set_refpoint')
    inl = inline_straight(f.node)
    for attr, fn in (('_ref_f', 'state_transition'), ('_ref_g', 'observation')):
        v = inl.env.get('self.' + attr)
        ok = False
        if isinstance(v, ast.Call) and dotted(v.func) == 'self.' + fn and len(v.args) == 3:
            # evaluated at the values just stored as the reference triple
            ok = all(dump(a) == dump(inl.env.get(r)) for a, r in zip(v.args, REFS) if inl.env.get(r) is not None) and \
                all(inl.env.get(r) is not None for r in REFS)
        res.inst({'function': f.fq, 'stores': attr, 'ok': ok}, (f.fq, attr))
        if not ok:
            res.add(Finding('C15.LIN', f, 'set_refpoint does not store %s = %s(reference state, reference input, reference time)' % (attr, fn),
                            construct=attr))
    # ... and on EVERY normal exit: a path that returns before f / g are re-evaluated leaves the previous point's values next to Jacobians
    # taken at the current contents of the stored tensors (an identity- or flag-keyed short cut cannot see in-place changes)
    from .. import paths as _paths
    from ..expr import Inliner
    pths, _ = _paths.function_paths(f.node, limit=2048)
    n_exit = 0
    seen = set()
    for ev, ex in pths:
        if ex != 'return' and ex != 'fall':
            continue
        inl2 = Inliner()
        last = None
        for e in ev:
            if e[0] == 'stmt':
                inl2.feed(e[1])
                last = e[1]
            elif e[0] == 'iter':
                inl2.feed(e[1])
        missing = [a for a in ('self._ref_state', 'self._ref_input', 'self._ref_t', 'self._ref_f', 'self._ref_g') if inl2.env.get(a) is None]
        key = (getattr(last, 'lineno', 0), tuple(missing))
        if key in seen:
            continue
        seen.add(key)
        n_exit += 1
        res.inst({'function': f.fq, 'exit at line': getattr(last, 'lineno', None), 'stores all of the reference point': not missing}, key)
        if missing:
            res.add(Finding('C15.LIN', f, 'set_refpoint can return without storing %s: the affine model keeps values of an earlier reference point '
                            'while the Jacobians follow the current one' % ', '.join(m[5:] for m in missing), node=last,
                            construct='exit without ' + ','.join(m[5:] for m in missing)))
    if n_exit == 0:
        raise AnalysisError('C15.LIN: no normal exit of NLS.set_refpoint found')
    return res


def _signed_terms(e, sign='+'):
    if isinstance(e, ast.BinOp) and isinstance(e.op, ast.Add):
        return _signed_terms(e.left, sign) + _signed_terms(e.right, sign)
    if isinstance(e, ast.BinOp) and isinstance(e.op, ast.Sub):
        return _signed_terms(e.left, sign) + _signed_terms(e.right, '-' if sign == '+' else '+')
    if isinstance(e, ast.UnaryOp) and isinstance(e.op, ast.USub):
        return _signed_terms(e.operand, '-' if sign == '+' else '+')
    return [(sign, e)]


@guarded
def rule_eq(repo):
    res = RuleResult('C15.EQ', 'LTI: state_transition is A state + B input (+ c1), observation is C state + D input (+ c2); forward evaluates both '
                     'at the current state and input; LTV.set_refpoint sets the system time', floor=4)
    for meth, M1, M2, c in (('state_transition', 'A', 'B', 'c1'), ('observation', 'C', 'D', 'c2')):
        f = repo.func(DYN, 'LTI.' + meth)
        pp = f.pos_params
        rets = returns_of(f.node)
        ok_all = bool(rets)
        for r in rets:
            v = inline_straight(f.node, upto=r).value(r.value)
            alts = [v]
            if isinstance(v, ast.IfExp):
                alts = [v.body, v.orelse]
                # the guard must test the very constant that the other branch adds
                t = v.test
                guarded = None
                if isinstance(t, ast.Compare) and len(t.ops) == 1 and isinstance(t.comparators[0], ast.Constant) and t.comparators[0].value is None:
                    guarded = dotted(t.left)
                if guarded != 'self.' + c:
                    ok_all = False
                    res.add(Finding('C15.EQ', f, 'LTI.%s adds self.%s under a guard on `%s`: with one constant given and the other None the offset is '
                                    'dropped (or None is added)' % (meth, c, src(t)), node=r, construct=meth + ' guard'))
            for a in alts:
                terms = _signed_terms(a)
                got = set()
                for s, t in terms:
                    if isinstance(t, ast.Call) and dotted(t.func) == 'bmv' and len(t.args) == 2:
                        arg = t.args[1]
                        while isinstance(arg, ast.Call) and isinstance(arg.func, ast.Attribute) and arg.func.attr in ('clone', 'contiguous'):
                            arg = arg.func.value
                        got.add((s, dotted(t.args[0]), dotted(arg)))
                    else:
                        got.add((s, dotted(t), None))
                base = {('+', 'self.' + M1, pp[1]), ('+', 'self.' + M2, pp[2])}
                if got not in (base, base | {('+', 'self.' + c, None)}):
                    ok_all = False
                    res.add(Finding('C15.EQ', f, 'LTI.%s computes %s; expected %s (+ %s)' % (meth, sorted(got, key=str), sorted(base), c),
                                    node=r, construct=meth))
        res.inst({'function': f.fq, 'ok': ok_all}, f.fq)
    f = repo.func(DYN, 'System.forward')
    inl = inline_straight(f.node)
    rets = returns_of(f.node)
    v = inl.value(rets[0].value) if rets else None
    ok = isinstance(v, ast.Tuple) and len(v.elts) == 2 and isinstance(v.elts[0], ast.Call) and dotted(v.elts[0].func) == 'self.state_transition' \
        and isinstance(v.elts[1], ast.Call) and dotted(v.elts[1].func) == 'self.observation' and \
        [dump(a) for a in v.elts[0].args[:2]] == [dump(a) for a in v.elts[1].args[:2]]
    res.inst({'function': f.fq, 'returns_transition_and_observation_at_same_point': ok}, f.fq)
    if not ok:
        res.add(Finding('C15.EQ', f, 'System.forward must return (state_transition(x, u), observation(x, u)) at the same (x, u)', construct='forward'))
    f = repo.func(DYN, 'LTV.set_refpoint')
    ok = any(isinstance(n, ast.Assign) and any(dotted(t) == 'self.systime' for t in n.targets) and dotted(n.value) == 't' for n in ast.walk(f.node))
    res.inst({'function': f.fq, 'sets_systime': ok}, f.fq)
    if not ok:
        res.add(Finding('C15.EQ', f, 'LTV.set_refpoint must assign self.systime = t', construct='ltv refpoint'))
    return res


@guarded
def rule_pure(repo):
    from .. import effects
    res = RuleResult('C15.PURE', 'the linearisation getters (A, B, C, D, c1, c2 of LTI/LTV/NLS) are pure: reading one does not change the stored '
                     'reference point or any other state of the system', floor=12)
    S, _ = effects.compute_summaries(repo)
    for cname in ('LTI', 'NLS'):
        ci = repo.cls(DYN, cname)
        for name in ('A', 'B', 'C', 'D', 'c1', 'c2'):
            f = ci.methods.get(name)
            if f is None:
                continue
            s = S[f.fq]
            writes = [n for n in ast.walk(f.node) if isinstance(n, ast.Attribute) and isinstance(n.ctx, ast.Store) and dotted(n.value) == 'self']
            res.inst({'function': f.fq, 'mutates': sorted(str(x) for x in s.mut), 'attribute_stores': len(writes)}, f.fq)
            for (pi, path) in sorted(s.mut, key=str):
                node, why, chain = s.sinks[(pi, path)]
                res.add(Finding('C15.PURE', f, 'reading %s.%s changes `self%s` in place (%s): every further read returns a different value' % (
                    cname, name, ''.join('.' + p for p in path), why), node=node if isinstance(node, ast.AST) else None, construct='getter mutates ' + '.'.join(path)))
            for w in writes:
                res.add(Finding('C15.PURE', f, 'the getter %s.%s assigns self.%s' % (cname, name, w.attr), node=w))
    return res


@guarded
def rule_snap(repo):
    """set_refpoint freezes a reference point.  The clock is ONE tensor that the forward hook advances in place (_t.add_(1)) and that reset /
    systime assignment overwrite in place (copy_/fill_): a reference time taken from it must be a copy (clone), otherwise the stored
    reference time moves with every later call while f(x*, u*, t*) and g(x*, u*, t*) stay those of the old time."""
    res = RuleResult('C15.SNAP', 'NLS.set_refpoint stores a snapshot of the clock as reference time: no alternative of the stored value is the live '
                     'clock buffer itself (self.systime / self._t without clone())', floor=1)
    f = repo.func(DYN, 'NLS.set_refpoint')

    def alternatives(e):
        if isinstance(e, ast.IfExp):
            return alternatives(e.body) + alternatives(e.orelse)
        return [e]
    n = 0
    for a in ast.walk(f.node):
        if not isinstance(a, ast.Assign):
            continue
        tg = [t for t in a.targets]
        elts = []
        for t in tg:
            if isinstance(t, ast.Tuple) and isinstance(a.value, ast.Tuple) and len(t.elts) == len(a.value.elts):
                elts += list(zip(t.elts, a.value.elts))
            else:
                elts.append((t, a.value))
        for t, v in elts:
            if dotted(t) != 'self._ref_t':
                continue
            # follow a local name one step
            if isinstance(v, ast.Name):
                defs = [x.value for x in ast.walk(f.node) if isinstance(x, ast.Assign) and any(isinstance(y, ast.Name) and y.id == v.id for y in x.targets)]
                v = defs[-1] if defs else v
            for alt in alternatives(v):
                n += 1
                core = alt
                while isinstance(core, ast.Call) and isinstance(core.func, ast.Attribute) and core.func.attr in ('detach', 'view', 'reshape', 'squeeze', 'unsqueeze', 'to') \
                        or (isinstance(core, ast.Call) and (dotted(core.func) or '').split('.')[-1] in ('atleast_1d', 'as_tensor') and core.args):
                    core = core.func.value if isinstance(core.func, ast.Attribute) and not (dotted(core.func) or '').startswith('torch.') else core.args[0]
                live = dotted(core) in ('self.systime', 'self._t')
                # a caller-supplied time: the systime getter hands out the live buffer itself, so `set_refpoint(x, u, t=system.systime)` passes the clock;
                # kept through view-preserving wrappers only (atleast_1d / view / as_tensor) it stays the clock
                getter = repo.cls(DYN, 'System').methods.get('systime')
                hands_out_live = getter is not None and any(isinstance(r, ast.Return) and dotted(r.value) == 'self._t' for r in ast.walk(getter.node))
                caller_view = isinstance(core, ast.Name) and core.id in f.params and hands_out_live
                res.inst({'function': f.fq, 'reference time alternative': src(alt)[:50], 'is the live clock buffer': live,
                          'view of a caller tensor that may be the clock': caller_view}, src(alt))
                if caller_view:
                    res.add(Finding('C15.SNAP', f, 'the reference time `%s` is a view of the caller\'s tensor, and System.systime hands out the live clock buffer: after '
                                    '`set_refpoint(x, u, t=system.systime)` the stored reference time is advanced in place by every later call, so A, B, C, D '
                                    'move away from the stored f(x*, u*, t*), g(x*, u*, t*)' % src(alt)[:50], node=a, construct='caller clock as reference time'))
                if live:
                    res.add(Finding('C15.SNAP', f, 'the reference time `%s` IS the clock buffer (no clone): the forward hook advances it in place, so after '
                                    'the next call A, B, C, D are linearised at another time than the stored f(x*, u*, t*), g(x*, u*, t*)' % src(alt)[:50],
                                    node=a, construct='live clock as reference time'))
    if n == 0:
        raise AnalysisError('C15.SNAP: NLS.set_refpoint no longer assigns self._ref_t')
    return res


@guarded
def rule_last(repo):
    """`self.state` / `self.input` are "the most recent state / input the system was CALLED with": set_refpoint() without arguments linearises there, and the
    documentation pairs them (x_k, u_k).  Every store to them in a forward() therefore takes the call's own argument (through atleast_1d & co.), never
    the propagated state x_{k+1} or the observation; and set_refpoint's defaults read exactly these two attributes."""
    res = RuleResult('C15.LAST', 'self.state / self.input are stored from the arguments of the call (the point the system was called with), never from the result of '
                     'state_transition / observation; set_refpoint() without arguments linearises at (self.state, self.input)', floor=4)
    n = 0
    for c in repo.module(DYN).classes.values():
        for name, f in c.methods.items():
            if name != 'forward' or len(f.pos_params) < 3:
                continue
            want = {'self.state': f.pos_params[1], 'self.input': f.pos_params[2]}
            inl = None
            for a in paths.assigns_in(f.node) if hasattr(paths, 'assigns_in') else [x for x in ast.walk(f.node) if isinstance(x, ast.Assign)]:
                pairs = []
                for t in a.targets:
                    if isinstance(t, ast.Tuple) and isinstance(a.value, ast.Tuple) and len(t.elts) == len(a.value.elts):
                        pairs += list(zip(t.elts, a.value.elts))
                    else:
                        pairs.append((t, a.value))
                for t, v in pairs:
                    d = dotted(t)
                    if d not in want:
                        continue
                    n += 1
                    inl = inl or inline_straight(f.node, upto=a)
                    val = inl.value(v)
                    names = {x.id for x in ast.walk(val) if isinstance(x, ast.Name)} - {'torch', 'self'}
                    calls = [dotted(x.func) or '' for x in ast.walk(val) if isinstance(x, ast.Call)]
                    derived = [q for q in calls if q.split('.')[-1] in ('state_transition', 'observation', 'forward') or q.startswith('self.') and q.split('.')[-1] not in ('atleast_1d',)]
                    ok = names == {want[d]} and not derived
                    res.inst({'function': f.fq, 'attribute': d, 'stored value': src(val)[:60], 'is the call argument': ok}, (f.fq, d, src(v)[:40]))
                    if not ok:
                        res.add(Finding('C15.LAST', f, '`%s` is stored from `%s`, not from the argument `%s` of the call: set_refpoint() without a state / input linearises at '
                                        '(self.state, self.input), documented as the point the system was last called with - x_k paired with u_k, not the propagated '
                                        'x_(k+1)' % (d, src(val)[:60], want[d]), node=a, construct='%s stored from a computed value' % d))
    sr = repo.func(DYN, 'NLS.set_refpoint')
    for attr, par in (('_ref_state', 'state'), ('_ref_input', 'input')):
        for a in ast.walk(sr.node):
            if isinstance(a, ast.Assign) and any(dotted(t) == 'self.' + attr for t in a.targets) and isinstance(a.value, ast.IfExp):
                n += 1
                alts = [a.value.body, a.value.orelse]
                dflt = [x for x in alts if not any(isinstance(y, ast.Name) and y.id == par for y in ast.walk(x))]
                ok = len(dflt) == 1 and dotted(dflt[0]) == 'self.' + par
                res.inst({'function': sr.fq, 'reference': attr, 'default': src(dflt[0])[:40] if dflt else None, 'is self.%s' % par: ok}, (sr.fq, attr))
                if not ok:
                    res.add(Finding('C15.LAST', sr, 'the default of the reference %s is `%s`, not `self.%s` (the %s of the last call)' % (par, src(dflt[0])[:40] if dflt else '?', par, par),
                                    node=a, construct='default reference ' + par))
    if n < 4:
        raise AnalysisError('C15.LAST: only %d stores of self.state / self.input / reference defaults were found' % n)
    return res


ADV_TABLE = {'pypose.module.dynamics:runsys': 1, 'pypose.module.lqr:LQR.lqr_forward': 1}
ADV_NAMES = {'system', 'self.system', 'model', 'self.model', 'sys', 'self.sys', 'dynamics', 'self.dynamics', 'self.dynamic'}


@guarded
def rule_adv(repo, rid='C15.ADV'):
    """Calling a System object runs its forward hook: the clock advances by one and self.state / self.input are overwritten.  The library calls a system in two
    places only - one call per roll-out step in runsys and in LQR.lqr_forward; the filters and the backward pass use state_transition / observation /
    set_refpoint, which leave the clock alone.  Any other call (a feasibility probe, a warm-up evaluation, a logged prediction) moves the time of every later
    step of a time-varying system."""
    res = RuleResult(rid, 'a System object is CALLED (clock + 1, state / input overwritten) only at the %d tabled sites - once per roll-out step in runsys and '
                     'LQR.lqr_forward; nothing else in dynamics / lqr / mpc / ekf / ukf / pf calls the system itself' % len(ADV_TABLE), floor=2)
    n = 0
    for modname in ('pypose.module.dynamics', 'pypose.module.lqr', 'pypose.module.mpc', 'pypose.module.ekf', 'pypose.module.ukf', 'pypose.module.pf'):
        for f in repo.module(modname).functions.values():
            sites = [c for c in paths.calls_in(f.node) if (dotted(c.func) or '') in ADV_NAMES]
            # a System method that calls its own object: self(state, input)
            if f.cls is not None and any(getattr(b, 'name', b) in ('System', 'LTI', 'LTV', 'NLS') for b in repo.mro(f.cls)):
                sites += [c for c in paths.calls_in(f.node) if isinstance(c.func, ast.Name) and c.func.id == 'self']
                sites += [c for c in paths.calls_in(f.node) if isinstance(c.func, ast.Attribute) and c.func.attr == '__call__' and
                          (dotted(c.func.value) == 'self' or (isinstance(c.func.value, ast.Call) and dotted(c.func.value.func) == 'super'))]
            # one level of aliasing: `f = self.system` ; f(x, u)
            alias = {a.targets[0].id for a in ast.walk(f.node) if isinstance(a, ast.Assign) and len(a.targets) == 1 and isinstance(a.targets[0], ast.Name)
                     and (dotted(a.value) or '') in ADV_NAMES}
            sites += [c for c in paths.calls_in(f.node) if isinstance(c.func, ast.Name) and c.func.id in alias]
            # explicit forward / __call__
            sites += [c for c in paths.calls_in(f.node) if isinstance(c.func, ast.Attribute) and c.func.attr in ('__call__',) and (dotted(c.func.value) or '') in ADV_NAMES]
            if not sites and f.fq not in ADV_TABLE:
                continue
            n += 1
            allowed = ADV_TABLE.get(f.fq, 0)
            res.inst({'function': f.fq, 'system calls': [src(c)[:50] for c in sites], 'tabled': allowed}, f.fq)
            if len(sites) > allowed:
                for c in sites[allowed:]:
                    res.add(Finding(rid, f, '`%s` calls the system object in %s (%d calls tabled): every call advances the system clock by one and overwrites system.state / '
                                    '.input, so the steps that follow - and the caller\'s next use of the system - happen at a later time than documented'
                                    % (src(c)[:60], f.fq.split(':')[-1], allowed), node=c, construct='extra system call|' + norm_construct(c, f.node)))
            elif len(sites) < allowed:
                raise AnalysisError('%s: %s no longer calls the system (%d of %d sites)' % (rid, f.fq, len(sites), allowed))
    if n < 2:
        raise AnalysisError('%s: the roll-out calls of runsys / lqr_forward were not found' % rid)
    return res


@guarded
def rule_commit(repo):
    """set_refpoint replaces FIVE attributes that belong together: the point (_ref_state, _ref_input, _ref_t) and the values of f and g there (_ref_f, _ref_g).  f and g
    are the user's functions and may raise.  The point is stored first and f, g are evaluated at the STORED point, so whatever is left behind when one of them
    raises describes one reference point: A, B (from the stored point) and c1 (from _ref_f) agree.  Storing _ref_f before the point is committed leaves A, B at
    the old point and c1 at the new one when g raises and the caller carries on."""
    res = RuleResult('C15.COMMIT', 'NLS.set_refpoint stores the reference point (_ref_state, _ref_input, _ref_t) before it stores a value computed at it (_ref_f, _ref_g), '
                     'and evaluates f and g at the stored point', floor=2)
    f = repo.func(DYN, 'NLS.set_refpoint')
    order = []
    for st in f.node.body:
        for a in ast.walk(st):
            if isinstance(a, ast.Assign):
                for t in a.targets:
                    for x in ([t] if not isinstance(t, ast.Tuple) else t.elts):
                        d = dotted(x)
                        if d and d.startswith('self._ref_'):
                            order.append((d[len('self._ref_'):], a))
    names = [n for n, _ in order]
    point = {'state', 'input', 't'}
    if not point <= set(names) or not {'f', 'g'} <= set(names):
        raise AnalysisError('C15.COMMIT: the five reference attributes are no longer all stored by set_refpoint (%s)' % names)
    last_point = max(i for i, n in enumerate(names) if n in point)
    for val in ('f', 'g'):
        i = names.index(val)
        st = order[i][1]
        before = i > last_point
        args = [dotted(x) for c in ast.walk(st.value) if isinstance(c, ast.Call) for x in c.args]
        at_stored = all(a_ in ('self._ref_state', 'self._ref_input', 'self._ref_t') for a_ in args if a_) and bool(args)
        res.inst({'function': f.fq, 'value': '_ref_' + val, 'stored after the point': before, 'evaluated at the stored point': at_stored}, (f.fq, val))
        if not before:
            res.add(Finding('C15.COMMIT', f, '`%s` is stored before the reference point is committed: when the other user function raises afterwards and the caller carries '
                            'on, A / B (C / D) are the Jacobians at the OLD point and c1 (c2) is built from the value at the NEW one - the affine model reproduces '
                            'neither' % src(st)[:60], node=st, construct='value stored before the point|' + val))
        elif not at_stored:
            res.add(Finding('C15.COMMIT', f, '`%s` evaluates the user function at local values, not at the stored reference attributes: the point the Jacobians are taken '
                            'at and the point of the stored value are two expressions that can drift apart' % src(st)[:60], node=st, construct='value not at the stored point|' + val))
    return res


def _rules_core(repo, tier):
    return [rule_own_hook(repo), rule_super(repo), rule_lin(repo), rule_eq(repo), rule_pure(repo), rule_snap(repo), rule_last(repo), rule_adv(repo), rule_commit(repo)]


def rules(repo, tier):
    from ..memo import rule_memo
    from ..optional import rule_optional
    from ..mode import mode_rules
    from ..callsig import rule_callsig
    from ..docsig import rule_docsig
    from ..axisdefault import rule_axisdefault
    return list(_rules_core(repo, tier)) + [rule_memo(repo, 'C15.MEMO', 'history independence: nothing computed from the contents of a tensor argument is kept '
                                                      'under the identity, address or version of that tensor, in module-level storage, or published from a generator '
                                                      'before it is complete - a later call with the same object and other contents must not be answered from it',
                                                      ['pypose.module.dynamics'], floor=3),
            rule_optional(repo, 'C15.OPT', ['pypose.module.dynamics'])] + mode_rules(repo, 'C15', ['pypose.module.dynamics']) + [rule_callsig(repo, 'C15.SIG', ['pypose.module.dynamics']), rule_docsig(repo, 'C15.DOC', ['pypose.module.dynamics'])] + [
            rule_axisdefault(repo, 'C15.AXDEF', ['pypose.module.dynamics'])]
