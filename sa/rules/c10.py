"""C10 - solvers fail loudly: error discipline for status-returning factorisations."""
import ast
from ..core import RuleResult, Finding, AnalysisError, dotted, src, norm_construct
from .. import paths
from ..expr import free_names, dump

SOLVER = 'pypose.optim.solver'
# torch.linalg functions that return a status instead of raising: name -> index of the status in the result tuple
STATUS_FUNCS = {'cholesky_ex': 1, 'inv_ex': 1, 'solve_ex': 1, 'lu_factor_ex': 2, 'ldl_factor_ex': 2}


def _ext_name(repo, finfo, fn):
    d = dotted(fn)
    if d is None:
        return None
    r = repo.resolve_expr(finfo, fn)
    if r and r[0] == 'ext':
        return r[1]
    return d


def _names_load(node):
    return {n.id for n in ast.walk(node) if isinstance(n, ast.Name) and isinstance(n.ctx, ast.Load)} | \
           {dotted(n) for n in ast.walk(node) if isinstance(n, ast.Attribute) and dotted(n)}


def all_zero(test, truth, status):
    """does `test` evaluating to `truth` imply that EVERY entry of the status tensor is zero?"""
    def is_status(e):
        d = dotted(e)
        return d is not None and d in status
    if isinstance(test, ast.UnaryOp) and isinstance(test.op, ast.Not):
        return all_zero(test.operand, not truth, status)
    if isinstance(test, ast.BoolOp):
        if isinstance(test.op, ast.And) and truth:
            return any(all_zero(v, True, status) for v in test.values)
        if isinstance(test.op, ast.Or) and not truth:
            return any(all_zero(v, False, status) for v in test.values)
        return False
    if isinstance(test, ast.Call):
        d = dotted(test.func) or ''
        red = d.split('.')[-1] if d else (test.func.attr if isinstance(test.func, ast.Attribute) else '')
        inner = None
        if d in ('torch.all', 'torch.any', 'all', 'any') and test.args:
            inner = test.args[0]
        elif isinstance(test.func, ast.Attribute) and red in ('all', 'any', 'item', 'bool') and not d.startswith('torch.'):
            inner = test.func.value
            if red in ('item', 'bool'):
                return all_zero(inner, truth, status)
        if inner is None:
            return False
        if red == 'any':
            # not any(S != 0) ; not any(S) ; not S.any()
            if is_status(inner):
                return not truth
            if isinstance(inner, ast.Compare) and len(inner.ops) == 1 and is_status(inner.left) and isinstance(inner.comparators[0], ast.Constant) \
                    and inner.comparators[0].value == 0:
                if isinstance(inner.ops[0], (ast.NotEq, ast.Gt)):
                    return not truth
            return False
        if red == 'all':
            if isinstance(inner, ast.Compare) and len(inner.ops) == 1 and is_status(inner.left) and isinstance(inner.comparators[0], ast.Constant) \
                    and inner.comparators[0].value == 0 and isinstance(inner.ops[0], ast.Eq):
                return truth
            return False
    if isinstance(test, ast.Compare) and len(test.ops) == 1 and isinstance(test.comparators[0], ast.Constant) and test.comparators[0].value == 0:
        # S.abs().sum() == 0 / S.max() == 0 (non-negative LAPACK status) / S.any() == 0
        l = test.left
        if isinstance(l, ast.Call) and isinstance(l.func, ast.Attribute) and l.func.attr in ('sum', 'max', 'count_nonzero', 'any', 'norm'):
            base = l.func.value
            while isinstance(base, ast.Call) and isinstance(base.func, ast.Attribute) and base.func.attr in ('abs',):
                base = base.func.value
            if is_status(base):
                return truth if isinstance(test.ops[0], ast.Eq) else (not truth if isinstance(test.ops[0], (ast.NotEq, ast.Gt)) else False)
    return False


def status_sites(repo, finfo):
    out = []
    for c in paths.calls_in(finfo.node):
        full = _ext_name(repo, finfo, c.func)
        if full and full.split('.')[-1] in STATUS_FUNCS and (full.startswith('torch.') or '.' not in full):
            out.append((c, full.split('.')[-1]))
    return out


def check_function(repo, finfo, res):
    sites = status_sites(repo, finfo)
    for callx, fname in sites:
        ce = [k for k in callx.keywords if k.arg == 'check_errors']
        if ce and isinstance(ce[0].value, ast.Constant) and ce[0].value.value is True:
            res.inst({'function': finfo.fq, 'site': src(callx)[:80], 'discipline': 'check_errors=True'})
            continue
        pths, _ = paths.function_paths(finfo.node, limit=2048, strict=False)
        verdicts = set()
        bad_use = None
        idx = STATUS_FUNCS[fname]
        for ev, ex in pths:
            status, factors, checked, seen = set(), set(), False, False
            for e in ev:
                if e[0] == 'stmt':
                    st = e[1]
                    holds = any(n is callx for n in ast.walk(st))
                    if holds:
                        seen = True
                        # binding of the result
                        if isinstance(st, ast.Assign) and st.value is callx and isinstance(st.targets[0], (ast.Tuple, ast.List)):
                            elts = st.targets[0].elts
                            for i, t in enumerate(elts):
                                k = dotted(t)
                                if k is None:
                                    continue
                                if i == idx or (i == len(elts) - 1 and idx >= len(elts)):
                                    status.add(k)
                                else:
                                    factors.add(k)
                        elif isinstance(st, ast.Assign) and st.value is callx and dotted(st.targets[0]):
                            k = dotted(st.targets[0])
                            factors.add(k)           # whole named tuple: k.info is the status
                            status.add(k + '.info')
                        else:
                            # result consumed inside an expression: the status cannot be inspected
                            verdicts.add('unbound')
                            bad_use = bad_use or st
                        continue
                    if not seen:
                        continue
                    used = _names_load(st)
                    if isinstance(st, ast.Assert):
                        if used & status:
                            if all_zero(st.test, True, status):
                                checked = True
                            else:
                                verdicts.add('weak-check')
                                bad_use = bad_use or st
                        continue        # an assertion inspects, it does not consume the factor
                    if isinstance(st, ast.Assign) and used & status and not (used & factors):
                        for t in st.targets:
                            if dotted(t):
                                status.add(dotted(t))
                        continue
                    if used & factors and not checked:
                        verdicts.add('use-before-check')
                        bad_use = bad_use or st
                        break
                elif e[0] == 'assume' and seen:
                    if _names_load(e[1]) & status:
                        if all_zero(e[1], e[2], status):
                            checked = True
                        elif ex != 'raise' and not all_zero(e[1], not e[2], status):
                            verdicts.add('weak-check')
                            bad_use = bad_use or e[1]
            if seen and checked:
                verdicts.add('checked')
            elif seen and not verdicts & {'use-before-check', 'unbound'}:
                # factor never used on this path: nothing to protect
                pass
        ok = not (verdicts & {'use-before-check', 'unbound'})
        if 'weak-check' in verdicts and not ok:
            res.add(Finding('C10.STATUS', finfo, 'the check on the status of %s (`%s`) does not establish that EVERY factorisation of the batch '
                            'succeeded: a batch with some failed items passes it' % (fname, src(bad_use)[:70]), node=callx,
                            construct='weak status check ' + norm_construct(callx, finfo.node)))
            res.inst({'function': finfo.fq, 'site': src(callx)[:80], 'discipline': sorted(verdicts)})
            continue
        res.inst({'function': finfo.fq, 'site': src(callx)[:80], 'discipline': sorted(verdicts) or ['factor unused']})
        if not ok:
            res.add(Finding('C10.STATUS', finfo,
                            'status returned by %s is not inspected (assert / raising branch / check_errors=True) before '
                            'the factor is used at `%s`: a failed factorisation yields a silent wrong result'
                            % (fname, src(bad_use)[:80]), node=callx,
                            construct=norm_construct(callx, finfo.node)))


def rule_status(repo, tier):
    res = RuleResult('C10.STATUS', 'the status of every status-returning factorisation reaches a raising check before the factor is used', floor=1)
    mods = [SOLVER] if tier == 'quick' else sorted(repo.modules)
    for m in mods:
        for f in repo.module(m).functions.values():
            check_function(repo, f, res)
    f = repo.func(SOLVER, 'Cholesky.forward')
    if not status_sites(repo, f):
        # a plain torch.linalg.cholesky raises by itself - then the rule has nothing to decide there
        names = {(_ext_name(repo, f, c.func) or '').split('.')[-1] for c in paths.calls_in(f.node)}
        if not names & {'cholesky', 'cholesky_solve', 'solve', 'solve_triangular'}:
            raise AnalysisError('C10.STATUS: Cholesky.forward no longer factorises')
        res.inst({'function': f.fq, 'site': 'raising factorisation', 'discipline': 'raises by itself'})
    return res


def rule_lstsq(repo, tier):
    res = RuleResult('C10.NANCHK', 'the lstsq solution passes a NaN assertion on every path before it is returned', floor=1)
    f = repo.func(SOLVER, 'LSTSQ.forward')
    pths, _ = paths.function_paths(f.node, limit=512)
    n = 0
    for ev, ex in pths:
        if ex != 'return':
            continue
        res_names, checked = set(), False
        for e in ev:
            if e[0] != 'stmt':
                continue
            st = e[1]
            if isinstance(st, ast.Assign) and any((_ext_name(repo, f, c.func) or '').split('.')[-1] == 'lstsq' for c in paths.calls_in(st)):
                for t in st.targets:
                    if dotted(t):
                        res_names.add(dotted(t))
            elif isinstance(st, ast.Assign) and _touch(st.value, res_names):
                for t in st.targets:
                    if dotted(t):
                        res_names.add(dotted(t))
            elif isinstance(st, ast.Assert) and _touch(st.test, res_names) and \
                    any((dotted(c.func) or '').split('.')[-1] in ('isnan', 'isfinite', 'hasnan') for c in paths.calls_in(st.test)):
                checked = True
            elif isinstance(st, ast.Return) and st.value is not None:
                direct = any((_ext_name(repo, f, c.func) or '').split('.')[-1] == 'lstsq' for c in paths.calls_in(st.value))
                if _touch(st.value, res_names) or direct:
                    n += 1
                    res.inst({'function': f.fq, 'return': src(st.value)[:60], 'checked': checked and not direct})
                    if direct or not checked:
                        res.add(Finding('C10.NANCHK', f, 'lstsq solution returned without the NaN assertion on this path', node=st))
    if n == 0:
        raise AnalysisError('C10.NANCHK: LSTSQ.forward no longer returns an lstsq result')
    return res


def _touch(e, names):
    used = _names_load(e)
    return any(u == n or u.startswith(n + '.') for u in used for n in names)




def rule_zero(repo, tier):
    from ..expr import Inliner, free_names
    res = RuleResult('C10.ZERO', 'CG: on the early exit taken when the right-hand side is exactly zero the returned value derives from b (or '
                     'fresh zeros), never from the caller\'s initial guess - the solution of A x = 0 is zero', floor=1)
    f = repo.func(SOLVER, 'CG.forward')
    pp = f.pos_params
    bname, xname = pp[2], pp[3] if len(pp) > 3 else 'x'
    pths, _ = paths.function_paths(f.node, limit=4096, strict=False, unroll=lambda l: 1)
    n = 0
    seen = set()
    for ev, ex in pths:
        if ex != 'return':
            continue
        inl = Inliner()
        zero_branch = False
        for e in ev:
            if e[0] == 'assume' and e[2]:
                t = inl.value(e[1])
                # (norm(b) == 0).all()  /  not b.any()
                if any(isinstance(c, ast.Compare) and len(c.ops) == 1 and isinstance(c.ops[0], ast.Eq) and isinstance(c.comparators[0], ast.Constant)
                       and c.comparators[0].value == 0 and bname in free_names(c.left) for c in ast.walk(t)):
                    zero_branch = True
            if e[0] == 'stmt':
                if isinstance(e[1], ast.Return) and zero_branch and e[1].value is not None:
                    v = inl.value(e[1].value)
                    key = dump(v)
                    if key in seen:
                        continue
                    seen.add(key)
                    n += 1
                    bad = xname in free_names(v)
                    res.inst({'function': f.fq, 'returns_on_zero_rhs': src(v)[:80], 'independent_of_initial_guess': not bad}, key)
                    if bad:
                        res.add(Finding('C10.ZERO', f, 'for b = 0 CG returns `%s`, which depends on the caller\'s initial guess `%s`: a non-zero guess '
                                        'is returned as the solution of A x = 0' % (src(v)[:70], xname), node=e[1]))
                inl.feed(e[1])
            elif e[0] == 'iter':
                inl.feed(e[1])
    if n == 0:
        raise AnalysisError('C10.ZERO: the zero right-hand-side early exit of CG.forward was not found')
    return res


def rules(repo, tier):
    from ..stale import rule_stale
    from .sparse_c10 import rule_idx, rule_dispatch
    return [rule_status(repo, tier), rule_lstsq(repo, tier), rule_zero(repo, tier), rule_stale(repo, 'C10.STALE', [(SOLVER, 'CG.forward')]),
            rule_idx(repo, tier), rule_dispatch(repo, tier)]
