"""C10 - solvers fail loudly: error discipline for status-returning factorisations."""
import ast
from ..core import RuleResult, Finding, AnalysisError, dotted, src, norm_construct, guarded, guarded_list
from .. import paths
from ..expr import free_names, dump

SOLVER = 'pypose.optim.solver'
# torch.linalg functions that return a status instead of raising: name -> index of the status in the result tuple
STATUS_FUNCS = {'cholesky_ex': 1, 'inv_ex': 1, 'solve_ex': 1, 'lu_factor_ex': 2, 'ldl_factor_ex': 2}


def _ext_name(repo, finfo, fn):
    d = dotted(fn)
    if d is None:
        return None
    r = repo.resolve_expr(finfo, fn)
    if r and r[0] == 'ext':
        return r[1]
    return d


def _names_load(node):
    return {n.id for n in ast.walk(node) if isinstance(n, ast.Name) and isinstance(n.ctx, ast.Load)} | \
           {dotted(n) for n in ast.walk(node) if isinstance(n, ast.Attribute) and dotted(n)}


def all_zero(test, truth, status):
    """does `test` evaluating to `truth` imply that EVERY entry of the status tensor is zero?"""
    def is_status(e):
        d = dotted(e)
        return d is not None and d in status
    if isinstance(test, ast.UnaryOp) and isinstance(test.op, ast.Not):
        return all_zero(test.operand, not truth, status)
    if isinstance(test, ast.BoolOp):
        if isinstance(test.op, ast.And) and truth:
            return any(all_zero(v, True, status) for v in test.values)
        if isinstance(test.op, ast.Or) and not truth:
            return any(all_zero(v, False, status) for v in test.values)
        return False
    if isinstance(test, ast.Call):
        d = dotted(test.func) or ''
        red = d.split('.')[-1] if d else (test.func.attr if isinstance(test.func, ast.Attribute) else '')
        inner = None
        if d in ('torch.all', 'torch.any', 'all', 'any') and test.args:
            inner = test.args[0]
        elif isinstance(test.func, ast.Attribute) and red in ('all', 'any', 'item', 'bool') and not d.startswith('torch.'):
            inner = test.func.value
            if red in ('item', 'bool'):
                return all_zero(inner, truth, status)
        if inner is None:
            return False
        if red == 'any':
            # not any(S != 0) ; not any(S) ; not S.any()
            if is_status(inner):
                return not truth
            if isinstance(inner, ast.Compare) and len(inner.ops) == 1 and is_status(inner.left) and isinstance(inner.comparators[0], ast.Constant) \
                    and inner.comparators[0].value == 0:
                if isinstance(inner.ops[0], (ast.NotEq, ast.Gt)):
                    return not truth
            return False
        if red == 'all':
            if isinstance(inner, ast.Compare) and len(inner.ops) == 1 and is_status(inner.left) and isinstance(inner.comparators[0], ast.Constant) \
                    and inner.comparators[0].value == 0 and isinstance(inner.ops[0], ast.Eq):
                return truth
            return False
    if isinstance(test, ast.Compare) and len(test.ops) == 1 and isinstance(test.comparators[0], ast.Constant) and test.comparators[0].value == 0:
        # S.abs().sum() == 0 / S.max() == 0 (non-negative LAPACK status) / S.any() == 0
        l = test.left
        if isinstance(l, ast.Call) and isinstance(l.func, ast.Attribute) and l.func.attr in ('sum', 'max', 'count_nonzero', 'any', 'norm'):
            base = l.func.value
            while isinstance(base, ast.Call) and isinstance(base.func, ast.Attribute) and base.func.attr in ('abs',):
                base = base.func.value
            if is_status(base):
                return truth if isinstance(test.ops[0], ast.Eq) else (not truth if isinstance(test.ops[0], (ast.NotEq, ast.Gt)) else False)
    return False


def status_sites(repo, finfo):
    out = []
    for c in paths.calls_in(finfo.node):
        full = _ext_name(repo, finfo, c.func)
        if full and full.split('.')[-1] in STATUS_FUNCS and (full.startswith('torch.') or '.' not in full):
            out.append((c, full.split('.')[-1]))
    return out


def check_function(repo, finfo, res):
    sites = status_sites(repo, finfo)
    for callx, fname in sites:
        ce = [k for k in callx.keywords if k.arg == 'check_errors']
        if ce and isinstance(ce[0].value, ast.Constant) and ce[0].value.value is True:
            res.inst({'function': finfo.fq, 'site': src(callx)[:80], 'discipline': 'check_errors=True'})
            continue
        pths, _ = paths.function_paths(finfo.node, limit=2048, strict=False)
        verdicts = set()
        bad_use = None
        fail_ret = None
        idx = STATUS_FUNCS[fname]
        for ev, ex in pths:
            status, factors, checked, seen = set(), set(), False, False
            for e in ev:
                if e[0] == 'stmt':
                    st = e[1]
                    holds = any(n is callx for n in ast.walk(st))
                    if holds:
                        seen = True
                        # binding of the result
                        if isinstance(st, ast.Assign) and st.value is callx and isinstance(st.targets[0], (ast.Tuple, ast.List)):
                            elts = st.targets[0].elts
                            for i, t in enumerate(elts):
                                k = dotted(t)
                                if k is None:
                                    continue
                                if i == idx or (i == len(elts) - 1 and idx >= len(elts)):
                                    status.add(k)
                                else:
                                    factors.add(k)
                        elif isinstance(st, ast.Assign) and st.value is callx and dotted(st.targets[0]):
                            k = dotted(st.targets[0])
                            factors.add(k)           # whole named tuple: k.info is the status
                            status.add(k + '.info')
                        else:
                            # result consumed inside an expression: the status cannot be inspected
                            verdicts.add('unbound')
                            bad_use = bad_use or st
                        continue
                    if not seen:
                        continue
                    used = _names_load(st)
                    if isinstance(st, ast.Assert):
                        if used & status:
                            if all_zero(st.test, True, status):
                                checked = True
                            else:
                                verdicts.add('weak-check')
                                bad_use = bad_use or st
                        continue        # an assertion inspects, it does not consume the factor
                    if isinstance(st, ast.Assign) and used & status and not (used & factors):
                        for t in st.targets:
                            if dotted(t):
                                status.add(dotted(t))
                        continue
                    if used & factors and not checked:
                        verdicts.add('use-before-check')
                        bad_use = bad_use or st
                        break
                elif e[0] == 'assume' and seen:
                    if _names_load(e[1]) & status:
                        if all_zero(e[1], e[2], status):
                            checked = True
                        elif all_zero(e[1], not e[2], status) and ex == 'return':
                            # the branch taken when SOME factorisation failed ends in a return: the failure is answered (a fallback solution, the input,
                            # a warning) instead of raised
                            verdicts.add('failure-returns')
                            fail_ret = e[1]
                        elif ex != 'raise' and not all_zero(e[1], not e[2], status):
                            verdicts.add('weak-check')
                            bad_use = bad_use or e[1]
            if seen and checked:
                verdicts.add('checked')
            elif seen and not verdicts & {'use-before-check', 'unbound'}:
                # factor never used on this path: nothing to protect
                pass
        ok = not (verdicts & {'use-before-check', 'unbound'})
        if 'failure-returns' in verdicts:
            res.add(Finding('C10.STATUS', finfo, 'on the path where the status of %s reports a failed factorisation (`%s`) the function returns a value instead of raising: '
                            'a matrix that is not positive definite is answered with some vector' % (fname, src(fail_ret)[:70]), node=callx,
                            construct='failure path returns ' + norm_construct(callx, finfo.node)))
        if 'weak-check' in verdicts and not ok:
            res.add(Finding('C10.STATUS', finfo, 'the check on the status of %s (`%s`) does not establish that EVERY factorisation of the batch '
                            'succeeded: a batch with some failed items passes it' % (fname, src(bad_use)[:70]), node=callx,
                            construct='weak status check ' + norm_construct(callx, finfo.node)))
            res.inst({'function': finfo.fq, 'site': src(callx)[:80], 'discipline': sorted(verdicts)})
            continue
        res.inst({'function': finfo.fq, 'site': src(callx)[:80], 'discipline': sorted(verdicts) or ['factor unused']})
        if not ok:
            res.add(Finding('C10.STATUS', finfo,
                            'status returned by %s is not inspected (assert / raising branch / check_errors=True) before '
                            'the factor is used at `%s`: a failed factorisation yields a silent wrong result'
                            % (fname, src(bad_use)[:80]), node=callx,
                            construct=norm_construct(callx, finfo.node)))


@guarded
def rule_status(repo, tier):
    res = RuleResult('C10.STATUS', 'the status of every status-returning factorisation reaches a raising check before the factor is used', floor=1)
    mods = [SOLVER] if tier == 'quick' else sorted(repo.modules)
    for m in mods:
        for f in repo.functions_view(m):
            check_function(repo, f, res)
    f = repo.func(SOLVER, 'Cholesky.forward')
    if not status_sites(repo, f):
        # a plain torch.linalg.cholesky raises by itself - then the rule has nothing to decide there
        names = {(_ext_name(repo, f, c.func) or '').split('.')[-1] for c in paths.calls_in(f.node)}
        if not names & {'cholesky', 'cholesky_solve', 'solve', 'solve_triangular'}:
            raise AnalysisError('C10.STATUS: Cholesky.forward no longer factorises')
        res.inst({'function': f.fq, 'site': 'raising factorisation', 'discipline': 'raises by itself'})
    return res


@guarded
def rule_lstsq(repo, tier):
    res = RuleResult('C10.NANCHK', 'the lstsq solution passes a NaN assertion on every path before it is returned', floor=1)
    f = repo.func(SOLVER, 'LSTSQ.forward')
    pths, _ = paths.function_paths(f.node, limit=512)
    n = 0
    truths = {}
    for ev, ex in pths:
        if ex == 'return':
            for e in ev:
                if e[0] == 'assume':
                    truths.setdefault(id(e[1]), set()).add(bool(e[2]))
    for ev, ex in pths:
        if ex != 'return':
            continue
        res_names, checked = set(), False
        for e in ev:
            if e[0] == 'assume' and len(truths.get(id(e[1]), ())) == 1 and _touch(e[1], res_names) and \
                    any((dotted(c.func) or '').split('.')[-1] in ('isnan', 'isfinite', 'hasnan') for c in paths.calls_in(e[1])):
                checked = True                  # the spelled-out assertion: this (returning) path went past `if <NaN test of the solution>: raise`
                continue
            if e[0] != 'stmt':
                continue
            st = e[1]
            if isinstance(st, ast.Assign) and any((_ext_name(repo, f, c.func) or '').split('.')[-1] == 'lstsq' for c in paths.calls_in(st)):
                for t in st.targets:
                    if dotted(t):
                        res_names.add(dotted(t))
            elif isinstance(st, ast.Assign) and _touch(st.value, res_names):
                for t in st.targets:
                    if dotted(t):
                        res_names.add(dotted(t))
            elif isinstance(st, ast.Assert) and _touch(st.test, res_names) and \
                    any((dotted(c.func) or '').split('.')[-1] in ('isnan', 'isfinite', 'hasnan') for c in paths.calls_in(st.test)):
                checked = True
            elif isinstance(st, ast.Return) and st.value is not None:
                direct = any((_ext_name(repo, f, c.func) or '').split('.')[-1] == 'lstsq' for c in paths.calls_in(st.value))
                if _touch(st.value, res_names) or direct:
                    n += 1
                    res.inst({'function': f.fq, 'return': src(st.value)[:60], 'checked': checked and not direct})
                    if direct or not checked:
                        res.add(Finding('C10.NANCHK', f, 'lstsq solution returned without the NaN assertion on this path', node=st))
    if n == 0:
        raise AnalysisError('C10.NANCHK: LSTSQ.forward no longer returns an lstsq result')
    return res


def _touch(e, names):
    used = _names_load(e)
    return any(u == n or u.startswith(n + '.') for u in used for n in names)




@guarded
def rule_zero(repo, tier):
    from ..expr import Inliner, free_names
    res = RuleResult('C10.ZERO', 'CG: on the early exit taken when the right-hand side is exactly zero the returned value derives from b (or '
                     'fresh zeros), never from the caller\'s initial guess - the solution of A x = 0 is zero', floor=1)
    f = repo.func(SOLVER, 'CG.forward')
    pp = f.pos_params
    bname, xname = pp[2], pp[3] if len(pp) > 3 else 'x'
    pths, _ = paths.function_paths(f.node, limit=4096, strict=False, unroll=lambda l: 1)
    n = 0
    seen = set()
    for ev, ex in pths:
        if ex != 'return':
            continue
        inl = Inliner()
        zero_branch = False
        for e in ev:
            if e[0] == 'assume' and e[2]:
                t = inl.value(e[1])
                # (norm(b) == 0).all()  /  not b.any()
                if any(isinstance(c, ast.Compare) and len(c.ops) == 1 and isinstance(c.ops[0], ast.Eq) and isinstance(c.comparators[0], ast.Constant)
                       and c.comparators[0].value == 0 and bname in free_names(c.left) for c in ast.walk(t)):
                    zero_branch = True
            if e[0] == 'stmt':
                if isinstance(e[1], ast.Return) and zero_branch and e[1].value is not None:
                    v = inl.value(e[1].value)
                    key = dump(v)
                    if key in seen:
                        continue
                    seen.add(key)
                    n += 1
                    bad = xname in free_names(v)
                    res.inst({'function': f.fq, 'returns_on_zero_rhs': src(v)[:80], 'independent_of_initial_guess': not bad}, key)
                    if bad:
                        res.add(Finding('C10.ZERO', f, 'for b = 0 CG returns `%s`, which depends on the caller\'s initial guess `%s`: a non-zero guess '
                                        'is returned as the solution of A x = 0' % (src(v)[:70], xname), node=e[1]))
                inl.feed(e[1])
            elif e[0] == 'iter':
                inl.feed(e[1])
    if n == 0:
        raise AnalysisError('C10.ZERO: the zero right-hand-side early exit of CG.forward was not found')
    return res


FACTOR_FUNCS = {'cholesky_ex': 'upper', 'cholesky': 'upper'}
SOLVE_FUNCS = {'cholesky_solve': 'upper', 'solve_triangular': 'upper', 'cholesky_inverse': 'upper'}


def _kwarg(call, name, default='False'):
    for k in call.keywords:
        if k.arg == name:
            return k.value
    return None


def _factor_flag(repo, finfo, call, depth=0):
    """source text of the triangle flag with which the factor returned by `call` was computed, in terms of the caller; None = unknown"""
    name = (_ext_name(repo, finfo, call.func) or '').split('.')[-1]
    if name in FACTOR_FUNCS:
        k = _kwarg(call, FACTOR_FUNCS[name])
        return 'False' if k is None else src(k)
    if depth >= 2:
        return None
    tg, _how = repo.resolve_call(finfo, call, by_name=False)
    tg = [t for t in (tg or []) if hasattr(t, 'node')]
    if len(tg) != 1:
        return None
    callee = tg[0]
    inner = [c for c in paths.calls_in(callee.node) if (_ext_name(repo, callee, c.func) or '').split('.')[-1] in FACTOR_FUNCS]
    if len(inner) != 1:
        return None
    flag = _factor_flag(repo, callee, inner[0], depth + 1)
    if flag is None:
        return None
    # substitute the callee's parameters by the caller's arguments / the declared defaults
    a = callee.node.args
    params = [x.arg for x in a.posonlyargs + a.args]
    defaults = dict(zip(params[len(params) - len(a.defaults):], a.defaults))
    for x, dflt in zip(a.kwonlyargs, a.kw_defaults):
        params.append(x.arg)
        if dflt is not None:
            defaults[x.arg] = dflt
    skip = 1 if _how in ('self', 'cls', 'super', 'ctor', 'byname') else 0
    bound = {}
    for i, arg in enumerate(call.args):
        if i + skip < len(params):
            bound[params[i + skip]] = src(arg)
    for k in call.keywords:
        if k.arg:
            bound[k.arg] = src(k.value)
    try:
        tree = ast.parse(flag, mode='eval').body
    except SyntaxError:
        return None
    class Sub(ast.NodeTransformer):
        def visit_Name(self, n):
            if n.id in params:
                if n.id in bound:
                    return ast.parse(bound[n.id], mode='eval').body
                if n.id in defaults:
                    return defaults[n.id]
            return n
    return src(Sub().visit(tree))


def _walk_own(fnode):
    """nodes of a function body without those of nested function / class definitions"""
    stack = list(fnode.body)
    while stack:
        n = stack.pop()
        if isinstance(n, (ast.FunctionDef, ast.AsyncFunctionDef, ast.Lambda, ast.ClassDef)):
            continue
        yield n
        stack.extend(ast.iter_child_nodes(n))


@guarded
def rule_tri(repo, tier):
    res = RuleResult('C10.TRI', 'the triangle flag (`upper`) of a Cholesky factorisation and of the triangular solve that consumes its factor are the same '
                     'expression (also through a helper): a lower factor solved as an upper one returns a wrong vector without any error', floor=1)
    mods = [SOLVER] if tier == 'quick' else sorted(repo.modules)
    for m in mods:
        for f in repo.functions_view(m):
            solves = [c for c in _walk_own(f.node) if isinstance(c, ast.Call) and (dotted(c.func) or '').split('.')[-1] in SOLVE_FUNCS]
            if not solves:
                continue
            # factor variables: name -> producing call
            prod = {}
            for st in _walk_own(f.node):
                if isinstance(st, ast.Assign) and isinstance(st.value, ast.Call):
                    for t in st.targets:
                        names = [t] if isinstance(t, ast.Name) else list(t.elts) if isinstance(t, ast.Tuple) else []
                        for k, nm in enumerate(names):
                            if isinstance(nm, ast.Name) and (k == 0 or not isinstance(t, ast.Tuple)):
                                prod.setdefault(nm.id, []).append(st.value)
            for c in solves:
                sname = (dotted(c.func) or '').split('.')[-1]
                cands = [a for a in list(c.args) + [k.value for k in c.keywords] if isinstance(a, ast.Name) and a.id in prod]
                for a in cands:
                    flags = {_factor_flag(repo, f, pc) for pc in prod[a.id]}
                    if flags == {None} or None in flags:
                        continue
                    sk = _kwarg(c, SOLVE_FUNCS[sname])
                    sflag = 'False' if sk is None else src(sk)
                    ok = flags == {sflag}
                    res.inst({'function': f.fq, 'solve': src(c)[:70], 'factor': a.id, 'factor flag': sorted(flags), 'solve flag': sflag, 'agree': ok}, f.fq)
                    if not ok:
                        res.add(Finding('C10.TRI', f, '`%s` reads the factor `%s` as upper=%s, but it was computed with upper=%s: whenever the two differ the '
                                        'returned vector solves a different system' % (src(c)[:70], a.id, sflag, '/'.join(sorted(flags))), node=c))
    _two_stage(repo, res)
    return res


def _two_stage(repo, res):
    """A = G G^T with G = F for a lower factor (upper=False) and G = F^T for an upper one.  A Cholesky solve written as two triangular solves runs
    G y = b first and G^T x = y second, FOR BOTH values of the flag: the matrices of the two stages and their `upper` arguments are evaluated for
    upper = False and upper = True.  F then F^T with (upper, not upper) is right for the lower factor only - for upper=True it solves (U U^T) x = b."""
    for f in repo.module(SOLVER).functions.values():
        tris = [c for c in _walk_own(f.node) if isinstance(c, ast.Call) and (dotted(c.func) or '').split('.')[-1] == 'solve_triangular' and len(c.args) >= 2]
        if len(tris) < 2:
            continue
        prod = {}
        for st in _walk_own(f.node):
            if isinstance(st, ast.Assign) and isinstance(st.value, ast.Call):
                for t in st.targets:
                    names = [t] if isinstance(t, ast.Name) else list(t.elts) if isinstance(t, ast.Tuple) else []
                    for k, nm in enumerate(names):
                        if isinstance(nm, ast.Name) and (k == 0 or not isinstance(t, ast.Tuple)):
                            prod.setdefault(nm.id, []).append(st.value)

        def root(e):
            while True:
                if isinstance(e, ast.Attribute) and e.attr in ('mT', 'T', 'mH'):
                    e = e.value
                elif isinstance(e, ast.Call) and isinstance(e.func, ast.Attribute) and e.func.attr in ('transpose', 'conj', 'contiguous', 'clone'):
                    e = e.func.value
                elif isinstance(e, ast.IfExp):
                    e = e.body
                else:
                    return e
        by_factor = {}
        for c in tris:
            r = root(c.args[0])
            if isinstance(r, ast.Name) and r.id in prod:
                flags = {_factor_flag(repo, f, pc) for pc in prod[r.id]}
                if len(flags) == 1 and None not in flags:
                    by_factor.setdefault((r.id, flags.pop()), []).append(c)
        for (fname, flag), cs in by_factor.items():
            if len(cs) != 2:
                continue
            # order by data flow: the second stage consumes the result of the first
            def result_names(c):
                return {t.id for st in _walk_own(f.node) if isinstance(st, ast.Assign) and st.value is c for t in st.targets if isinstance(t, ast.Name)}
            first, second = cs
            if any(x is cs[1] for x in ast.walk(cs[0].args[1])) or (result_names(cs[1]) & {x.id for x in ast.walk(cs[0].args[1]) if isinstance(x, ast.Name)}):
                first, second = cs[1], cs[0]

            def evb(e, u):
                if isinstance(e, ast.Constant) and isinstance(e.value, bool):
                    return e.value
                if src(e) == flag:
                    return u
                if isinstance(e, ast.UnaryOp) and isinstance(e.op, ast.Not):
                    v = evb(e.operand, u)
                    return None if v is None else not v
                return None

            def evm(e, u):
                """is the matrix F (False) or F^T (True)"""
                if isinstance(e, ast.Name):
                    return False
                if isinstance(e, ast.Attribute) and e.attr in ('mT', 'T', 'mH'):
                    v = evm(e.value, u)
                    return None if v is None else not v
                if isinstance(e, ast.Call) and isinstance(e.func, ast.Attribute) and e.func.attr == 'transpose':
                    v = evm(e.func.value, u)
                    return None if v is None else not v
                if isinstance(e, ast.Call) and isinstance(e.func, ast.Attribute) and e.func.attr in ('conj', 'contiguous', 'clone'):
                    return evm(e.func.value, u)
                if isinstance(e, ast.IfExp):
                    t = evb(e.test, u)
                    return None if t is None else evm(e.body if t else e.orelse, u)
                return None
            verdict = {}
            for u in (False, True):
                want1 = u                      # G = F (lower) / F^T (upper)
                t1, t2 = evm(first.args[0], u), evm(second.args[0], u)
                k1 = _kwarg(first, 'upper'); k2 = _kwarg(second, 'upper')
                u1 = False if k1 is None else evb(k1, u)
                u2 = False if k2 is None else evb(k2, u)
                if None in (t1, t2, u1, u2):
                    verdict[u] = None
                    continue
                # F is upper-triangular iff u; its transpose the opposite: the declared triangle must be the real one
                tri_ok = (u1 == (u != t1)) and (u2 == (u != t2))
                verdict[u] = (t1 == want1) and (t2 == (not want1)) and tri_ok
            res.inst({'function': f.fq, 'two-stage solve with factor': fname, 'flag': flag, 'G y = b then G^T x = y for upper=False': verdict[False],
                      'for upper=True': verdict[True]}, (f.fq, 'two-stage', fname))
            for u in (False, True):
                if verdict[u] is False:
                    res.add(Finding('C10.TRI', f, 'the two triangular solves `%s` / `%s` are not G y = b followed by G^T x = y when %s = %s (A = G G^T, G the lower-'
                                    'triangular form of the factor): the returned vector solves another system - silently' % (src(first)[:50], src(second)[:50], flag, u),
                                    node=first, construct='two-stage triangular solve|%s' % u))


@guarded
def rule_guess(repo, tier):
    """CG accepts a right-hand side given as a vector and makes it a column (b.unsqueeze(-1)).  The initial guess lives in the same space as
    b: whatever rank normalisation b gets, the guess gets too, under the same condition - otherwise b - A @ x broadcasts a column against a
    vector into an (n, n) matrix and the documented 'optional initial guess' raises for vector right-hand sides."""
    res = RuleResult('C10.GUESS', 'CG.forward applies to the initial guess every rank normalisation it applies to b, in the same branch', floor=1)
    f = __import__('sa.core', fromlist=['x']).ifexp_view(repo.func(SOLVER, 'CG.forward'))
    pp_ = f.pos_params
    bname, xname = pp_[2], pp_[3]
    n = 0
    for st in ast.walk(f.node):
        if not isinstance(st, ast.If):
            continue
        for branch in (st.body, st.orelse):
            resh = [a for a in branch if isinstance(a, ast.Assign) and any(isinstance(t, ast.Name) and t.id == bname for t in a.targets) and
                    any(isinstance(c, ast.Call) and isinstance(c.func, ast.Attribute) and c.func.attr in ('unsqueeze', 'view', 'reshape', 'squeeze') and dotted(c.func.value) == bname
                        for c in ast.walk(a.value))]
            if not resh:
                continue
            n += 1
            same = any(isinstance(a, ast.Assign) and any(isinstance(t, ast.Name) and t.id == xname for t in a.targets) and
                       any(isinstance(c, ast.Call) and isinstance(c.func, ast.Attribute) and c.func.attr in ('unsqueeze', 'view', 'reshape', 'squeeze') and dotted(c.func.value) == xname
                           for c in ast.walk(a.value)) for a in branch)
            res.inst({'function': f.fq, 'normalisation of b': src(resh[0])[:50], 'guess normalised in the same branch': same}, src(resh[0]))
            if not same:
                res.add(Finding('C10.GUESS', f, '`%s` makes the vector right-hand side a column but leaves the initial guess `%s` as it came: with a vector b and a '
                                'vector guess, b - A @ x broadcasts (n, 1) against (n,) and the solve raises' % (src(resh[0])[:50], xname), node=resh[0]))
    if n == 0:
        res.inst({'function': f.fq, 'rank normalisations of b': 0}, 'none')
    return res


def rule_budget(repo, tier):
    """CG's default iteration budget is 10 n with n the ORDER OF THE SYSTEM: the row count of the (n, k) right-hand side or a side of A.  The last axis
    of b is the number of right-hand sides (1 after the vector normalisation), so 10 * b.shape[-1] is a budget of 10 for every system."""
    res = RuleResult('C10.BUDGET', 'CG: the default maxiter is derived from the order of the system (A.shape[-1] / A.shape[-2] / b.shape[-2]), never from the '
                     'number of right-hand sides b.shape[-1]', floor=1)
    f = repo.func(SOLVER, 'CG.forward')
    pp_ = f.pos_params
    aname, bname = pp_[1], pp_[2]
    defs = {}
    for n in ast.walk(f.node):
        if isinstance(n, ast.Assign) and len(n.targets) == 1 and isinstance(n.targets[0], ast.Name):
            defs.setdefault(n.targets[0].id, []).append(n.value)
    cnt = 0
    # the budget variable is whatever bounds the iteration loop: `for it in range(<name>)`; the configured budget is the constructor attribute read there
    bvars = {n.iter.args[0].id for n in ast.walk(f.node) if isinstance(n, ast.For) and isinstance(n.iter, ast.Call) and dotted(n.iter.func) == 'range'
             and len(n.iter.args) == 1 and isinstance(n.iter.args[0], ast.Name)}
    if not bvars:
        raise AnalysisError('C10.BUDGET: CG.forward has no `for ... in range(<budget>)` loop any more')
    for n in ast.walk(f.node):
        if not (isinstance(n, ast.Assign) and any(isinstance(t, ast.Name) and t.id in bvars for t in n.targets)):
            continue
        if isinstance(n.value, ast.Attribute) and (dotted(n.value) or '').startswith('self.'):
            continue                                     # the configured budget, not the default
        cnt += 1
        extents = []
        stack = [n.value]
        seen = set()
        while stack:
            e = stack.pop()
            for x in ast.walk(e):
                if isinstance(x, ast.Name) and x.id not in seen and len(defs.get(x.id, [])) == 1:
                    seen.add(x.id)
                    stack.append(defs[x.id][0])
                if isinstance(x, ast.Subscript) and isinstance(x.value, ast.Attribute) and x.value.attr == 'shape':
                    try:
                        k = ast.literal_eval(x.slice)
                    except ValueError:
                        k = None
                    extents.append((dotted(x.value.value), k, x))
                if isinstance(x, ast.Call) and isinstance(x.func, ast.Attribute) and x.func.attr == 'size' and x.args:
                    try:
                        k = ast.literal_eval(x.args[0])
                    except ValueError:
                        k = None
                    extents.append((dotted(x.func.value), k, x))
        good = [e for e in extents if (e[0] == aname and e[1] in (-1, -2)) or (e[0] == bname and e[1] == -2)]
        bad = [e for e in extents if e not in good]
        ok = bool(good) and not bad
        res.inst({'function': f.fq, 'budget': src(n)[:50], 'extents': [src(e[2]) for e in extents], 'order of the system': ok}, src(n))
        if bad:
            res.add(Finding('C10.BUDGET', f, 'the default iteration budget `%s` is taken from `%s`: for the right-hand side the order of the system is '
                            'its second-to-last axis; the last axis counts right-hand sides (1), so every system gets the same few iterations'
                            % (src(n)[:50], src(bad[0][2])), node=n))
        elif not good:
            res.add(Finding('C10.BUDGET', f, 'the default iteration budget `%s` does not depend on the order of the system: conjugate gradients needs up to n '
                            'steps for an n x n system, so larger systems are returned unconverged' % src(n)[:50], node=n))
    if cnt == 0:
        raise AnalysisError('C10.BUDGET: the default maxiter of CG.forward was not found')
    return res


@guarded
def rule_cgrec(repo, tier):
    """Roles in the conjugate-gradient recurrence.  The stopping clause of the property is about the TRUE residual: |b - A x| <= tol |b|.
      * the residual variable is the one the loop decreases by alpha * (A p); it starts as b (no guess) or b - A x0: b with even, A x0 with odd parity;
      * the quantity compared with the threshold tol |b| is the norm of that residual variable itself - not of the preconditioned residual z = M r,
        nor sqrt(r^T z), which weigh it by the preconditioner;
      * x moves by + alpha p, r by - alpha q, with q = A p."""
    from ..expr import parities
    res = RuleResult('C10.CGREC', 'CG recurrence roles: r0 = b - A x0 (b even, A x0 odd parity), the convergence test compares the norm of the residual r itself '
                     '(not a preconditioner-weighted quantity) with tol |b|, x += alpha p and r -= alpha A p', floor=4)
    f = __import__('sa.core', fromlist=['x']).ifexp_view(repo.func(SOLVER, 'CG.forward'))
    pp_ = f.pos_params
    aname, bname, xname = pp_[1], pp_[2], pp_[3] if len(pp_) > 3 else 'x'
    loops = [n for n in ast.walk(f.node) if isinstance(n, ast.For)]
    if not loops:
        raise AnalysisError('C10.CGREC: CG.forward has no iteration loop')
    loop = loops[0]
    # the system that is solved is the one that was given: A and b are not replaced by preconditioned products.  M A is symmetric only when M and A commute (CG
    # needs a symmetric operator), and a stopping rule on |M r| <= tol |M b| is not the one the property states.
    mname = next((a.arg for a in f.node.args.args + f.node.args.kwonlyargs if a.arg == 'M'), None)
    for n in ast.walk(f.node):
        if isinstance(n, ast.Assign) and mname:
            tg = n.targets[0]
            pairs = list(zip(tg.elts, n.value.elts)) if isinstance(tg, ast.Tuple) and isinstance(n.value, ast.Tuple) and len(tg.elts) == len(n.value.elts) else [(tg, n.value)]
            for t, v in pairs:
                if isinstance(t, ast.Name) and t.id in (aname, bname):
                    folded = any(isinstance(x, ast.Name) and x.id == mname for x in ast.walk(v))
                    res.inst({'function': f.fq, 'system re-bound': src(n)[:60], 'by a product with the preconditioner': folded}, ('rebind', t.id, src(v)[:40]))
                    if folded:
                        res.add(Finding('C10.CGREC', f, '`%s` replaces the %s of the system by a product with the preconditioner: the recurrence then runs on M A (not symmetric '
                                        'unless M and A commute) and the stopping rule compares |M r| with tol |M b|' % (src(n)[:60], 'matrix' if t.id == aname else 'right-hand side'),
                                        node=n, construct='system folded with M|' + t.id))
    # in-place updates inside the loop:  v += e / v -= e / v.add_(e) / v.sub_(e)
    upd = {}
    for n in ast.walk(loop):
        if isinstance(n, ast.AugAssign) and isinstance(n.target, ast.Name) and isinstance(n.op, (ast.Add, ast.Sub)):
            upd.setdefault(n.target.id, []).append((0 if isinstance(n.op, ast.Add) else 1, n.value, n))
        elif isinstance(n, ast.Expr) and isinstance(n.value, ast.Call) and isinstance(n.value.func, ast.Attribute) and n.value.func.attr in ('add_', 'sub_') \
                and isinstance(n.value.func.value, ast.Name) and n.value.args:
            upd.setdefault(n.value.func.value.id, []).append((0 if n.value.func.attr == 'add_' else 1, n.value.args[0], n))
    # q = A p : torch.matmul(A, p, out=q) or q = A @ p
    qnames = set()
    for n in ast.walk(loop):
        if isinstance(n, ast.Call) and dotted(n.func) in ('torch.matmul', 'torch.mm') and len(n.args) >= 2 and dotted(n.args[0]) == aname:
            for k in n.keywords:
                if k.arg == 'out' and isinstance(k.value, ast.Name):
                    qnames.add(k.value.id)
        if isinstance(n, ast.Assign) and len(n.targets) == 1 and isinstance(n.targets[0], ast.Name):
            v = n.value
            if (isinstance(v, ast.BinOp) and isinstance(v.op, ast.MatMult) and dotted(v.left) == aname) or \
                    (isinstance(v, ast.Call) and dotted(v.func) in ('torch.matmul', 'torch.mm') and v.args and dotted(v.args[0]) == aname):
                qnames.add(n.targets[0].id)
    rname = None
    for v_, ups in upd.items():
        for sign, val, node in ups:
            if any(isinstance(y, ast.Name) and y.id in qnames for y in ast.walk(val)):
                rname = v_
                res.inst({'function': f.fq, 'clause': 'residual update', 'statement': src(node)[:50], 'sign': '-' if sign else '+', 'ok': sign == 1}, 'rupd')
                if sign != 1:
                    res.add(Finding('C10.CGREC', f, '`%s`: the residual must DECREASE by alpha * (A p)' % src(node)[:50], node=node))
    if rname is None:
        raise AnalysisError('C10.CGREC: no residual update by alpha * (A p) found in the CG loop')
    # solution update
    xs = upd.get(xname, [])
    okx = bool(xs) and all(sign == 0 for sign, _, _ in xs)
    res.inst({'function': f.fq, 'clause': 'solution update', 'statements': [src(n_)[:40] for _, _, n_ in xs], 'ok': okx}, 'xupd')
    if not okx:
        res.add(Finding('C10.CGREC', f, 'the solution is not advanced by + alpha * p (%s)' % [src(n_)[:40] for _, _, n_ in xs], node=xs[0][2] if xs else loop,
                        construct='solution update'))
    # initial residual
    init = [n for n in f.node.body if isinstance(n, ast.Assign) and any(isinstance(t, ast.Name) and t.id == rname for t in n.targets)]
    if not init:
        raise AnalysisError('C10.CGREC: the residual `%s` has no initial assignment before the loop' % rname)

    def alts(e):
        return alts(e.body) + alts(e.orelse) if isinstance(e, ast.IfExp) else [e]

    def norm_sub(e):
        """X.sub_(Y) / X.sub(Y) / torch.sub(X, Y) -> X - Y  (so that the parity walk sees the subtraction)"""
        class T(ast.NodeTransformer):
            def visit_Call(self, n):
                n = self.generic_visit(n)
                if isinstance(n.func, ast.Attribute) and n.func.attr in ('sub_', 'sub') and len(n.args) == 1 and not (dotted(n.func) or '').startswith('torch.'):
                    return ast.BinOp(n.func.value, ast.Sub(), n.args[0])
                if isinstance(n.func, ast.Attribute) and n.func.attr in ('add_', 'add') and len(n.args) == 1 and not (dotted(n.func) or '').startswith('torch.'):
                    return ast.BinOp(n.func.value, ast.Add(), n.args[0])
                if dotted(n.func) == 'torch.sub' and len(n.args) == 2:
                    return ast.BinOp(n.args[0], ast.Sub(), n.args[1])
                if isinstance(n.func, ast.Attribute) and n.func.attr in ('neg', 'neg_') and not n.args:
                    return ast.UnaryOp(ast.USub(), n.func.value)
                return n
        import copy
        return T().visit(copy.deepcopy(e))
    for a_ in alts(init[-1].value):
        a2 = norm_sub(a_)
        pb = parities(a2, lambda y: isinstance(y, ast.Name) and y.id == bname)
        isAx = lambda y: (isinstance(y, ast.BinOp) and isinstance(y.op, ast.MatMult) and dotted(y.left) == aname) or \
            (isinstance(y, ast.Call) and dotted(y.func) in ('torch.matmul', 'torch.mm') and y.args and dotted(y.args[0]) == aname)
        pa = parities(a2, isAx)
        ok = pb == {0} and pa in (set(), {1})
        res.inst({'function': f.fq, 'clause': 'initial residual', 'alternative': src(a_)[:50], 'parity of b': sorted(pb, key=str), 'parity of A x0': sorted(pa, key=str), 'ok': ok},
                 ('r0', src(a_)[:50]))
        if not ok:
            res.add(Finding('C10.CGREC', f, 'the initial residual `%s` is not b - A x0 (b enters with parity %s, A x0 with parity %s; needed: even, odd): the recurrence then '
                            'converges to 2 x0 - x*' % (src(a_)[:50], sorted(pb, key=str), sorted(pa, key=str)), node=init[-1], construct='initial residual|' + src(a_)[:40]))
    # convergence test
    tests = []
    for n in ast.walk(loop):
        if isinstance(n, ast.If) and any(isinstance(x, (ast.Return, ast.Break)) for st in n.body for x in ast.walk(st)):
            tests.append(n)
    if not tests:
        raise AnalysisError('C10.CGREC: no convergence exit in the CG loop')
    # the residual is tested BEFORE the step is formed from it: rho = r^T z and alpha = rho / (p^T A p) are 0 / 0 for a residual that is already zero
    # (b != 0 with an exact initial guess), so an exit placed after the update returns NaN where the guess should be returned
    divs = [n for n in ast.walk(loop) if isinstance(n, ast.BinOp) and isinstance(n.op, ast.Div)]
    if divs:
        first_div = min(d.lineno for d in divs)
        first_test = min(t.lineno for t in tests)
        okpos = first_test < first_div
        res.inst({'function': f.fq, 'clause': 'residual tested before the step length is formed', 'ok': okpos}, 'testpos')
        if not okpos:
            res.add(Finding('C10.CGREC', f, 'the convergence test (line %d) comes after the first division of the iteration (line %d): with an initial guess whose residual is '
                            'already zero the step length is 0 / 0 and NaN is returned instead of the guess' % (first_test, first_div), node=tests[0],
                            construct='convergence test after the step'))
    # rho = r^T z is formed from the z of THIS iteration: the statement(s) that produce z (z = M r through out=z, or z = r) come before it in the loop body
    rho_st = [st for st in ast.walk(loop) if isinstance(st, ast.Assign) and isinstance(st.value, ast.Call) and dotted(st.value.func) in ('torch.matmul', 'torch.mm')
              and len(st.value.args) >= 2 and any(isinstance(x, ast.Name) and x.id == rname for x in ast.walk(st.value.args[0]))]
    if rho_st:
        zname = next((x.id for x in ast.walk(rho_st[0].value.args[1]) if isinstance(x, ast.Name)), None)
        zdefs = []
        for st in ast.walk(loop):
            if isinstance(st, ast.Assign) and any(isinstance(t, ast.Name) and t.id == zname for t in st.targets):
                zdefs.append(st.lineno)
            if isinstance(st, ast.Call) and any(k.arg == 'out' and isinstance(k.value, ast.Name) and k.value.id == zname for k in st.keywords):
                zdefs.append(st.lineno)
        okz = bool(zdefs) and max(zdefs) < rho_st[0].lineno
        res.inst({'function': f.fq, 'clause': 'rho formed after the preconditioned residual of this iteration', 'rho': src(rho_st[0])[:50], 'ok': okz}, 'rho-order')
        if zdefs and not okz:
            res.add(Finding('C10.CGREC', f, '`%s` is evaluated before `%s` is updated for this iteration: with a preconditioner rho is formed from the previous iteration\'s z '
                            '(from an uninitialised buffer on the first one)' % (src(rho_st[0])[:50], zname), node=rho_st[0], construct='rho before z'))
    # the threshold is the CONFIGURED tolerance times |b|: no floor / cap / constant between self.tol and the comparison
    thr = [n for n in f.node.body if isinstance(n, ast.Assign) and any(dotted(x) == 'self.tol' for x in ast.walk(n.value))]
    for n in thr:
        wrapped = [c for c in ast.walk(n.value) if isinstance(c, ast.Call) and (dotted(c.func) or '').split('.')[-1] in ('max', 'min', 'clamp', 'clip', 'maximum', 'minimum')
                   and any(dotted(x) == 'self.tol' for x in ast.walk(c))]
        res.inst({'function': f.fq, 'clause': 'threshold = self.tol * |b| without a hard-coded floor', 'statement': src(n)[:50], 'ok': not wrapped}, ('thr', src(n)[:50]))
        if wrapped:
            res.add(Finding('C10.CGREC', f, '`%s`: the configured tolerance passes through `%s` before it reaches the stopping rule: a tolerance beyond the hard-coded bound '
                            'is silently replaced, and |b - A x| <= tol |b| no longer holds for it' % (src(n)[:60], src(wrapped[0])[:40]), node=n,
                            construct='tolerance floored'))
    for t in tests:
        cmp_ = [c for c in ast.walk(t.test) if isinstance(c, ast.Compare)]
        ok = False
        what = src(t.test)[:60]
        for c in cmp_:
          for lhs in [c.left] + list(c.comparators):                       # `norm(r) < atol` and `atol > norm(r)` are the same test
            # norm(r) / r.norm() / (r * r).sum().sqrt() / r.square().sum().sqrt()
            names = {y.id for y in ast.walk(lhs) if isinstance(y, ast.Name)} - {'torch'}
            is_norm = any(isinstance(y, ast.Call) and ((dotted(y.func) or '').split('.')[-1] in ('norm', 'vector_norm') or
                                                        (isinstance(y.func, ast.Attribute) and y.func.attr in ('norm', 'sqrt'))) for y in ast.walk(lhs))
            if is_norm and names == {rname}:
                ok = True
        res.inst({'function': f.fq, 'clause': 'convergence test on the residual itself', 'test': what, 'ok': ok}, ('conv', what))
        if not ok:
            res.add(Finding('C10.CGREC', f, 'the convergence exit `%s` does not compare the norm of the residual `%s` itself with the threshold: a preconditioner-weighted '
                            'quantity (sqrt(r^T M r), |M r|) can be far below |b - A x|, and CG returns before |b - A x| <= tol |b|' % (what, rname), node=t,
                            construct='convergence test'))
    return res


def rule_conf(repo, tier):
    """history independence of the solver modules: an attribute configured by the constructor is never rebound in forward() from data of the
    current call (sizes, tensors) - the next call, on another system, would inherit it (e.g. an iteration budget frozen at the first system's 10n)"""
    res = RuleResult('C10.CONF', 'no solver forward() rebinds a constructor-configured attribute to a value computed from the current call\'s arguments: '
                     'every call sees the configuration the user gave, whatever was solved before', floor=4)
    mod = repo.module(SOLVER)
    for ci in mod.classes.values():
        init = repo.find_method(ci, '__init__')
        fwd = repo.find_method(ci, 'forward')
        if init is None or fwd is None or fwd.module.name != SOLVER:
            continue
        conf = set()
        if init.module.name == SOLVER:
            for n in ast.walk(init.node):
                if isinstance(n, (ast.Assign, ast.AnnAssign)):
                    tg = n.targets if isinstance(n, ast.Assign) else [n.target]
                    for t in tg:
                        for x in ([t] if not isinstance(t, ast.Tuple) else t.elts):
                            d = dotted(x)
                            if d and d.startswith('self.') and d.count('.') == 1:
                                conf.add(d[5:])
        # taint: names computed from forward's (non-self) parameters
        tainted = set(fwd.params[1:])
        changed = True
        assigns = [n for n in ast.walk(fwd.node) if isinstance(n, (ast.Assign, ast.AugAssign, ast.AnnAssign)) and getattr(n, 'value', None) is not None]
        while changed:
            changed = False
            for n in assigns:
                if _names_load(n.value) & tainted:
                    tg = n.targets if isinstance(n, ast.Assign) else [n.target]
                    for t in tg:
                        for x in ([t] if not isinstance(t, ast.Tuple) else t.elts):
                            if isinstance(x, ast.Name) and x.id not in tainted:
                                tainted.add(x.id)
                                changed = True
        writes = []
        for n in assigns:
            tg = n.targets if isinstance(n, ast.Assign) else [n.target]
            for t in tg:
                for x in ([t] if not isinstance(t, ast.Tuple) else t.elts):
                    d = dotted(x)
                    if d and d.startswith('self.') and d[5:] in conf:
                        dep = sorted(_names_load(n.value) & tainted)
                        writes.append((n, d, dep))
        res.inst({'class': ci.fq, 'configured': sorted(conf), 'rebound in forward': [(d, dep) for _, d, dep in writes]}, ci.fq)
        for n, d, dep in writes:
            if dep or isinstance(n, ast.AugAssign):
                res.add(Finding('C10.CONF', fwd, '`%s` rebinds the configured attribute `%s` from data of this call (%s): the next call on another system '
                                'inherits it instead of the user\'s configuration' % (src(n)[:70], d, ', '.join(dep) or 'accumulated'), node=n,
                                construct='conf|' + d))
    return res


@guarded
def rule_normax(repo, tier):
    """CG documents three layouts of one system: b of shape (n), (n, 1) and - "non-batched or batch size 1" - (1, n, 1) with A (1, n, n).  The vector axis is
    the same one in all of them only when it is counted from the back (-2 after the column normalisation).  A reduction along `dim=0` is the vector axis
    for the 2-D layout and the BATCH axis for the 3-D one: the norms become element-wise, the stopping test |r| < tol |b| can never pass when b has a zero
    entry and the iteration ends in 0/0."""
    res = RuleResult('C10.NORMAX', 'CG.forward: every reduction of b / the residual (norm, vecdot, sum) runs along an axis counted from the back (the vector axis -2), '
                     'never along a non-negative literal axis', floor=2)
    f = repo.func(SOLVER, 'CG.forward')
    n = 0
    for c in paths.calls_in(f.node):
        nm = (dotted(c.func) or (c.func.attr if isinstance(c.func, ast.Attribute) else '')).split('.')[-1]
        if nm not in ('norm', 'vector_norm', 'vecdot', 'sum', 'amax', 'max', 'mean', 'dot'):
            continue
        kw = {k.arg: k.value for k in c.keywords}
        ax = kw.get('dim', kw.get('axis'))
        if ax is None:
            continue
        n += 1
        val = ax.value if isinstance(ax, ast.Constant) else (-ax.operand.value if isinstance(ax, ast.UnaryOp) and isinstance(ax.op, ast.USub) and isinstance(ax.operand, ast.Constant) else None)
        ok = isinstance(val, int) and val < 0
        res.inst({'function': f.fq, 'reduction': src(c)[:60], 'axis': src(ax), 'counted from the back': ok}, (f.fq, src(c)[:60]))
        if isinstance(val, int) and val >= 0:
            res.add(Finding('C10.NORMAX', f, '`%s` reduces along axis %d counted from the FRONT: for the documented batch-size-1 layout (A (1, n, n), b (1, n, 1)) that is the '
                            'batch axis, the norm is taken element by element, `|r| < tol |b|` cannot hold where b is zero and the solver returns NaN (0/0 in alpha); the '
                            'vector axis is -2 in every layout' % (src(c)[:60], val), node=c, construct='front axis in a CG reduction|' + nm))
    if n < 2:
        raise AnalysisError('C10.NORMAX: the norms of CG.forward were not found')
    return res


def _rules_core(repo, tier):
    from ..stale import rule_stale
    from .sparse_c10 import rule_idx, rule_dispatch
    from ..effects import rule_pure
    from ..outalias import rule_outalias
    return [rule_status(repo, tier), rule_lstsq(repo, tier), rule_zero(repo, tier), rule_stale(repo, 'C10.STALE', [(SOLVER, 'CG.forward')]),
            rule_idx(repo, tier), rule_dispatch(repo, tier), rule_tri(repo, tier), rule_normax(repo, tier), rule_conf(repo, tier), guarded(rule_guess)(repo, tier), guarded(rule_budget)(repo, tier), rule_cgrec(repo, tier),
            rule_outalias(repo, 'C10.OUT', [(SOLVER, 'CG.forward')]),
            rule_pure(repo, 'C10.PURE', 'no solver writes into the matrix, right-hand side, initial guess or preconditioner it is given: a caller that '
                      'solves again with the same tensors (damping retries, warm starts) solves the same system',
                      [(SOLVER, q) for q in ('PINV.forward', 'LSTSQ.forward', 'Cholesky.forward', 'CG.forward')] +
                      [('pypose.sparse.ops', 'bsr_bsc_matmul'), ('pypose.sparse.ops', '_sparse_csr_mm')])]


def rules(repo, tier):
    from ..memo import rule_memo
    from ..optional import rule_optional
    from ..mode import mode_rules
    from ..callsig import rule_callsig
    from ..docsig import rule_docsig
    from ..axisdefault import rule_axisdefault
    return list(_rules_core(repo, tier)) + [rule_memo(repo, 'C10.MEMO', 'history independence: nothing computed from the contents of a tensor argument is kept '
                                                      'under the identity, address or version of that tensor, in module-level storage, or published from a generator '
                                                      'before it is complete - a later call with the same object and other contents must not be answered from it',
                                                      ['pypose.optim.solver', 'pypose.sparse.ops'], floor=3),
            rule_optional(repo, 'C10.OPT', ['pypose.optim.solver', 'pypose.sparse.ops'])] + mode_rules(repo, 'C10', ['pypose.optim.solver', 'pypose.sparse.ops']) + [rule_callsig(repo, 'C10.SIG', ['pypose.optim.solver', 'pypose.sparse.ops']), rule_docsig(repo, 'C10.DOC', ['pypose.optim.solver', 'pypose.sparse.ops'])] + [
            rule_axisdefault(repo, 'C10.AXDEF', ['pypose.optim.solver', 'pypose.sparse.ops'])]
