"""Configuration rule: what the constructor configured (attributes / buffers set in __init__, also through a setter it calls) is not
rebound by forward() from the ARGUMENTS OF ONE CALL, neither directly nor through a setter method.

Necessary condition of "each call is decided by its own arguments and the constructor's configuration": a per-call override that is stored
replaces the configuration for every later call that does not pass it (documented: "ignored if provided during each iteration" - for that
iteration).  Values that do not depend on the call's arguments (normalisation of the configuration itself) are not reported.
"""
import ast
from .core import RuleResult, Finding, AnalysisError, dotted, src, norm_construct, guarded


def _own_nodes(fnode):
    stack = list(fnode.body)
    while stack:
        n = stack.pop()
        if isinstance(n, (ast.FunctionDef, ast.AsyncFunctionDef, ast.ClassDef)):
            continue
        yield n
        stack.extend(ast.iter_child_nodes(n))


def attr_writes(f):
    """[(node, attribute name, value expression)] for self.X = v / self.register_buffer('X', v) / setattr(self, 'X', v) in f"""
    out = []
    me = f.pos_params[0] if f.pos_params else 'self'
    for n in _own_nodes(f.node):
        if isinstance(n, (ast.Assign, ast.AugAssign, ast.AnnAssign)) and getattr(n, 'value', None) is not None:
            tg = n.targets if isinstance(n, ast.Assign) else [n.target]
            for t in tg:
                elts = t.elts if isinstance(t, ast.Tuple) else [t]
                vals = n.value.elts if isinstance(t, ast.Tuple) and isinstance(n.value, ast.Tuple) and len(n.value.elts) == len(elts) else [n.value] * len(elts)
                for x, v in zip(elts, vals):
                    d = dotted(x)
                    if d and d.startswith(me + '.') and d.count('.') == 1:
                        out.append((n, d.split('.')[1], v))
        elif isinstance(n, ast.Call):
            d = dotted(n.func) or ''
            if d == me + '.register_buffer' and len(n.args) >= 2 and isinstance(n.args[0], ast.Constant):
                out.append((n, n.args[0].value, n.args[1]))
            elif d == 'setattr' and len(n.args) == 3 and dotted(n.args[0]) == me and isinstance(n.args[1], ast.Constant):
                out.append((n, n.args[1].value, n.args[2]))
    return out


def _self_calls(f):
    me = f.pos_params[0] if f.pos_params else 'self'
    for n in _own_nodes(f.node):
        if isinstance(n, ast.Call) and isinstance(n.func, ast.Attribute) and dotted(n.func.value) == me:
            yield n


def _names(e):
    return {n.id for n in ast.walk(e) if isinstance(n, ast.Name)}


def _tainted_locals(f, seeds):
    tainted = set(seeds)
    assigns = [n for n in _own_nodes(f.node) if isinstance(n, (ast.Assign, ast.AugAssign, ast.AnnAssign)) and getattr(n, 'value', None) is not None]
    changed = True
    while changed:
        changed = False
        for n in assigns:
            if _names(n.value) & tainted:
                tg = n.targets if isinstance(n, ast.Assign) else [n.target]
                for t in tg:
                    for x in (t.elts if isinstance(t, ast.Tuple) else [t]):
                        if isinstance(x, ast.Name) and x.id not in tainted:
                            tainted.add(x.id)
                            changed = True
    return tainted


@guarded
def rule_conf(repo, rid, classes, entry='forward', floor=None):
    """classes: [(module, class name)]"""
    res = RuleResult(rid, 'no %s() stores an argument of the call (or a value computed from one) in an attribute / buffer the constructor configured, '
                     'directly or through a setter: a per-call override must not become the configuration of later calls' % entry,
                     floor=floor if floor is not None else len(classes))
    for mod, cname in classes:
        ci = repo.cls(mod, cname)
        init = repo.find_method(ci, '__init__')
        fwd = repo.find_method(ci, entry)
        if init is None or fwd is None:
            raise AnalysisError('%s: %s has no __init__ / %s' % (rid, cname, entry))
        conf = {a for _, a, _ in attr_writes(init)}
        for c in _self_calls(init):
            m = repo.find_method(ci, c.func.attr)
            if m is not None:
                conf |= {a for _, a, _ in attr_writes(m)}
        tainted = _tainted_locals(fwd, set(fwd.params[1:]))
        hits = []
        for node, a, v in attr_writes(fwd):
            if a in conf and (_names(v) & tainted):
                hits.append((node, a, 'directly'))
        for c in _self_calls(fwd):
            m = repo.find_method(ci, c.func.attr)
            if m is None or m is fwd:
                continue
            mp = m.pos_params[1:]
            bound = {}
            for i, arg in enumerate(c.args):
                if i < len(mp):
                    bound[mp[i]] = arg
            for kw in c.keywords:
                if kw.arg:
                    bound[kw.arg] = kw.value
            t_params = {p for p, arg in bound.items() if _names(arg) & tainted}
            if not t_params:
                continue
            mt = _tainted_locals(m, t_params)
            for node, a, v in attr_writes(m):
                if a in conf and (_names(v) & mt):
                    hits.append((c, a, 'through %s()' % m.name))
        res.inst({'class': ci.fq, 'configured by the constructor': sorted(conf), 'rebound from call arguments': [(a, how) for _, a, how in hits]}, ci.fq)
        for node, a, how in hits:
            res.add(Finding(rid, fwd, '`%s` stores a per-call argument in `self.%s` (%s), which the constructor configured: every later call that does not '
                            'pass it again runs with this call\'s value instead of the configuration' % (src(node)[:60], a, how), node=node,
                            construct='conf|%s|%s' % (a, how)))
    return res
