"""Axis-default rule: no call relies on a default axis that depends on the extents of the data.

  torch.cross(a, b) / a.cross(b) without `dim`   -> torch picks the FIRST axis of size 3: for a batch of exactly three items (or any batch
                                                     shape with a 3 in it) that is a batch axis, not the vector axis
  x.squeeze() / torch.squeeze(x) without `dim`    -> removes EVERY axis of size 1, i.e. also a batch / point / state axis that happens to be 1

Both are necessary conditions of "for every batch shape": the result for a batch whose extents hit the magic number differs from the item-by-item
result.  Operands that are provably structural (a (1, 1) matrix product collapsed to a scalar) are exempted by an explicit table.
Expected count on the tree is zero for the modules it is armed on; fixtures run on every invocation.
"""
import ast
from .core import RuleResult, Finding, AnalysisError, dotted, src, norm_construct, guarded


def hazards(fnode):
    out = []
    for n in ast.walk(fnode):
        if not isinstance(n, ast.Call):
            continue
        d = dotted(n.func) or ''
        name = d.split('.')[-1] if d else (n.func.attr if isinstance(n.func, ast.Attribute) else '')
        kws = {k.arg for k in n.keywords}
        if name == 'cross' and 'linalg' not in d:
            nargs = len(n.args) + (0 if d.startswith('torch.') else 1)
            if 'dim' not in kws and nargs < 3:
                out.append((n, 'cross product without `dim`: torch takes the first axis of size 3, which is a batch axis whenever a batch extent is 3'))
        elif name in ('masked_scatter_', 'masked_scatter'):
            args = list(n.args)
            if d.startswith('torch.'):
                args = args[1:]
            if len(args) >= 2:
                mask, source = args[0], args[1]
                # the source is consumed IN ORDER, one element per True position: it must already be the values for the selected positions,
                # i.e. something gathered by the same mask; a full-size tensor hands position k the value of the k-th item, not its own
                gathered = any(isinstance(x, ast.Subscript) and ast.dump(x.slice) == ast.dump(mask) for x in ast.walk(source))
                if not gathered:
                    out.append((n, 'masked_scatter consumes its source in order, one element per selected position; the source `%s` is not gathered by '
                                   'the same mask, so a selected item receives the value computed for an EARLIER item of the batch' % src(source)[:40]))
        elif name in ('transpose', 'swapaxes', 'swapdims'):
            args = list(n.args)
            if d.startswith('torch.'):
                args = args[1:]
            lits = []
            for a in args[:2]:
                try:
                    lits.append(ast.literal_eval(a))
                except (ValueError, SyntaxError):
                    lits.append(None)
            if len(lits) == 2 and all(isinstance(x, int) for x in lits) and (lits[0] >= 0) != (lits[1] >= 0):
                out.append((n, 'swaps an axis counted from the front (%d) with one counted from the back (%d): for inputs with more batch dimensions '
                               'than the author had in mind the batch axes in between change places' % (max(lits), min(lits))))
        elif name == 'squeeze':
            nargs = len(n.args) - (1 if d.startswith('torch.') else 0)
            if 'dim' not in kws and nargs <= 0:
                out.append((n, 'squeeze() without `dim`: every axis of size 1 is removed, also a batch / data axis that happens to have one element'))
    return out


@guarded
def rule_axisdefault(repo, rid, modules, exempt=()):
    res = RuleResult(rid, 'no cross() / squeeze() call relies on the data-dependent default axis (first axis of size 3 / every axis of size 1): the '
                     'result for batch extents 3 or 1 must equal the item-by-item result', floor=1)
    n = 0
    for m in modules:
        for f in repo.functions_view(m):
            n += 1
            hz = [(node, why) for node, why in hazards(f.node) if (f.fq, src(node)) not in exempt and f.fq not in exempt]
            res.inst({'function': f.fq, 'data-dependent default axes': [src(x)[:50] for x, _ in hz]}, f.fq if hz else None)
            for node, why in hz:
                res.add(Finding(rid, f, '`%s`: %s' % (src(node)[:60], why), node=node, construct='axis-default|' + norm_construct(node, f.node)))
    if n == 0:
        raise AnalysisError('%s: no function analysed' % rid)
    fx = ast.parse('def f(a, b, c):\n    x = torch.cross(a, b)\n    y = torch.cross(a, b, dim=-1)\n    z = c.squeeze()\n    w = c.squeeze(-1)\n    return x, y, z, w\n').body[0]
    if len(hazards(fx)) != 2 or len(hazards(ast.parse('def g(f, m, v):\n    f.masked_scatter_(m, v)\n    f.masked_scatter_(m, v[m])\n').body[0])) != 1:
        raise AnalysisError('%s: fixtures no longer classified' % rid)
    return res


# ------------------------------------------------------------------------------------------------ front-counted axes in batch-polymorphic code

_FIRST = {'sum', 'mean', 'cumsum', 'cumprod', 'cummul', 'squeeze', 'unsqueeze', 'flip', 'softmax', 'log_softmax', 'prod', 'amax', 'amin', 'max', 'min',
          'argmax', 'argmin', 'all', 'any', 'std', 'var', 'unbind', 'select', 'narrow', 'index_select', 'gather', 'logsumexp', 'nansum', 'median',
          'sort', 'argsort', 'count_nonzero', 'vector_norm', 'roll', 'diff', 'movedim', 'flatten', 'unflatten', 'split', 'chunk', 'index_copy',
          'index_copy_', 'index_add', 'index_add_', 'index_fill', 'index_fill_', 'scatter', 'scatter_', 'scatter_add', 'take_along_dim', 'cat', 'concat',
          'concatenate', 'stack', 'cross'}
_FULL_REDUCERS = {'norm', 'vector_norm', 'sum', 'mean', 'prod', 'amax', 'amin', 'std', 'var', 'logsumexp', 'nansum', 'median'}
_AXIS_POS = {'norm': 2, 'cross': 2, 'roll': 2, 'split': 2, 'chunk': 2, 'cumops': 1, 'topk': 2, 'unflatten': 1, 'diff': 2, 'take_along_dim': 2}


def front_axes(fnode):
    """[(node, description)]: axis arguments that are non-negative integer literals >= 1 (counted from the front), `.T` / `.t()` full reversals"""
    out = []
    in_test = set()
    for n in ast.walk(fnode):
        if isinstance(n, (ast.If, ast.While, ast.IfExp, ast.Assert)):
            for x in ast.walk(n.test):
                in_test.add(id(x))
    for n in ast.walk(fnode):
        if isinstance(n, ast.Attribute) and n.attr == 'T' and isinstance(n.ctx, ast.Load):
            out.append((n, '`.T` reverses EVERY axis: on a batch of more than one dimension the batch axes are reversed too (`.mT` / transpose(-1, -2) '
                           'swaps the last two only)'))
            continue
        if not isinstance(n, ast.Call):
            continue
        d = dotted(n.func) or ''
        name = d.split('.')[-1] if d else (n.func.attr if isinstance(n.func, ast.Attribute) else '')
        func_form = d.startswith(('torch.', 'pp.')) or isinstance(n.func, ast.Name)
        if name in ('column_stack', 'hstack', 'vstack', 'dstack', 'row_stack') and func_form:
            out.append((n, '`%s` picks its axis by the RANK of the operands (1-D: stacks as columns / rows; n-D: concatenates along axis 1 / 0 / 2 counted from the '
                           'front): it equals stack / cat along the last axis for one batch rank only' % name))
            continue
        if name == 't' and not n.args and not func_form:
            out.append((n, '`.t()` is defined for matrices only: any batch dimension makes it raise'))
            continue
        # a reduction with NO axis collapses the batch axes as well
        if name in _FULL_REDUCERS and id(n) not in in_test:
            kw0 = {k.arg for k in n.keywords}
            nargs = len(n.args) - (1 if func_form else 0)
            has_axis = bool(kw0 & {'dim', 'axis'}) or nargs >= (2 if name in ('norm', 'vector_norm', 'matrix_norm') else 1)
            if not has_axis:
                out.append((n, 'reduction without an axis: the whole tensor, batch dimensions included, is collapsed into one number - every item of a batch is then '
                               'treated with a quantity computed from all of them'))
                continue
        cands = []
        kw = {k.arg: k.value for k in n.keywords}
        for k in ('dim', 'axis', 'dims', 'start_dim', 'end_dim', 'dim0', 'dim1'):
            if k in kw:
                cands.append(kw[k])
        args = list(n.args[1:]) if func_form else list(n.args)
        if name in ('transpose', 'swapaxes', 'swapdims', 'movedim'):
            cands += args[:2]
        elif name in _AXIS_POS and not any(k in kw for k in ('dim', 'axis')):
            i = _AXIS_POS[name] - 1
            if i < len(args):
                cands.append(args[i])
        elif name in _FIRST and not any(k in kw for k in ('dim', 'axis')) and args:
            cands.append(args[0])
        elif name not in _FIRST and name not in _AXIS_POS and name not in ('transpose', 'swapaxes', 'swapdims', 'movedim'):
            continue
        for c in cands:
            try:
                v = ast.literal_eval(c)
            except (ValueError, SyntaxError):
                continue
            vs = v if isinstance(v, (tuple, list)) else [v]
            bad = [x for x in vs if isinstance(x, int) and not isinstance(x, bool) and x >= 1]
            if bad:
                out.append((n, 'axis %s is counted from the FRONT: with one more (or one fewer) batch dimension than the author had in mind it addresses '
                               'a different axis - the component / matrix axes of a batch-polymorphic tensor are only reachable counted from the back' % bad[0]))
                break
    return out


@guarded
def rule_frontaxis(repo, rid, modules):
    res = RuleResult(rid, 'batch transparency of the Lie-tensor kernels: no reduction, concatenation, scan, cross product or transposition in these '
                     'modules addresses an axis by a positive literal counted from the front, and none uses the full reversal `.T` / `.t()` - the inputs '
                     'carry any number of leading batch dimensions, so only axes counted from the back are the same axis for every batch shape', floor=20)
    for m in modules:
        for f in repo.functions_view(m):
            hz = front_axes(f.node)
            res.inst({'function': f.fq, 'front-counted axes': [src(x)[:50] for x, _ in hz]}, f.fq)
            for node, why in hz:
                res.add(Finding(rid, f, '`%s`: %s' % (src(node)[:60], why), node=node, construct='front-axis|' + norm_construct(node, f.node)))
    fx = ast.parse('def f(a, b):\n    x = torch.norm(a, 2, -1) + torch.norm(a, 2, 1)\n    y = torch.cat([a, b], dim=-1).sum(1)\n    z = a.T @ b.mT\n'
                   '    w = a.transpose(-1, -2).transpose(1, 2)\n    return torch.linalg.norm(a, dim=1), a.unsqueeze(0), a.view(-1, 3)\n').body[0]
    fx2 = ast.parse('def g(q, eps):\n    n = torch.linalg.vector_norm(q, ord=2, keepdim=True)\n    m = q.norm(p=2, dim=-1)\n    if q.abs().sum() > 0:\n        pass\n    return q / n, m, q.sum(-1)\n').body[0]
    if len(front_axes(fx)) != 5 or len(front_axes(fx2)) != 1:
        raise AnalysisError('%s: fixture no longer classified (%d, %d)' % (rid, len(front_axes(fx)), len(front_axes(fx2))))
    return res


# ------------------------------------------------------------------------------------------------ whole-batch data-dependent branches

_REDUCERS = {'all', 'any', 'item', 'max', 'min', 'sum', 'mean', 'prod', 'count_nonzero', 'norm', 'allclose', 'equal', 'isclose', 'amax', 'amin', 'nonzero', 'tolist'}


def batch_branches(fnode):
    """[(node, reduction source)]: `if` / ternary / `while` tests that collapse the VALUES of a tensor over the whole batch and select a computation (the
    branch does not raise)"""
    out = []
    for n in ast.walk(fnode):
        if isinstance(n, (ast.If, ast.While)):
            test, body = n.test, n.body
            if body and all(isinstance(st, (ast.Raise, ast.Assert)) or (isinstance(st, ast.Expr) and isinstance(st.value, ast.Call) and 'warn' in (dotted(st.value.func) or ''))
                            for st in body) and not n.orelse:
                continue                                   # validation: rejects the input, does not choose a formula
        elif isinstance(n, ast.IfExp):
            test = n.test
        else:
            continue
        # the SIZE of the batch decides: `p.shape[0] <= 65536`, `x.numel() > N` - a chunked / blocked path for large batches is another code path than the one
        # every test exercises (extent 0 / 1 / rank tests are shape normalisation, not a size threshold)
        sized = False
        for c in ast.walk(test):
            if isinstance(c, ast.Compare) and len(c.ops) == 1 and isinstance(c.ops[0], (ast.Lt, ast.LtE, ast.Gt, ast.GtE)):
                for a_, b_ in ((c.left, c.comparators[0]), (c.comparators[0], c.left)):
                    ext = (isinstance(a_, ast.Subscript) and isinstance(a_.value, ast.Attribute) and a_.value.attr in ('shape', 'lshape') and isinstance(a_.slice, ast.Constant) and
                           isinstance(a_.slice.value, int) and a_.slice.value >= 0) or \
                        (isinstance(a_, ast.Call) and isinstance(a_.func, ast.Attribute) and a_.func.attr in ('numel', 'nelement')) or \
                        (isinstance(a_, ast.Call) and isinstance(a_.func, ast.Attribute) and a_.func.attr == 'size' and len(a_.args) == 1 and isinstance(a_.args[0], ast.Constant) and
                         isinstance(a_.args[0].value, int) and a_.args[0].value >= 0)
                    big = (isinstance(b_, ast.Constant) and isinstance(b_.value, (int, float)) and b_.value > 4) or isinstance(b_, (ast.Attribute, ast.BinOp)) or \
                        (isinstance(b_, ast.Name) and b_.id.isupper())
                    if ext and big:
                        out.append((n, 'batch size ' + src(c)[:40]))
                        sized = True
        if sized:
            continue
        for c in ast.walk(test):
            if not isinstance(c, ast.Call):
                continue
            d = dotted(c.func) or ''
            name = d.split('.')[-1] if d else (c.func.attr if isinstance(c.func, ast.Attribute) else '')
            if name not in _REDUCERS:
                continue
            recv = c.func.value if isinstance(c.func, ast.Attribute) and not d.startswith(('torch.', 'math.')) else (c.args[0] if c.args else None)
            if recv is None:
                continue
            # shape / rank / type quantities are not data
            meta = any(isinstance(x, ast.Attribute) and x.attr in ('shape', 'ndim', 'dtype', 'device', 'requires_grad', 'ltype') for x in ast.walk(recv)) or \
                any(isinstance(x, ast.Call) and isinstance(x.func, ast.Attribute) and x.func.attr in ('size', 'dim', 'numel') for x in ast.walk(recv))
            if meta:
                continue
            out.append((n, src(c)[:50]))
            break
    return out


@guarded
def rule_batchbranch(repo, rid, modules):
    res = RuleResult(rid, 'batch transparency of the Lie-tensor kernels: no branch that chooses a formula (if / ternary / while whose body does not raise) tests a '
                     'reduction of tensor VALUES over the whole batch (.all() / .any() / allclose / .item() / .sum() ...): the result for one item would depend on '
                     'the other items it is batched with', floor=20)
    for m in modules:
        for f in repo.functions_view(m):
            hz = batch_branches(f.node)
            res.inst({'function': f.fq, 'whole-batch data-dependent branches': [s_ for _, s_ in hz]}, f.fq)
            for node, s_ in hz:
                if s_.startswith('batch size '):
                    res.add(Finding(rid, f, 'the branch on `%s` makes the SIZE of the batch choose the code path: batches beyond the threshold run a blocked / chunked variant '
                                    'that no small example exercises (a remainder block, a per-block restart), so large batches are not the item-by-item result' % s_[11:],
                                    node=node, construct='batch size branch|' + norm_construct(node.test, f.node)))
                    continue
                res.add(Finding(rid, f, 'the branch on `%s` collapses the values of the whole batch into one decision and selects a formula for EVERY item: an item '
                                'that does not satisfy the condition is computed by the shortcut whenever its batch-mates do (or all items lose the shortcut\'s '
                                'exactness) - batched and item-by-item results differ' % s_, node=node, construct='batch branch|' + norm_construct(node.test, f.node)))
    fx = ast.parse('def f(X, a):\n    if not torch.any(a):\n        return X\n    if (a.abs() > 9).any():\n        raise ValueError\n    if a.shape[-1] == 3 and a.dim() > 1:\n        a = a[..., :3]\n'
                   '    s = X if torch.all(X[..., 6] == 1) else X * 2\n    return s\n').body[0]
    if len(batch_branches(fx)) != 2:
        raise AnalysisError('%s: fixtures no longer classified (%d)' % (rid, len(batch_branches(fx))))
    return res


# ------------------------------------------------------------------------------------------------ .view() of a caller-supplied tensor

def view_of_param(fnode):
    """[(node, param)]: `p.view(...)` where p is a parameter of the function that has not been re-bound before (so its memory layout is the caller's)"""
    a = fnode.args
    params = {x.arg for x in a.posonlyargs + a.args + a.kwonlyargs} - {'self', 'cls'}
    out = []
    rebound = {}
    for n in fnode.body:                                     # unconditional statements only: a re-binding under an `if` leaves the other path with the caller's layout
        if isinstance(n, ast.Assign) and isinstance(n.value, ast.Call):
            nm = (dotted(n.value.func) or (n.value.func.attr if isinstance(n.value.func, ast.Attribute) else '')).split('.')[-1]
            if nm not in ('contiguous', 'clone', 'reshape', 'flatten', 'tensor', 'stack', 'cat', 'zeros', 'empty', 'zeros_like', 'empty_like'):
                continue
            for t in n.targets:
                for el in (t.elts if isinstance(t, ast.Tuple) else [t]):
                    if isinstance(el, ast.Name) and el.id in params:
                        rebound.setdefault(el.id, []).append(n.lineno)
    # elements of a parameter: the loop / comprehension variable over a parameter (or over zip / enumerate of parameters) has the caller's layout too
    elem = {}
    for n in ast.walk(fnode):
        its = []
        if isinstance(n, ast.comprehension):
            its.append((n.target, n.iter, getattr(n.iter, 'lineno', 0)))
        elif isinstance(n, ast.For):
            its.append((n.target, n.iter, n.lineno))
        for tgt, it, ln in its:
            pairs = []
            if isinstance(it, ast.Name) and isinstance(tgt, ast.Name):
                pairs.append((tgt, it))
            elif isinstance(it, ast.Call) and dotted(it.func) == 'zip' and isinstance(tgt, ast.Tuple) and len(tgt.elts) == len(it.args):
                pairs += [(t, a_) for t, a_ in zip(tgt.elts, it.args) if isinstance(t, ast.Name)]
            elif isinstance(it, ast.Call) and dotted(it.func) == 'enumerate' and isinstance(tgt, ast.Tuple) and len(tgt.elts) == 2 and it.args and isinstance(tgt.elts[1], ast.Name):
                pairs.append((tgt.elts[1], it.args[0]))
            for t, sname in pairs:
                if isinstance(sname, ast.Name) and sname.id in params and not any(l < ln for l in rebound.get(sname.id, [])) and t.id not in params:
                    elem[t.id] = sname.id
    for n in ast.walk(fnode):
        if isinstance(n, ast.Call) and isinstance(n.func, ast.Attribute) and n.func.attr == 'view' and isinstance(n.func.value, ast.Name) and n.func.value.id in elem:
            own = n.func.value.id
            # view(*x.shape, 1, 1): appending singleton axes to the tensor's own shape is valid for every layout
            if n.args and isinstance(n.args[0], ast.Starred) and dotted(n.args[0].value) == own + '.shape' and all(isinstance(x, ast.Constant) and x.value == 1 for x in n.args[1:]):
                continue
            if not (n.args and all(isinstance(x, ast.Attribute) and x.attr == 'dtype' for x in n.args)):
                out.append((n, 'an element of ' + elem[n.func.value.id]))
            continue
        if isinstance(n, ast.Call) and isinstance(n.func, ast.Attribute) and n.func.attr == 'view' and isinstance(n.func.value, ast.Name) and n.func.value.id in params:
            p = n.func.value.id
            # a rebinding on an EARLIER line (p = p.contiguous() / torch.as_tensor(p) ...) makes the layout the function's own; the statement
            # `shape, p = p.shape, p.view(...)` itself does not
            if any(l < n.lineno for l in rebound.get(p, [])):
                continue
            if n.args and all(isinstance(x, ast.Attribute) and x.attr == 'dtype' for x in n.args):
                continue                                     # view(dtype): a reinterpretation, not a reshape
            out.append((n, p))
    return out


@guarded
def rule_viewarg(repo, rid, modules, exempt=('lview', 'view', 'view_as'), floor=20, exempt_sites=None):
    res = RuleResult(rid, 'batch transparency over memory layouts: no converter / kernel of these modules applies `.view(shape)` to a tensor it was handed by the caller '
                     '(use reshape): a transposed / permuted / expanded batch is as valid an input as a contiguous one, and view() raises on it', floor=floor)
    for m in modules:
        for f in repo.functions_view(m):
            if f.node.name in exempt:
                continue
            hz = view_of_param(f.node)
            res.inst({'function': f.fq, 'view() of a parameter': [src(x)[:40] for x, _ in hz]}, f.fq)
            for node, p in hz:
                if exempt_sites and (f.fq, norm_construct(node, f.node)) in exempt_sites:
                    res.inst({'function': f.fq, 'view': src(node)[:50], 'tabled': exempt_sites[(f.fq, norm_construct(node, f.node))]}, (f.fq, 'tabled', src(node)[:50]))
                    continue
                res.add(Finding(rid, f, '`%s`: `%s` has the memory layout the caller chose; for a batch whose dimensions cannot be merged without a copy (a transposed or '
                                'permuted batch of rank >= 2) view() raises "view size is not compatible with input tensor\'s size and stride" where a result is promised'
                                % (src(node)[:50], p), node=node, construct='view of parameter|' + norm_construct(node, f.node)))
    fx = ast.parse('def f(e, k):\n    s, e2 = e.shape, e.view(-1, 3)\n    k = k.contiguous()\n    return e2, k.view(-1)\n').body[0]
    if len(view_of_param(fx)) != 1:
        raise AnalysisError('%s: fixture no longer classified' % rid)
    return res


# ------------------------------------------------------------------------------------------------ regime-wise gather must return by scatter
def regrouped_rows(fnode):
    """[(cat call, names)]: a row-wise concatenation (torch.cat / stack along the default or 0 axis) of pieces that were GATHERED with a boolean mask
    (`x[mask]`, `x[~mask]`, also through a helper called on them).  Gathering splits the batch by regime; concatenating the pieces orders the rows by regime,
    not by their position in the batch - only a store under the same mask (`out[mask] = piece`) puts them back."""
    masks = set()
    for n in ast.walk(fnode):
        if isinstance(n, ast.Assign) and len(n.targets) == 1 and isinstance(n.targets[0], ast.Name):
            core = n.value
            while isinstance(core, ast.Call) and isinstance(core.func, ast.Attribute) and core.func.attr in ('squeeze', 'unsqueeze', 'view', 'reshape', 'clone', 'bool', 'flatten'):
                core = core.func.value
            if isinstance(core, ast.Compare) or (isinstance(core, ast.UnaryOp) and isinstance(core.op, ast.Invert)) or \
                    (isinstance(core, ast.BinOp) and isinstance(core.op, (ast.BitAnd, ast.BitOr))):
                masks.add(n.targets[0].id)

    def is_mask(x):
        return (isinstance(x, ast.Name) and x.id in masks) or (isinstance(x, ast.UnaryOp) and isinstance(x.op, ast.Invert) and is_mask(x.operand)) or \
            (isinstance(x, ast.BinOp) and isinstance(x.op, (ast.BitAnd, ast.BitOr)) and is_mask(x.left) and is_mask(x.right)) or isinstance(x, ast.Compare)

    def gathers(e):
        return any(isinstance(x, ast.Subscript) and isinstance(x.ctx, ast.Load) and is_mask(x.slice) for x in ast.walk(e))
    tainted = set()
    changed = True
    while changed:
        changed = False
        for n in ast.walk(fnode):
            pairs = []
            if isinstance(n, ast.Assign):
                for t in n.targets:
                    pairs.append((t, n.value))
            elif isinstance(n, ast.comprehension):
                pairs.append((n.target, n.iter))
            for t, v in pairs:
                if gathers(v) or any(isinstance(x, ast.Name) and x.id in tainted for x in ast.walk(v)):
                    # a store UNDER a mask is the legitimate way back: its target is not tainted
                    for x in ([t] if isinstance(t, ast.Name) else [y for y in ast.walk(t) if isinstance(y, ast.Name) and isinstance(y.ctx, ast.Store)]):
                        if x.id not in tainted:
                            tainted.add(x.id)
                            changed = True
    out = []
    for c in ast.walk(fnode):
        if not (isinstance(c, ast.Call) and (dotted(c.func) or '') in ('torch.cat', 'torch.concat', 'torch.concatenate', 'torch.stack', 'torch.vstack', 'torch.row_stack') and c.args):
            continue
        kw = {k.arg: k.value for k in c.keywords}
        ax = kw.get('dim', c.args[1] if len(c.args) > 1 else None)
        rowwise = ax is None or (isinstance(ax, ast.Constant) and ax.value == 0)
        if not rowwise:
            continue
        names = sorted({x.id for x in ast.walk(c.args[0]) if isinstance(x, ast.Name) and x.id in tainted})
        if names or gathers(c.args[0]):
            out.append((c, names))
    return out


@guarded
def rule_regroup(repo, rid, modules, floor=20):
    res = RuleResult(rid, 'batch transparency across regimes: what was gathered from the batch with a boolean mask (per-regime sub-batches) returns through a store under '
                     'the same mask, never through a row-wise concatenation of the pieces (which orders the rows by regime, not by batch position)', floor=floor)
    for m in modules:
        for f in repo.functions_view(m):
            hz = regrouped_rows(f.node)
            res.inst({'function': f.fq, 'row-wise concatenations of gathered pieces': [src(c)[:50] for c, _ in hz]}, f.fq)
            for c, names in hz:
                res.add(Finding(rid, f, '`%s` concatenates pieces gathered by a mask (%s) along the batch axis: the rows come out grouped by regime; for a batch that '
                                'interleaves the regimes every item gets the coefficients of another item' % (src(c)[:60], ', '.join(names) or 'inline gather'), node=c,
                                construct='row-wise concatenation of gathered pieces'))
    fx = ast.parse('def f(t, s):\n    big = s.abs() > 1\n    a = g(t[~big])\n    b = h(t[big], s[big])\n    A = torch.cat([a, b]).view_as(t)\n'
                   '    C = torch.zeros_like(t)\n    C[big] = b\n    D = torch.cat([t[big], s[big]], -1)\n    return A, C, D\n').body[0]
    if len(regrouped_rows(fx)) != 1:
        raise AnalysisError('%s: fixtures no longer classified (%d)' % (rid, len(regrouped_rows(fx))))
    return res


# ------------------------------------------------------------------------------------------------ exact-zero tests on tensor values
def zero_compares(fnode):
    """comparisons of a tensor VALUE with the literal 0 (not of a shape / length / count)"""
    out = []
    for n in ast.walk(fnode):
        if isinstance(n, ast.Compare) and len(n.ops) == 1 and isinstance(n.ops[0], (ast.Gt, ast.Lt, ast.GtE, ast.LtE, ast.Eq, ast.NotEq)):
            sides = [n.left, n.comparators[0]]
            z = [s_ for s_ in sides if isinstance(s_, ast.Constant) and not isinstance(s_.value, bool) and s_.value in (0, 0.0)]
            o = [s_ for s_ in sides if not isinstance(s_, ast.Constant)]
            if not (z and o):
                continue
            e = o[0]
            shapey = any((isinstance(x, ast.Attribute) and x.attr in ('shape', 'ndim', 'lshape')) or
                         (isinstance(x, ast.Call) and isinstance(x.func, ast.Attribute) and x.func.attr in ('size', 'dim', 'numel', 'nelement', 'ndimension')) or
                         (isinstance(x, ast.Call) and dotted(x.func) == 'len') for x in ast.walk(e))
            plain_int = isinstance(e, ast.Name) and e.id in ('L', 'n', 'N', 'k', 'i', 'j', 'dim', 'iteration', 'level')
            if not shapey and not plain_int:
                out.append(n)
    return out


@guarded
def rule_zerocmp(repo, rid, modules, floor=20):
    res = RuleResult(rid, 'the Lie-tensor kernels decide nothing by comparing a tensor value with exact 0 ("skip the items whose translation is zero"): regimes switch at '
                     'machine epsilon with a limit formula on the other side (Cxx.LIMIT); an exact-zero test also fires for values that UNDERFLOW to zero on the way '
                     '(the 2-norm of a 1e-24 vector in float32) and leaves those items at the skipped value', floor=floor)
    for m in modules:
        for f in repo.functions_view(m):
            hz = zero_compares(f.node)
            res.inst({'function': f.fq, 'exact-zero tests': [src(c)[:40] for c in hz]}, f.fq)
            for c in hz:
                res.add(Finding(rid, f, '`%s` compares a tensor value with exact zero: items for which the tested quantity underflows (or is a legitimate tiny value) take the '
                                '"nothing to do" side and keep a wrong result; the kernels switch regimes at eps against a limit formula, never at 0' % src(c)[:50], node=c,
                                construct='exact-zero test|' + norm_construct(c, f.node)))
    return res


# ---------------------------------------------------------------- FLATCAT: pieces flattened, concatenated, re-viewed as a matrix

def flatcat_views(fnode):
    """[(view call, cat call)]: `torch.cat([.. p.flatten() ..]).view(-1, n)` - several blocks are flattened to one dimension, concatenated, and the result is
    re-viewed as a matrix.  The rows of the matrix are then consecutive runs of n numbers of the concatenation, not the rows of the blocks placed side by side: with two
    or more blocks of more than one row each the rows interleave (the shape is right, nothing raises)."""
    def is_flat(e):
        if isinstance(e, ast.Call) and isinstance(e.func, ast.Attribute):
            if e.func.attr in ('flatten', 'ravel') and not e.args and not e.keywords:
                return True
            if e.func.attr in ('reshape', 'view') and len(e.args) == 1 and isinstance(e.args[0], ast.UnaryOp) and isinstance(e.args[0].operand, ast.Constant) and e.args[0].operand.value == 1:
                return True
        if isinstance(e, ast.Call) and (dotted(e.func) or '') in ('torch.flatten', 'torch.ravel') and len(e.args) == 1:
            return True
        return False
    out = []
    for v in ast.walk(fnode):
        if not (isinstance(v, ast.Call) and isinstance(v.func, ast.Attribute) and v.func.attr in ('view', 'reshape') and len(v.args) >= 2):
            continue
        c = v.func.value
        if not (isinstance(c, ast.Call) and (dotted(c.func) or '') in ('torch.cat', 'torch.concat', 'torch.concatenate', 'torch.hstack') and c.args):
            continue
        a = c.args[0]
        pieces = a.elts if isinstance(a, (ast.List, ast.Tuple)) else [a.elt] if isinstance(a, (ast.ListComp, ast.GeneratorExp)) else []
        many = isinstance(a, (ast.ListComp, ast.GeneratorExp)) or len(pieces) > 1
        if many and pieces and all(is_flat(p) for p in pieces):
            out.append((v, c))
    return out


@guarded
def rule_flatcat(repo, rid, modules):
    from .core import RuleResult, Finding
    res = RuleResult(rid, 'no matrix is obtained by re-viewing a concatenation of FLATTENED blocks (`cat([b.flatten() ..]).view(-1, n)`): blocks placed side by side are '
                     'reshaped to their own (rows, columns) first and concatenated along the column axis', floor=1)
    k = 0
    for m in modules:
        for f in repo.functions_view(m):
            k += 1
            for v, c in flatcat_views(f.node):
                res.inst({'function': f.fq, 'view': src(v)[:70]}, (f.fq, src(v)[:40]))
                res.add(Finding(rid, f, '`%s` re-views a concatenation of flattened blocks as a matrix: with two or more blocks of more than one row the rows of neighbouring '
                                'blocks interleave' % src(v)[:80], node=v, construct='flattened blocks re-viewed'))
    res.inst({'functions scanned': k}, 'scan')
    fx = [ast.parse(t).body[0] for t in (
        "def f(J, ps):\n    n = sum(p.numel() for p in ps)\n    return torch.cat([j.flatten() for j in J]).view(-1, n)\n",
        "def f(J, ps):\n    return torch.cat([j.view(-1, p.numel()) for j, p in zip(J, ps)], dim=1)\n")]
    if [len(flatcat_views(x)) for x in fx] != [1, 0]:
        raise AnalysisError('%s: fixture no longer classified' % rid)
    return res
