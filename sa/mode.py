"""Mode independence: the value a library function returns does not depend on HOW it is executed or on the numeric type it is given.

  DTYPE  every tensor a function constructs takes its dtype (and device) from an argument / from the object's configured dtype: an explicit
         `dtype=`, a `**kwargs`-style mapping, a `*_like` constructor, or an integer dtype for index tensors.  A constructor without dtype yields the
         process-wide default (float32), so a float64 problem silently loses half of its digits or raises a dtype mismatch.
  MODE   no branch tests the autograd mode (torch.is_grad_enabled / is_inference_mode_enabled), the `requires_grad` flag, the floating dtype
         or the default dtype: such a branch makes eager float32 calls - the only ones tests exercise - take another code path than calls under
         no_grad, with leaf tensors, in float64 or inside a functional transform.

Both are armed with an explicit table of the sites that exist today and were read (one line of reason each); anything else is a finding.
"""
import ast
from .core import RuleResult, Finding, AnalysisError, dotted, src, norm_construct, guarded

CREATORS = {'zeros', 'ones', 'empty', 'eye', 'full', 'tensor', 'arange', 'rand', 'randn', 'linspace', 'as_tensor', 'scalar_tensor', 'logspace'}


def _own_nodes(fnode):
    stack = list(fnode.body)
    while stack:
        n = stack.pop()
        if isinstance(n, (ast.FunctionDef, ast.AsyncFunctionDef, ast.ClassDef)):
            continue
        yield n
        stack.extend(ast.iter_child_nodes(n))


def untyped_creators(fnode):
    out = []
    for n in _own_nodes(fnode):
        # torch.finfo() / torch.iinfo() without an argument describe the process-wide DEFAULT dtype, not the dtype of the data at hand
        if isinstance(n, ast.Call) and dotted(n.func) in ('torch.finfo', 'torch.iinfo') and not n.args and not n.keywords:
            out.append(n)
            continue
        if isinstance(n, ast.Call) and (dotted(n.func) or '').startswith('torch.') and (dotted(n.func) or '').split('.')[-1] in CREATORS:
            kws = {k.arg for k in n.keywords}
            if 'dtype' in kws or None in kws:
                continue
            name = (dotted(n.func) or '').split('.')[-1]
            # torch.tensor / as_tensor of an existing tensor keeps its dtype
            if name in ('tensor', 'as_tensor') and n.args and isinstance(n.args[0], (ast.Name, ast.Attribute, ast.Subscript)) and False:
                continue
            out.append(n)
    return out


def mode_tests(fnode):
    out = []
    # names that hold a mode test (`graph = torch.is_grad_enabled() and v.requires_grad`): testing them is testing the mode
    flags = {}
    for n in _own_nodes(fnode):
        if isinstance(n, ast.Assign) and len(n.targets) == 1 and isinstance(n.targets[0], ast.Name):
            at = _mode_atoms(n.value)
            if at and isinstance(n.value, (ast.BoolOp, ast.Compare, ast.Call, ast.Attribute, ast.UnaryOp)):
                flags[n.targets[0].id] = at[0]
    for n in _own_nodes(fnode):
        if isinstance(n, (ast.If, ast.IfExp, ast.While)) and flags:
            for x in ast.walk(n.test):
                if isinstance(x, ast.Name) and x.id in flags:
                    out.append((n, flags[x.id][0], flags[x.id][1], 'branch'))
    for n in _own_nodes(fnode):
        test = None
        if isinstance(n, (ast.If, ast.IfExp, ast.While, ast.Assert)):
            test = n.test
        elif isinstance(n, ast.comprehension):
            for t in n.ifs:
                for w, why in _mode_atoms(t):
                    out.append((n, w, why, 'filter'))
            continue
        elif isinstance(n, ast.BoolOp):
            continue
        if test is None:
            continue
        for w, why in _mode_atoms(test):
            out.append((n, w, why, 'branch'))
    return out


def _mode_atoms(test):
    out = []
    for x in ast.walk(test):
        if isinstance(x, ast.Call):
            d = (dotted(x.func) or '')
            nm = d.split('.')[-1]
            if nm in ('is_grad_enabled', 'is_inference_mode_enabled', 'is_inference', 'get_default_dtype', 'is_floating_point', 'is_autocast_enabled'):
                out.append((x, nm))
        elif isinstance(x, ast.Attribute) and x.attr in ('requires_grad', 'grad_fn', 'is_leaf') and isinstance(x.ctx, ast.Load):
            out.append((x, x.attr))
        elif isinstance(x, ast.Compare) and any(isinstance(y, ast.Attribute) and y.attr == 'dtype' for y in [x.left] + x.comparators) and \
                any((dotted(y) or '').startswith('torch.') for y in [x.left] + x.comparators):
            out.append((x, 'dtype comparison'))
    return out


@guarded
def rule_dtype_mod(repo, rid, modules, exempt):
    """exempt: {(function fq, normalised construct): reason}"""
    res = RuleResult(rid, 'every tensor constructed in these modules states its dtype (explicitly, through a **mapping, or by a *_like constructor): nothing '
                     'falls back to the process-wide default dtype; the %d sites that do today are tabled with their reason' % len(exempt), floor=1)
    n = 0
    seen_ex = set()
    for m in modules:
        for f in repo.module(m).functions.values():
            n += 1
            for c in untyped_creators(f.node):
                key = (f.fq, norm_construct(c, f.node))
                if key in exempt:
                    seen_ex.add(key)
                    res.inst({'function': f.fq, 'constructor': src(c)[:60], 'tabled': exempt[key]}, key)
                    continue
                res.inst({'function': f.fq, 'constructor': src(c)[:60], 'tabled': None}, key)
                if dotted(c.func) in ('torch.finfo', 'torch.iinfo'):
                    res.add(Finding(rid, f, '`%s` without an argument is the machine epsilon of the process-wide DEFAULT dtype: thresholds derived from it are '
                                    '5e8 times too coarse for float64 data under a float32 default (and too fine the other way round)' % src(c)[:40], node=c))
                    continue
                res.add(Finding(rid, f, '`%s` constructs a tensor without a dtype: it gets the process-wide default (float32) whatever the dtype of the problem, '
                                'so float64 inputs lose precision there or raise a dtype mismatch' % src(c)[:70], node=c))
    res.inst({'functions scanned': n, 'tabled sites found': len(seen_ex)}, 'scan')
    fx = ast.parse('def f(x, n):\n    a = torch.zeros(n)\n    b = torch.zeros(n, dtype=x.dtype)\n    c = torch.zeros(n, **kw)\n    return a, b, c\n').body[0]
    if len(untyped_creators(fx)) != 1:
        raise AnalysisError('%s: fixtures no longer classified' % rid)
    return res


@guarded
def rule_mode(repo, rid, modules, exempt):
    """exempt: {(function fq, what): reason}  - what = the atom name ('requires_grad', 'is_grad_enabled', ...)"""
    res = RuleResult(rid, 'no branch in these modules depends on the autograd mode, on requires_grad / grad_fn of a tensor, or on the floating dtype, except the '
                     '%d tabled sites: eager float32 calls and calls under no_grad / with leaf tensors / in float64 take the same path' % len(exempt), floor=1)
    n = 0
    for m in modules:
        for f in repo.module(m).functions.values():
            n += 1
            for node, atom, why, kind in mode_tests(f.node):
                key = (f.fq, why)
                if key in exempt:
                    res.inst({'function': f.fq, 'test': src(atom)[:50], 'tabled': exempt[key]}, key + (src(atom),))
                    continue
                res.inst({'function': f.fq, 'test': src(atom)[:50], 'tabled': None}, key + (src(atom),))
                res.add(Finding(rid, f, 'a %s on `%s` (%s) makes the result depend on the execution mode / numeric type: the path taken by plain float32 eager '
                                'calls is not the one taken under no_grad, with tensors that require grad, or in float64' % (kind, src(atom)[:50], why),
                                node=node, construct='mode|%s|%s' % (why, norm_construct(atom, f.node))))
    res.inst({'functions scanned': n}, 'scan')
    fx = ast.parse('def f(x):\n    if torch.is_grad_enabled() and x.requires_grad:\n        return x.clone()\n    if x.dtype == torch.float32:\n        return x\n    return [p for p in x if p.requires_grad]\n').body[0]
    if len(mode_tests(fx)) != 4:
        raise AnalysisError('%s: fixtures no longer classified (%d)' % (rid, len(mode_tests(fx))))
    return res


def _root_name(e):
    """the name an expression hangs on: x[..].f(..).g -> x"""
    while True:
        if isinstance(e, (ast.Attribute, ast.Subscript, ast.Starred)):
            e = e.value
        elif isinstance(e, ast.Call) and isinstance(e.func, ast.Attribute) and not (dotted(e.func) or '').startswith(('torch.', 'math.', 'np.')):
            e = e.func.value
        else:
            return e.id if isinstance(e, ast.Name) else None


def cross_casts(fnode):
    """[(call, X root, Y root)] : a tensor that hangs on parameter X is converted to the dtype of parameter Y (X.to(Y), X.type_as(Y), X.to(Y.dtype),
    X.to(dtype=Y.dtype), X.type(Y.dtype)).  Boolean masks (comparisons) being widened are not casts of data."""
    params = {a.arg for a in fnode.args.posonlyargs + fnode.args.args + fnode.args.kwonlyargs} - {'self', 'cls'}
    # one step of local aliasing: name -> parameter it hangs on (only when assigned once from an expression on one parameter, no comparison inside)
    alias = {}
    for n in _own_nodes(fnode):
        if isinstance(n, ast.Assign) and len(n.targets) == 1 and isinstance(n.targets[0], ast.Name) and n.targets[0].id not in params:
            r = _root_name(n.value)
            if r in params and not any(isinstance(x, ast.Compare) for x in ast.walk(n.value)):
                alias.setdefault(n.targets[0].id, set()).add(r)
            else:
                alias.setdefault(n.targets[0].id, set()).add(None)
    def par(e):
        r = _root_name(e)
        if r in params:
            return r
        a = alias.get(r)
        return next(iter(a)) if a and len(a) == 1 else None
    out = []
    for n in _own_nodes(fnode):
        if not (isinstance(n, ast.Call) and isinstance(n.func, ast.Attribute) and n.func.attr in ('to', 'type_as', 'type')):
            continue
        x = n.func.value
        if any(isinstance(c, ast.Compare) for c in ast.walk(x)):
            continue
        xr = par(x)
        if xr is None:
            continue
        targets = list(n.args) + [k.value for k in n.keywords if k.arg in ('dtype', 'other', None)]
        for t in targets:
            if isinstance(t, ast.Attribute) and t.attr == 'device':
                continue
            if isinstance(t, ast.Attribute) and t.attr == 'dtype':
                yr = par(t.value)
            elif n.func.attr in ('to', 'type_as') and isinstance(t, (ast.Name, ast.Subscript, ast.Attribute)) and dotted(t) not in ('dtype', 'device'):
                yr = par(t)
            else:
                yr = None
            if yr is not None and yr != xr:
                out.append((n, xr, yr))
    return out


@guarded
def rule_cast(repo, rid, modules):
    res = RuleResult(rid, 'no argument is converted to the dtype of ANOTHER argument (X.to(Y), X.type_as(Y), X.to(Y.dtype)): torch promotes mixed operands to the '
                     'wider type, an explicit cast to the partner silently truncates when the partner is an integer / lower-precision tensor (pixel grids, index '
                     'tensors, float32 data with float64 calibration)', floor=1)
    n = 0
    for m in modules:
        for f in repo.module(m).functions.values():
            n += 1
            for c, xr, yr in cross_casts(f.node):
                res.inst({'function': f.fq, 'cast': src(c)[:60], 'of argument': xr, 'to the dtype of argument': yr}, (f.fq, src(c)[:60]))
                res.add(Finding(rid, f, '`%s` converts the argument `%s` to the dtype of the argument `%s`: for an integer or lower-precision `%s` the values of `%s` are '
                                'truncated before they are used (mixed operands are promoted by torch without any cast)' % (src(c)[:60], xr, yr, yr, xr), node=c))
    res.inst({'functions scanned': n}, 'scan')
    fx = ast.parse('def f(p, K, m):\n    K = K.to(p)\n    a = K[..., 0, 0].to(p.dtype)\n    b = (p > 0).type_as(K)\n    c = K.to(p.device)\n    d = p.to(torch.int64)\n    return a, b, c, d\n').body[0]
    if len(cross_casts(fx)) != 2:
        raise AnalysisError('%s: fixtures no longer classified (%d)' % (rid, len(cross_casts(fx))))
    return res


# library calls that look interchangeable with what the code does today but are not, with the argument that makes them safe
API_HAZARDS = {
    'torch.cdist': (lambda c: any(k.arg == 'compute_mode' and isinstance(k.value, ast.Constant) and k.value.value == 'donot_use_mm_for_euclid_dist' for k in c.keywords),
                    'for p = 2 and more than 25 rows torch.cdist switches to the |a|^2 + |b|^2 - 2ab matrix-multiplication form, whose cancellation error grows with the '
                    'squared coordinate magnitude (metres in a map frame: several units in float32): distances are not the norms of the differences any more, '
                    'radius tests and neighbour orders change; pass compute_mode="donot_use_mm_for_euclid_dist" or keep the explicit difference'),
}


@guarded
def rule_api(repo, rid, modules):
    res = RuleResult(rid, 'no call of a library function that silently differs from the explicit computation it replaces (table API_HAZARDS: %s) without the '
                     'argument that makes it exact' % ', '.join(sorted(API_HAZARDS)), floor=1)
    n = 0
    for m in modules:
        for f in repo.module(m).functions.values():
            n += 1
            for c in _own_nodes(f.node):
                if isinstance(c, ast.Call) and dotted(c.func) in API_HAZARDS:
                    safe, why = API_HAZARDS[dotted(c.func)]
                    ok = safe(c)
                    res.inst({'function': f.fq, 'call': src(c)[:60], 'safe form': ok}, (f.fq, src(c)[:60]))
                    if not ok:
                        res.add(Finding(rid, f, '`%s`: %s' % (src(c)[:60], why), node=c))
    res.inst({'functions scanned': n}, 'scan')
    fx = ast.parse('def f(a, b):\n    return torch.cdist(a, b, p=2), torch.cdist(a, b, compute_mode="donot_use_mm_for_euclid_dist")\n').body[0]
    got = [API_HAZARDS['torch.cdist'][0](c) for c in ast.walk(fx) if isinstance(c, ast.Call) and dotted(c.func) == 'torch.cdist']
    if sorted(got) != [False, True]:
        raise AnalysisError('%s: fixtures no longer classified' % rid)
    return res


# ------------------------------------------------------------------------------------------------ sites read and tabled (2026-09, HEAD e00fd9c)
EXEMPT_DT = {
    ('pypose.function.geometry:voxel_filter', 'torch.tensor(v0, device=v1.device)'): 'voxel sizes given as a Python list: used as a divisor, type-promoted with the points',
    ('pypose.lietensor.convert:mat2SO3', 'torch.tensor([1, 2, 3, 0], device=v0.device)'): 'integer index permutation (wxyz -> xyzw)',
    ('pypose.lietensor.convert:mat2SO3', 'torch.tensor(v0)'): 'list -> tensor conversion of the user input when it is not a tensor yet',
    ('pypose.lietensor.convert:mat2SE3', 'torch.tensor(v0)'): 'same input conversion',
    ('pypose.lietensor.convert:mat2Sim3', 'torch.tensor(v0)'): 'same input conversion',
    ('pypose.lietensor.convert:mat2RxSO3', 'torch.tensor(v0)'): 'same input conversion',
    ('pypose.lietensor.convert:from_matrix', 'torch.tensor(v0)'): 'same input conversion',
    ('pypose.lietensor.convert:euler2SO3', 'torch.tensor(v0)'): 'same input conversion',
    ('pypose.lietensor.lietensor:SO3Type.identity_', 'torch.tensor([-1], device=v0.device)'): 'integer index',
    ('pypose.lietensor.lietensor:Parameter.__new__', 'torch.tensor([])'): 'empty default payload of nn.Parameter',
    ('pypose.module.dynamics:System.systime.setter', 'torch.tensor(v0)'): 'integer clock value copied into the int64 buffer',
    ('pypose.module.imu_preintegrator:IMUPreintegrator.__init__', 'torch.zeros(1, 9, 9)'): 'constructor default buffer (module.to(dtype) converts it with the module)',
    ('pypose.module.imu_preintegrator:IMUPreintegrator.__init__', 'torch.tensor([0, 0, v0])'): 'constructor default buffer',
    ('pypose.module.imu_preintegrator:IMUPreintegrator.__init__', 'torch.tensor([[v0, v0, v0]])'): 'constructor default buffer',
    ('pypose.module.lqr:LQR.lqr_backward', 'torch.tensor(v0 * v1)'): 'integer time index t * dt handed to set_refpoint',
    ('pypose.utils.stepper:_Stepper.reset', "torch.tensor(float('inf'))"): 'initial "last loss" sentinel, compared only',
    ('pypose.utils.stepper:ReduceToBason.step', 'torch.tensor(v0)'): 'Python-number loss converted for comparison',
}
EXEMPT_MODE = {
    ('pypose.optim.corrector:FastTriggs.forward', 'is_inference_mode_enabled'): 'assertion: the corrector needs autograd and says so',
    ('pypose.optim.corrector:Triggs.compute_grads', 'requires_grad'): 'constant-slope kernels have no graph for rho\' (F19): second derivative is zero',
    ('pypose.optim.optimizer:RobustModel.flatten_row_jacobian', 'requires_grad'): 'frozen parameters contribute no columns (F17)',
    ('pypose.optim.optimizer:_Optimizer.update_parameter', 'requires_grad'): 'frozen parameters are not updated (documented)',
    ('pypose.optim.optimizer:LevenbergMarquardt.update_parameter', 'requires_grad'): 'same, sparse path',
}


def mode_rules(repo, pid, modules):
    from .ipalias import rule_ipalias, rule_lostupdate
    from .unused import rule_unused
    return [rule_dtype_mod(repo, pid + '.DTMOD', modules, EXEMPT_DT), rule_mode(repo, pid + '.MODE', modules, EXEMPT_MODE),
            rule_ipalias(repo, pid + '.IPA', modules), rule_unused(repo, pid + '.UNUSED', modules), rule_cast(repo, pid + '.CAST', modules), rule_api(repo, pid + '.API', modules), rule_lostupdate(repo, pid + '.LOST', modules)]
