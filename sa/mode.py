"""Mode independence: the value a library function returns does not depend on HOW it is executed or on the numeric type it is given.

  DTYPE  every tensor a function constructs takes its dtype (and device) from an argument / from the object's configured dtype: an explicit
         `dtype=`, a `**kwargs`-style mapping, a `*_like` constructor, or an integer dtype for index tensors.  A constructor without dtype yields the
         process-wide default (float32), so a float64 problem silently loses half of its digits or raises a dtype mismatch.
  MODE   no branch tests the autograd mode (torch.is_grad_enabled / is_inference_mode_enabled), the `requires_grad` flag, the floating dtype
         or the default dtype: such a branch makes eager float32 calls - the only ones tests exercise - take another code path than calls under
         no_grad, with leaf tensors, in float64 or inside a functional transform.

Both are armed with an explicit table of the sites that exist today and were read (one line of reason each); anything else is a finding.
"""
import ast
from .core import RuleResult, Finding, AnalysisError, dotted, src, norm_construct, guarded, as_assert

CREATORS = {'zeros', 'ones', 'empty', 'eye', 'full', 'tensor', 'arange', 'rand', 'randn', 'linspace', 'as_tensor', 'scalar_tensor', 'logspace'}


def _own_nodes(fnode):
    stack = list(fnode.body)
    while stack:
        n = stack.pop()
        if isinstance(n, (ast.FunctionDef, ast.AsyncFunctionDef, ast.ClassDef)):
            continue
        yield n
        stack.extend(ast.iter_child_nodes(n))


def untyped_creators(fnode):
    out = []
    for n in _own_nodes(fnode):
        # torch.finfo() / torch.iinfo() without an argument describe the process-wide DEFAULT dtype, not the dtype of the data at hand
        if isinstance(n, ast.Call) and dotted(n.func) in ('torch.finfo', 'torch.iinfo') and not n.args and not n.keywords:
            out.append(n)
            continue
        if isinstance(n, ast.Call) and (dotted(n.func) or '').startswith('torch.') and (dotted(n.func) or '').split('.')[-1] in CREATORS:
            kws = {k.arg for k in n.keywords}
            if 'dtype' in kws or None in kws:
                continue
            name = (dotted(n.func) or '').split('.')[-1]
            # torch.tensor / as_tensor of an existing tensor keeps its dtype
            if name in ('tensor', 'as_tensor') and n.args and isinstance(n.args[0], (ast.Name, ast.Attribute, ast.Subscript)) and False:
                continue
            out.append(n)
    return out


def mode_tests(fnode):
    out = []
    # names that hold a mode test (`graph = torch.is_grad_enabled() and v.requires_grad`): testing them is testing the mode
    flags = {}
    for n in _own_nodes(fnode):
        if isinstance(n, ast.Assign) and len(n.targets) == 1 and isinstance(n.targets[0], ast.Name):
            at = _mode_atoms(n.value)
            if at and isinstance(n.value, (ast.BoolOp, ast.Compare, ast.Call, ast.Attribute, ast.UnaryOp)):
                flags[n.targets[0].id] = at[0]
    for n in _own_nodes(fnode):
        if isinstance(n, (ast.If, ast.IfExp, ast.While)) and flags:
            for x in ast.walk(n.test):
                if isinstance(x, ast.Name) and x.id in flags:
                    out.append((n, flags[x.id][0], flags[x.id][1], 'branch'))
    for n in _own_nodes(fnode):
        test = None
        if isinstance(n, (ast.If, ast.IfExp, ast.While, ast.Assert)):
            test = n.test
        elif isinstance(n, ast.comprehension):
            for t in n.ifs:
                for w, why in _mode_atoms(t):
                    out.append((n, w, why, 'filter'))
            continue
        elif isinstance(n, ast.BoolOp):
            continue
        if test is None:
            continue
        for w, why in _mode_atoms(test):
            out.append((n, w, why, 'branch'))
    return out


def _mode_atoms(test):
    out = []
    for x in ast.walk(test):
        if isinstance(x, ast.Call):
            d = (dotted(x.func) or '')
            nm = d.split('.')[-1]
            if nm in ('is_grad_enabled', 'is_inference_mode_enabled', 'is_inference', 'get_default_dtype', 'is_floating_point', 'is_autocast_enabled'):
                out.append((x, nm))
        elif isinstance(x, ast.Attribute) and x.attr in ('requires_grad', 'grad_fn', 'is_leaf') and isinstance(x.ctx, ast.Load):
            out.append((x, x.attr))
        elif isinstance(x, ast.Compare) and any(isinstance(y, ast.Attribute) and y.attr == 'dtype' for y in [x.left] + x.comparators) and \
                any((dotted(y) or '').startswith('torch.') for y in [x.left] + x.comparators):
            out.append((x, 'dtype comparison'))
    return out


def mask_scalar_products(fnode):
    """[(node, value)]: `mask * c` (also `mask * c1 / c2`, `c * mask`) with `mask` a BOOLEAN tensor (a comparison or a combination of comparisons) and c a Python
    number: the product is a tensor of the process-wide DEFAULT dtype holding c rounded to it; multiplied into float64 data afterwards it carries float32 digits.
    Only constants that float32 cannot represent exactly are reported (pi, 1/12; not 2.0 or 0.5)."""
    import struct
    masks = set()
    for n in _own_nodes(fnode):
        if isinstance(n, ast.Assign) and len(n.targets) == 1 and isinstance(n.targets[0], ast.Name):
            core = n.value
            while isinstance(core, ast.Call) and isinstance(core.func, ast.Attribute) and core.func.attr in ('squeeze', 'unsqueeze', 'view', 'reshape', 'clone', 'bool'):
                core = core.func.value
            if isinstance(core, ast.Compare) or (isinstance(core, ast.UnaryOp) and isinstance(core.op, ast.Invert)) or \
                    (isinstance(core, ast.BinOp) and isinstance(core.op, (ast.BitAnd, ast.BitOr)) and
                     all(isinstance(x, (ast.Name, ast.Compare, ast.UnaryOp, ast.BinOp)) for x in (core.left, core.right))):
                masks.add(n.targets[0].id)

    def is_mask(e):
        if isinstance(e, ast.Name):
            return e.id in masks
        if isinstance(e, ast.UnaryOp) and isinstance(e.op, ast.Invert):
            return is_mask(e.operand)
        if isinstance(e, ast.Compare):
            return True
        if isinstance(e, ast.BinOp) and isinstance(e.op, (ast.BitAnd, ast.BitOr)):
            return is_mask(e.left) and is_mask(e.right)
        return False

    def num(e):
        if isinstance(e, ast.Constant) and isinstance(e.value, (int, float)) and not isinstance(e.value, bool):
            return float(e.value)
        if isinstance(e, ast.Attribute) and e.attr == 'pi' and dotted(e.value) in ('torch', 'math', 'np', 'numpy'):
            return 3.141592653589793
        if isinstance(e, ast.UnaryOp) and isinstance(e.op, ast.USub):
            v = num(e.operand)
            return None if v is None else -v
        if isinstance(e, ast.BinOp) and isinstance(e.op, (ast.Mult, ast.Div)):
            a, b = num(e.left), num(e.right)
            if a is None or b is None or (isinstance(e.op, ast.Div) and b == 0):
                return None
            return a * b if isinstance(e.op, ast.Mult) else a / b
        return None

    def mval(e):
        """(scalar value carried by a default-dtype mask product) or None"""
        if is_mask(e):
            return 1.0
        if isinstance(e, ast.BinOp) and isinstance(e.op, (ast.Mult, ast.Div)):
            l, r = mval(e.left), mval(e.right)
            nl, nr = num(e.left), num(e.right)
            if l is not None and nr is not None:
                return l * nr if isinstance(e.op, ast.Mult) else (l / nr if nr else None)
            if r is not None and nl is not None and isinstance(e.op, ast.Mult):
                return nl * r
        return None
    out, seen = [], set()
    for n in ast.walk(fnode):
        if isinstance(n, ast.BinOp) and isinstance(n.op, (ast.Mult, ast.Div)) and id(n) not in seen:
            v = mval(n)
            if v is not None and not is_mask(n):
                for x in ast.walk(n):
                    seen.add(id(x))
                if struct.unpack('f', struct.pack('f', v))[0] != v:
                    out.append((n, v))
    return out


MASKSCALAR_TABLE = {
    ('pypose.lietensor.operation:so3_Jl_inv', '~v0 * 1.0 / 12.0'): 'coefficient of K @ K with |K| <= eps: the float32 rounding of 1/12 (3e-9) multiplies a term of size eps^2',
}


@guarded
def rule_dtype_mod(repo, rid, modules, exempt):
    """exempt: {(function fq, normalised construct): reason}"""
    res = RuleResult(rid, 'every tensor constructed in these modules states its dtype (explicitly, through a **mapping, or by a *_like constructor): nothing '
                     'falls back to the process-wide default dtype; the %d sites that do today are tabled with their reason' % len(exempt), floor=1)
    n = 0
    seen_ex = set()
    for m in modules:
        for f in repo.functions_view(m):
            n += 1
            for c in untyped_creators(f.node):
                key = (f.fq, norm_construct(c, f.node))
                # torch.as_tensor(x) converts like torch.tensor(x) (without the copy): one tabled site
                if key not in exempt and key[1].startswith('torch.as_tensor('):
                    key = (f.fq, 'torch.tensor(' + key[1][len('torch.as_tensor('):])
                if key in exempt:
                    seen_ex.add(key)
                    res.inst({'function': f.fq, 'constructor': src(c)[:60], 'tabled': exempt[key]}, key)
                    continue
                res.inst({'function': f.fq, 'constructor': src(c)[:60], 'tabled': None}, key)
                if dotted(c.func) in ('torch.finfo', 'torch.iinfo'):
                    res.add(Finding(rid, f, '`%s` without an argument is the machine epsilon of the process-wide DEFAULT dtype: thresholds derived from it are '
                                    '5e8 times too coarse for float64 data under a float32 default (and too fine the other way round)' % src(c)[:40], node=c))
                    continue
                res.add(Finding(rid, f, '`%s` constructs a tensor without a dtype: it gets the process-wide default (float32) whatever the dtype of the problem, '
                                'so float64 inputs lose precision there or raise a dtype mismatch' % src(c)[:70], node=c))
            for node, val in mask_scalar_products(f.node):
                key = (f.fq, norm_construct(node, f.node))
                res.inst({'function': f.fq, 'boolean mask times a Python number': src(node)[:50], 'value': val, 'tabled': MASKSCALAR_TABLE.get(key)}, key)
                if key not in MASKSCALAR_TABLE:
                    res.add(Finding(rid, f, '`%s` multiplies a BOOLEAN mask with the Python number %.17g: the product is a tensor of the process-wide default dtype (float32), the '
                                    'constant is rounded to it (%.9g) before it meets the float64 data - float64 results carry float32 digits on this branch'
                                    % (src(node)[:50], val, __import__('struct').unpack('f', __import__('struct').pack('f', val))[0]), node=node,
                                    construct='mask times python number|' + norm_construct(node, f.node)))
    res.inst({'functions scanned': n, 'tabled sites found': len(seen_ex)}, 'scan')
    fx = ast.parse('def f(x, n):\n    a = torch.zeros(n)\n    b = torch.zeros(n, dtype=x.dtype)\n    c = torch.zeros(n, **kw)\n    return a, b, c\n').body[0]
    if len(untyped_creators(fx)) != 1:
        raise AnalysisError('%s: fixtures no longer classified' % rid)
    return res


@guarded
def rule_mode(repo, rid, modules, exempt):
    """exempt: {(function fq, what): reason}  - what = the atom name ('requires_grad', 'is_grad_enabled', ...)"""
    res = RuleResult(rid, 'no branch in these modules depends on the autograd mode, on requires_grad / grad_fn of a tensor, or on the floating dtype, except the '
                     '%d tabled sites: eager float32 calls and calls under no_grad / with leaf tensors / in float64 take the same path' % len(exempt), floor=1)
    n = 0
    for m in modules:
        for f in repo.functions_view(m):
            n += 1
            for node, atom, why, kind in mode_tests(f.node):
                key = (f.fq, why)
                if key in exempt:
                    res.inst({'function': f.fq, 'test': src(atom)[:50], 'tabled': exempt[key]}, key + (src(atom),))
                    continue
                res.inst({'function': f.fq, 'test': src(atom)[:50], 'tabled': None}, key + (src(atom),))
                res.add(Finding(rid, f, 'a %s on `%s` (%s) makes the result depend on the execution mode / numeric type: the path taken by plain float32 eager '
                                'calls is not the one taken under no_grad, with tensors that require grad, or in float64' % (kind, src(atom)[:50], why),
                                node=node, construct='mode|%s|%s' % (why, norm_construct(atom, f.node))))
    res.inst({'functions scanned': n}, 'scan')
    fx = ast.parse('def f(x):\n    if torch.is_grad_enabled() and x.requires_grad:\n        return x.clone()\n    if x.dtype == torch.float32:\n        return x\n    return [p for p in x if p.requires_grad]\n').body[0]
    if len(mode_tests(fx)) != 4:
        raise AnalysisError('%s: fixtures no longer classified (%d)' % (rid, len(mode_tests(fx))))
    return res


def _root_name(e):
    """the name an expression hangs on: x[..].f(..).g -> x"""
    while True:
        if isinstance(e, (ast.Attribute, ast.Subscript, ast.Starred)):
            e = e.value
        elif isinstance(e, ast.Call) and isinstance(e.func, ast.Attribute) and not (dotted(e.func) or '').startswith(('torch.', 'math.', 'np.')):
            e = e.func.value
        else:
            return e.id if isinstance(e, ast.Name) else None


def cross_casts(fnode):
    """[(call, X root, Y root)] : a tensor that hangs on parameter X is converted to the dtype of parameter Y (X.to(Y), X.type_as(Y), X.to(Y.dtype),
    X.to(dtype=Y.dtype), X.type(Y.dtype)).  Boolean masks (comparisons) being widened are not casts of data."""
    params = {a.arg for a in fnode.args.posonlyargs + fnode.args.args + fnode.args.kwonlyargs} - {'self', 'cls'}
    # one step of local aliasing: name -> parameter it hangs on (only when assigned once from an expression on one parameter, no comparison inside)
    alias = {}
    for n in _own_nodes(fnode):
        if isinstance(n, ast.Assign) and len(n.targets) == 1 and isinstance(n.targets[0], ast.Name) and n.targets[0].id not in params:
            r = _root_name(n.value)
            if r in params and not any(isinstance(x, ast.Compare) for x in ast.walk(n.value)):
                alias.setdefault(n.targets[0].id, set()).add(r)
            else:
                alias.setdefault(n.targets[0].id, set()).add(None)
    def par(e):
        r = _root_name(e)
        if r in params:
            return r
        a = alias.get(r)
        return next(iter(a)) if a and len(a) == 1 else None
    out = []
    for n in _own_nodes(fnode):
        if not (isinstance(n, ast.Call) and isinstance(n.func, ast.Attribute) and n.func.attr in ('to', 'type_as', 'type')):
            continue
        x = n.func.value
        if any(isinstance(c, ast.Compare) for c in ast.walk(x)):
            continue
        xr = par(x)
        if xr is None:
            continue
        targets = list(n.args) + [k.value for k in n.keywords if k.arg in ('dtype', 'other', None)]
        for t in targets:
            if isinstance(t, ast.Attribute) and t.attr == 'device':
                continue
            if isinstance(t, ast.Attribute) and t.attr == 'dtype':
                yr = par(t.value)
            elif n.func.attr in ('to', 'type_as') and isinstance(t, (ast.Name, ast.Subscript, ast.Attribute)) and dotted(t) not in ('dtype', 'device'):
                yr = par(t)
            else:
                yr = None
            if yr is not None and yr != xr:
                out.append((n, xr, yr))
    return out


@guarded
def rule_cast(repo, rid, modules):
    res = RuleResult(rid, 'no argument is converted to the dtype of ANOTHER argument (X.to(Y), X.type_as(Y), X.to(Y.dtype)): torch promotes mixed operands to the '
                     'wider type, an explicit cast to the partner silently truncates when the partner is an integer / lower-precision tensor (pixel grids, index '
                     'tensors, float32 data with float64 calibration)', floor=1)
    n = 0
    for m in modules:
        for f in repo.functions_view(m):
            n += 1
            for c, xr, yr in cross_casts(f.node):
                res.inst({'function': f.fq, 'cast': src(c)[:60], 'of argument': xr, 'to the dtype of argument': yr}, (f.fq, src(c)[:60]))
                res.add(Finding(rid, f, '`%s` converts the argument `%s` to the dtype of the argument `%s`: for an integer or lower-precision `%s` the values of `%s` are '
                                'truncated before they are used (mixed operands are promoted by torch without any cast)' % (src(c)[:60], xr, yr, yr, xr), node=c))
    res.inst({'functions scanned': n}, 'scan')
    fx = ast.parse('def f(p, K, m):\n    K = K.to(p)\n    a = K[..., 0, 0].to(p.dtype)\n    b = (p > 0).type_as(K)\n    c = K.to(p.device)\n    d = p.to(torch.int64)\n    return a, b, c, d\n').body[0]
    if len(cross_casts(fx)) != 2:
        raise AnalysisError('%s: fixtures no longer classified (%d)' % (rid, len(cross_casts(fx))))
    return res


# library calls that look interchangeable with what the code does today but are not, with the argument that makes them safe
API_HAZARDS = {
    'torch.cdist': (lambda c: any(k.arg == 'compute_mode' and isinstance(k.value, ast.Constant) and k.value.value == 'donot_use_mm_for_euclid_dist' for k in c.keywords),
                    'for p = 2 and more than 25 rows torch.cdist switches to the |a|^2 + |b|^2 - 2ab matrix-multiplication form, whose cancellation error grows with the '
                    'squared coordinate magnitude (metres in a map frame: several units in float32): distances are not the norms of the differences any more, '
                    'radius tests and neighbour orders change; pass compute_mode="donot_use_mm_for_euclid_dist" or keep the explicit difference'),
}


@guarded
def rule_api(repo, rid, modules):
    res = RuleResult(rid, 'no call of a library function that silently differs from the explicit computation it replaces (table API_HAZARDS: %s) without the '
                     'argument that makes it exact' % ', '.join(sorted(API_HAZARDS)), floor=1)
    n = 0
    for m in modules:
        for f in repo.functions_view(m):
            n += 1
            for c in _own_nodes(f.node):
                if isinstance(c, ast.Call) and dotted(c.func) in API_HAZARDS:
                    safe, why = API_HAZARDS[dotted(c.func)]
                    ok = safe(c)
                    res.inst({'function': f.fq, 'call': src(c)[:60], 'safe form': ok}, (f.fq, src(c)[:60]))
                    if not ok:
                        res.add(Finding(rid, f, '`%s`: %s' % (src(c)[:60], why), node=c))
    res.inst({'functions scanned': n}, 'scan')
    fx = ast.parse('def f(a, b):\n    return torch.cdist(a, b, p=2), torch.cdist(a, b, compute_mode="donot_use_mm_for_euclid_dist")\n').body[0]
    got = [API_HAZARDS['torch.cdist'][0](c) for c in ast.walk(fx) if isinstance(c, ast.Call) and dotted(c.func) == 'torch.cdist']
    if sorted(got) != [False, True]:
        raise AnalysisError('%s: fixtures no longer classified' % rid)
    return res


SATURATORS = {'clamp', 'clamp_', 'clip', 'clip_', 'clamp_min', 'clamp_max', 'clamp_min_', 'clamp_max_', 'nan_to_num', 'nan_to_num_', 'round', 'round_', 'floor', 'ceil', 'trunc',
              'relu', 'softplus', 'maximum', 'minimum', 'fmax', 'fmin', 'nanmean', 'nansum', 'nanmedian'}
EPS_NAMES = {'eps', 'epsilon', 'tiny', 'EPS', 'smallest_normal'}


def _small_names(fnode):
    """EPS_NAMES plus the local names bound to a machine epsilon / a small literal (documented tolerances - atol / rtol / tol parameters - are not hidden thresholds)"""
    small = set(EPS_NAMES)
    for n in _own_nodes(fnode):
        if isinstance(n, ast.Assign) and len(n.targets) == 1 and isinstance(n.targets[0], ast.Name):
            v = n.value
            if (isinstance(v, ast.Attribute) and v.attr in EPS_NAMES) or (isinstance(v, ast.Constant) and isinstance(v.value, float) and 0 < abs(v.value) < 1e-2) or \
                    (isinstance(v, ast.BinOp) and any(isinstance(x, ast.Attribute) and x.attr in EPS_NAMES for x in ast.walk(v))):
                small.add(n.targets[0].id)
    return small


def guard_sites(fnode):
    """[(kind, node)]: value-changing safeguards of a function body - 'sat' (clamp / nan_to_num / rounding / maximum-style saturation), 'eps' (a small constant or a
    machine epsilon ADDED to / subtracted from a value), 'exc' (an exception handler that does not re-raise)"""
    out = []
    for n in _own_nodes(fnode):
        if isinstance(n, ast.Call):
            nm = (dotted(n.func) or (n.func.attr if isinstance(n.func, ast.Attribute) else '')).split('.')[-1]
            if nm in SATURATORS and (isinstance(n.func, ast.Attribute) or (dotted(n.func) or '').startswith('torch.')) and not (dotted(n.func) or '').startswith(('math.', 'np.')):
                out.append(('sat', n))
        elif isinstance(n, ast.BinOp) and isinstance(n.op, (ast.Add, ast.Sub)):
            for side in (n.left, n.right):
                if isinstance(side, ast.Constant) and isinstance(side.value, float) and 0 < abs(side.value) < 1e-3:
                    out.append(('eps', n))
                elif isinstance(side, (ast.Name, ast.Attribute)) and (dotted(side) or '').split('.')[-1] in EPS_NAMES:
                    out.append(('eps', n))
        elif isinstance(n, ast.AugAssign) and isinstance(n.op, (ast.Add, ast.Sub)) and ((isinstance(n.value, ast.Constant) and isinstance(n.value.value, float) and 0 < abs(n.value.value) < 1e-3)
                                                                                 or (dotted(n.value) or '').split('.')[-1] in EPS_NAMES):
            out.append(('eps', n))
        elif isinstance(n, ast.ExceptHandler) and not any(isinstance(x, ast.Raise) for x in ast.walk(n)):
            out.append(('exc', n))
        elif isinstance(n, ast.BinOp) and isinstance(n.op, (ast.Mult, ast.Div)) and any(isinstance(x, ast.Constant) and isinstance(x.value, float) and 0 < abs(x.value) < 1e-3
                                                                                  for x in (n.left, n.right)):
            out.append(('eps', n))                          # a scaled epsilon: 1e-6 * mean(diag A)
    # threshold comparisons: a value compared with a small literal, a machine epsilon or a tolerance - the switch of a regime / a guard
    small_names = _small_names(fnode)
    for n in _own_nodes(fnode):
        if isinstance(n, ast.Compare) and not any(isinstance(op, (ast.Is, ast.IsNot, ast.In, ast.NotIn)) for op in n.ops):
            hit = False
            for x in ast.walk(n):
                if isinstance(x, ast.Constant) and isinstance(x.value, float) and 0 < abs(x.value) < 1e-2:
                    hit = True
                elif isinstance(x, ast.Name) and x.id in small_names:
                    hit = True
                elif isinstance(x, ast.Attribute) and x.attr in small_names:
                    hit = True
            if hit:
                out.append(('thr', n))
    return out


def guard_key(kind, node, fnode, resolve=False):
    """what a safeguard does, without where it is applied: a repeated identical clamp / threshold is idempotent or redundant, a new bound is a new safeguard"""
    if kind == 'sat':
        nm = (dotted(node.func) or (node.func.attr if isinstance(node.func, ast.Attribute) else '')).split('.')[-1]
        args = list(node.args[1:] if (dotted(node.func) or '').startswith('torch.') else node.args)
        return '%s(%s)' % (nm.rstrip('_'), ', '.join([src(a) for a in args if isinstance(a, (ast.Constant, ast.UnaryOp))] + sorted('%s=%s' % (k.arg, src(k.value) if isinstance(k.value, (ast.Constant, ast.UnaryOp)) else '*') for k in node.keywords)))
    if kind == 'exc':
        names = [] if node.type is None else [dotted(x) or src(x) for x in (node.type.elts if isinstance(node.type, ast.Tuple) else [node.type])]
        if node.type is None or any(x in ('Exception', 'BaseException') for x in names):
            return 'except Exception'                      # Exception or wider: one class of handler
        return 'except ' + ', '.join(sorted(names))
    if kind == 'thr':
        # operator and the threshold side(s): which quantity is compared is left open
        ths = []
        small = _small_names(fnode)
        # a local bound once to the machine epsilon (`eps = torch.finfo(theta.dtype).eps`) stands for that expression
        eps_defs = {}
        for a in _own_nodes(fnode):
            if isinstance(a, ast.Assign) and len(a.targets) == 1 and isinstance(a.targets[0], ast.Name) and isinstance(a.value, ast.Attribute) and a.value.attr in EPS_NAMES:
                eps_defs.setdefault(a.targets[0].id, []).append(a.value)
        eps_defs = {k: v[0] for k, v in eps_defs.items() if len(v) == 1}
        if eps_defs and resolve:
            import copy as _copy

            class _Sub(ast.NodeTransformer):
                def visit_Name(self, n):
                    return _copy.deepcopy(eps_defs[n.id]) if isinstance(n.ctx, ast.Load) and n.id in eps_defs else n
            node = _Sub().visit(_copy.deepcopy(node))
        for side in [node.left] + list(node.comparators):
            if any((isinstance(x, ast.Constant) and isinstance(x.value, float) and 0 < abs(x.value) < 1e-2) or (isinstance(x, ast.Attribute) and x.attr in small) or
                   (isinstance(x, ast.Name) and x.id in small) for x in ast.walk(side)):
                ths.append(norm_construct(side, fnode))
        # `x > eps` and `x <= eps` are the two sides of one switch
        return 'cmp %s' % (' | '.join(ths) or 'local threshold')
    return norm_construct(node, fnode)


# every safeguard of the pinned tree that changes a value or swallows an exception, read and kept with its reason (2026-09, /repo ab36dfe)
GUARD_TABLE = {
    ('pypose.function.geometry:homo2cart', 'sat'): {'clamp(min=*)': '|w| floored at the smallest normal number: the division never produces inf, the sign is restored (C18.ORD)'},
    ('pypose.function.geometry:svdtf', 'thr'): {'cmp 1e-06': 'reflection test |det R + 1| < 1e-6 of the SVD alignment'},
    ('pypose.lietensor.convert:quat2unit', 'thr'): {'cmp v0': 'zero-norm quaternion rejected'},
    ('pypose.lietensor.lietensor:LieTensor.euler', 'eps'): {'1.0 - v0': 'gimbal-lock threshold 1 - eps (C11.GIMBAL)'},
    ('pypose.lietensor.lietensor:LieTensor.euler', 'sat'): {'clamp(-1, 1)': 'asin argument clamped to [-1, 1] against round-off (C11.KIND)'},
    ('pypose.lietensor.lietensor:LieTensor.euler', 'thr'): {'cmp 1.0 - v0': 'gimbal-lock test |sin pitch| < 1 - eps (C11.GIMBAL)'},
    ('pypose.lietensor.lietensor:so3Type.Jr', 'thr'): {'cmp torch.finfo(v0.dtype).eps': 'series / closed-form switch at machine epsilon (C05.LIMIT)'},
    ('pypose.lietensor.operation:SO3_Log.forward', 'sat'): {'nan_to_num()': 'nan_to_num of a branch formula multiplied by its mask (Cxx.GD)'},
    ('pypose.lietensor.operation:SO3_Log.forward', 'thr'): {'cmp v0': '|w| and |v| regime switches at machine epsilon (C02.LIMIT)'},
    ('pypose.lietensor.operation:calcQ', 'sat'): {'nan_to_num()': 'nan_to_num of closed forms masked out below eps (Cxx.GD)'},
    ('pypose.lietensor.operation:calcQ', 'thr'): {'cmp torch.finfo(v0.dtype).eps': 'series / closed-form switch at machine epsilon (Cxx.LIMIT)'},
    ('pypose.lietensor.operation:rxso3_Ws', 'thr'): {'cmp torch.finfo(v0.dtype).eps': 'rotation and log-scale regime switches (Cxx.LIMIT)'},
    ('pypose.lietensor.operation:so3_Exp.forward', 'thr'): {'cmp torch.finfo(v0.dtype).eps': 'series / closed-form switch at machine epsilon (C01.LIMIT)'},
    ('pypose.lietensor.operation:so3_Jl', 'thr'): {'cmp torch.finfo(v0.dtype).eps': 'series / closed-form switch at machine epsilon (Cxx.LIMIT)'},
    ('pypose.lietensor.operation:so3_Jl_inv', 'sat'): {'nan_to_num()': 'nan_to_num of the closed form that is masked out below eps (Cxx.GD)'},
    ('pypose.lietensor.operation:so3_Jl_inv', 'thr'): {'cmp torch.finfo(v0.dtype).eps': 'series / closed-form switch at machine epsilon (Cxx.LIMIT)'},
    ('pypose.optim.corrector:Triggs.forward', 'sat'): {'clamp(min=0)': "1 + 2 x rho'' / rho' clamped at 0: the documented Triggs correction takes the root of a non-negative number"},
    ('pypose.optim.optimizer:LevenbergMarquardt.step', 'exc'): {'except Exception': 'a failing linear solver ends the trial with the state before it (C08.EXC)'},
    ('pypose.optim.optimizer:LevenbergMarquardt.step', 'sat'): {'clamp()': 'diagonal of J^T W J clamped to the documented [min, max] (C07.DAMP)'},
    ('pypose.optim.scheduler:StopOnPlateau.step', 'eps'): {'self.optimizer.last + 1e-31': '1e-31 in the denominator of the relative decrease shown in verbose mode only'},
    ('pypose.module.pf:PF.resample_particles', 'sat'): {'clamp(max=*)': 'resampling index bounded by the number of particles (F50): searchsorted returns N for draws above the last cumulative weight'},
    ('pypose:_ensure_sparse_backend_version', 'exc'): {'except PackageNotFoundError': 'optional sparse backend absent: feature disabled'},
    ('pypose:_load_optional_backend_attr', 'exc'): {'except ImportError': 'optional sparse backend absent: feature disabled'},
}


@guarded
def rule_guardset(repo, rid, modules):
    """A clamp, a nan_to_num, an added epsilon, a threshold switch, a swallowed exception change the value a function returns for SOME inputs - that is their purpose.
    Each one in the tree was read and is tabled (function, kind, what it does) with the reason why the inputs it touches are outside the documented range or why
    the saturation IS the documented behaviour.  A safeguard that does something NOT in the table of its function - "for robustness" - has not been shown to leave
    admissible inputs alone: 1e-8 added to a norm biases every small vector, a clamp to new bounds cuts what legitimately leaves them, an `except: continue` hides
    the failure the caller is promised.  A repetition of a tabled safeguard (the same bounds / the same threshold again) is idempotent or redundant and passes."""
    res = RuleResult(rid, 'every value-changing safeguard of these modules (clamp / nan_to_num / rounding / maximum-style saturation, an epsilon added to or scaling a '
                     'value, a switch on a small literal / machine epsilon, an exception handler that does not re-raise) does what one of the %d reviewed entries of '
                     'GUARD_TABLE for its function does' % sum(len(v) for v in GUARD_TABLE.values()), floor=1)
    n = 0
    for m in modules:
        funcs = list(repo.functions_view(m))
        # a tabled safeguard whose function no longer contains it (the function was renamed, or the statement was moved into a helper of the same module) is an
        # ORPHAN; an untabled safeguard of the same kind that does the same thing in another function of the module is that safeguard, moved
        here = {}
        for f in funcs:
            for kind, node in guard_sites(f.node):
                here.setdefault((f.fq, kind), set()).add(guard_key(kind, node, f.node))
        orphans = []
        for (fq, kind), keys in GUARD_TABLE.items():
            if fq.split(':')[0] == m:
                for k in keys:
                    if k not in here.get((fq, kind), ()):
                        orphans.append((kind, k))
        for f in funcs:
            n += 1
            for kind, node in guard_sites(f.node):
                key = guard_key(kind, node, f.node)
                allowed = GUARD_TABLE.get((f.fq, kind), {})
                if key not in allowed:
                    alt = guard_key(kind, node, f.node, resolve=True)        # `eps = torch.finfo(x.dtype).eps; x > eps` is `x > torch.finfo(x.dtype).eps`
                    if alt in allowed:
                        key = alt
                moved = key not in allowed and (kind, key) in orphans
                if moved:
                    orphans.remove((kind, key))
                res.inst({'function': f.fq, 'kind': kind, 'safeguard': key, 'tabled': allowed.get(key) or ('moved within the module' if moved else None)},
                         (f.fq, kind, key, getattr(node, 'lineno', 0)))
                if key not in allowed and not moved:
                    what = {'sat': 'saturates / sanitises a value', 'eps': 'adds (or scales by) an epsilon', 'exc': 'catches an exception without re-raising',
                            'thr': 'switches on a threshold (a small literal / a machine epsilon): a regime or guard of its own'}[kind]
                    res.add(Finding(rid, f, '`%s` %s (%s) and is not one of the reviewed safeguards of %s (%s): it changes the result for the inputs it touches - admissible '
                                    'ones unless shown otherwise' % (src(node)[:60].replace('\n', ' '), what, key, f.fq.split(':')[-1], ', '.join(sorted(allowed)) or 'none tabled'),
                                    node=node, construct='unreviewed safeguard|%s|%s' % (kind, key)))
    res.inst({'functions scanned': n}, 'scan')
    fx = ast.parse('def f(x):\n    n = x.norm(dim=-1) + 1e-8\n    y = (x / n).clamp(-1, 1)\n    try:\n        z = g(y)\n    except Exception:\n        z = y\n    return z\n').body[0]
    if sorted(k for k, _ in guard_sites(fx)) != ['eps', 'exc', 'sat']:
        raise AnalysisError('%s: fixtures no longer classified' % rid)
    return res


RNG_CALLS = {'rand', 'randn', 'randint', 'randperm', 'multinomial', 'normal', 'rand_like', 'randn_like', 'randint_like', 'bernoulli', 'poisson', 'sample', 'rsample', 'uniform_',
             'normal_', 'random_', 'exponential_', 'manual_seed', 'seed', 'shuffle', 'choice', 'set_rng_state'}
# functions whose JOB is to draw random numbers, with the number of draw sites read in each (2026-09, /repo ab36dfe)
RNG_TABLE = {
    'pypose.function.geometry:random_filter': 1, 'pypose.function.geometry:voxel_filter': 1,
    'pypose.lietensor.lietensor:LieType.randn_like': 1, 'pypose.lietensor.lietensor:SO3Type.randn': 1, 'pypose.lietensor.lietensor:so3Type.randn': 2,
    'pypose.lietensor.lietensor:SE3Type.randn': 1, 'pypose.lietensor.lietensor:se3Type.randn': 2, 'pypose.lietensor.lietensor:Sim3Type.randn': 1,
    'pypose.lietensor.lietensor:sim3Type.randn': 3, 'pypose.lietensor.lietensor:RxSO3Type.randn': 1, 'pypose.lietensor.lietensor:rxso3Type.randn': 2,
    'pypose.lietensor.utils:randn_like': 1, 'pypose.lietensor.utils:randn_so3': 1, 'pypose.lietensor.utils:randn_SO3': 1, 'pypose.lietensor.utils:randn_se3': 1,
    'pypose.lietensor.utils:randn_SE3': 1, 'pypose.lietensor.utils:randn_sim3': 1, 'pypose.lietensor.utils:randn_Sim3': 1, 'pypose.lietensor.utils:randn_rxso3': 1,
    'pypose.lietensor.utils:randn_RxSO3': 1, 'pypose.module.pf:PF.generate_particles': 1, 'pypose.module.pf:PF.resample_particles': 1,
}


def rng_sites(fnode):
    out = []
    for c in _own_nodes(fnode):
        if isinstance(c, ast.Call):
            d = dotted(c.func) or ''
            nm = (d or (c.func.attr if isinstance(c.func, ast.Attribute) else '')).split('.')[-1]
            if nm in RNG_CALLS and (d.startswith(('torch.', 'random.', 'np.')) or isinstance(c.func, ast.Attribute)):
                out.append(c)
    return out


@guarded
def rule_rng(repo, rid, modules):
    res = RuleResult(rid, 'only the %d functions whose job it is draw random numbers, each at the tabled number of sites: a draw anywhere else (a sanity probe, a random '
                     'tie-break, a jitter "for conditioning") shifts the generator - every later random result of the caller changes - and makes a deterministic function '
                     'random' % len(RNG_TABLE), floor=1)
    n = 0
    for m in modules:
        funcs = list(repo.functions_view(m))
        cur = {f.fq: len(rng_sites(f.node)) for f in funcs}
        budget = sum(max(0, k - cur.get(fq, 0)) for fq, k in RNG_TABLE.items() if fq.split(':')[0] == m)      # tabled draws that left their function: moved within the module
        for f in funcs:
            n += 1
            sites = rng_sites(f.node)
            if not sites and f.fq not in RNG_TABLE:
                continue
            allowed = RNG_TABLE.get(f.fq, 0)
            if len(sites) > allowed and budget >= len(sites) - allowed:
                budget -= len(sites) - allowed
                allowed = len(sites)
            res.inst({'function': f.fq, 'random draws': [src(c)[:50] for c in sites], 'tabled': allowed}, f.fq)
            for c in sites[allowed:] if len(sites) > allowed else []:
                res.add(Finding(rid, f, '`%s` draws from the random generator in %s (%d draw sites tabled): the state of the generator after the call - and with it every later '
                                'random result of the caller - changes, and the function\'s own result is no longer determined by its arguments'
                                % (src(c)[:60], f.fq.split(':')[-1], allowed), node=c, construct='unlisted random draw|' + norm_construct(c, f.node)))
    res.inst({'functions scanned': n}, 'scan')
    fx = ast.parse('def f(x):\n    probe = torch.randn(3)\n    return x @ probe\n').body[0]
    if len(rng_sites(fx)) != 1:
        raise AnalysisError('%s: fixture no longer classified' % rid)
    return res


# attributes each method writes on its object outside the constructor, as read on the pinned tree (2026-09, /repo ab36dfe): the carried state of the library
ATTR_TABLE = {
    'pypose.metric.ape_rpe:StampedSE3.reduce_to_ids': {'poses', 'timestamps'}, 'pypose.metric.ape_rpe:StampedSE3.align': {'poses'}, 'pypose.metric.ape_rpe:StampedSE3.type': {'poses'},
    'pypose.metric.ape_rpe:StampedSE3.cuda': {'poses'}, 'pypose.metric.ape_rpe:StampedSE3.cpu': {'poses'},
    'pypose.module.dynamics:System.forward': {'input', 'state'}, 'pypose.module.dynamics:LTV.set_refpoint': {'systime'}, 'pypose.module.dynamics:NLS.forward': {'input', 'state'},
    'pypose.module.dynamics:NLS.set_refpoint': {'_ref_f', '_ref_g', '_ref_input', '_ref_state', '_ref_t'},
    'pypose.module.imu_preintegrator:IMUPreintegrator.forward': {'Rij', 'cov', 'pos', 'rot', 'vel'}, 'pypose.module.lqr:LQR.lqr_backward': {'u_traj', 'x_traj'},
    'pypose.optim.optimizer:GaussNewton.step': {'last', 'loss'}, 'pypose.optim.optimizer:LevenbergMarquardt.step': {'last', 'loss', 'reject_count'},
    'pypose.optim.scheduler:StopOnPlateau.step': {'_continual', 'patience_count', 'steps'}, 'pypose.optim.solver:LSTSQ.forward': {'out'},
    'pypose.utils.stepper:_Stepper.reset': {'_continual', 'last', 'patience_count', 'steps'}, 'pypose.utils.stepper:ReduceToBason.step': {'_continual', 'last', 'patience_count', 'steps'},
}


def attr_writes(fnode):
    out = {}
    for n in _own_nodes(fnode):
        if isinstance(n, ast.Attribute) and isinstance(n.ctx, ast.Store) and isinstance(n.value, ast.Name) and n.value.id == 'self':
            out.setdefault(n.attr, n)
        elif isinstance(n, ast.Call) and dotted(n.func) == 'setattr' and len(n.args) >= 2 and dotted(n.args[0]) == 'self' and isinstance(n.args[1], ast.Constant):
            out.setdefault(str(n.args[1].value), n)
    return out


@guarded
def rule_attrs(repo, rid, modules):
    """The objects of these modules carry exactly the state the documentation describes (the table).  A value a method newly keeps on its object and that some
    method READS makes the result of a call depend on the calls before it: "the last gain kept for inspection" that a later step reuses, a flag set on the first
    call.  A new attribute that is only written is inert and is not reported."""
    res = RuleResult(rid, 'outside the constructors a method writes only the tabled attributes of its object; a newly kept attribute that a method of the class reads '
                     '(history dependence) is a finding', floor=1)
    n = 0
    for m in modules:
        mod = repo.module(m)
        for f in mod.functions.values():
            if f.cls is None or f.name in ('__init__', '__new__', '__setstate__', 'load_state_dict') or f.is_static():
                continue
            ws = attr_writes(f.node)
            if not ws and f.fq not in ATTR_TABLE:
                continue
            n += 1
            allowed = set(ATTR_TABLE.get(f.fq, set()))
            # the documented state of the CLASS is what its methods are tabled to write: a tabled attribute written from another method of the same class family (the
            # statement was moved into a helper method, the method was renamed) is still that state, not a newly kept value
            fam = [f.cls] + [c for c in repo.mro(f.cls)[1:] if not isinstance(c, str)] + repo.subclasses_of(f.cls)
            for c in fam:
                for g in c.methods.values():
                    allowed |= ATTR_TABLE.get(g.fq, set())
            new = sorted(set(ws) - allowed)
            res.inst({'function': f.fq, 'attributes written': sorted(ws), 'not tabled': new}, f.fq)
            for a in new:
                w = ws[a]
                # `self.tol = float(self.tol)`: an attribute re-written from itself only (a normalisation of configured state) carries nothing new
                st = next((x for x in ast.walk(f.node) if isinstance(x, ast.Assign) and any(y is w for t in x.targets for y in ast.walk(t))), None)
                if st is not None and len(st.targets) == 1 and st.targets[0] is w:
                    reads = {dotted(y) for y in ast.walk(st.value) if isinstance(y, ast.Attribute) and isinstance(y.value, ast.Name) and y.value.id == 'self'}
                    others = {y.id for y in ast.walk(st.value) if isinstance(y, ast.Name)} - {'self', 'float', 'int', 'bool', 'torch', 'abs', 'max', 'min'}
                    if reads == {'self.' + a} and not others:
                        continue
                readers = []
                # the readers are looked for in the whole family of the class: the bases it inherits from and the subclasses that inherit the writer
                family = [f.cls] + [c for c in repo.mro(f.cls)[1:] if not isinstance(c, str)] + repo.subclasses_of(f.cls)
                for g in [g for c in family for g in c.methods.values()]:
                    for x in ast.walk(g.node):
                        if isinstance(x, ast.Attribute) and x.attr == a and isinstance(x.ctx, ast.Load) and isinstance(x.value, ast.Name) and x.value.id == 'self':
                            if g is f and x.lineno > w.lineno:
                                continue                     # read back after the store in the same call: a local in disguise
                            readers.append(g.fq.split(':')[-1])
                    for x in ast.walk(g.node):
                        if isinstance(x, ast.Call) and dotted(x.func) in ('getattr', 'hasattr') and len(x.args) >= 2 and dotted(x.args[0]) == 'self' and \
                                isinstance(x.args[1], ast.Constant) and x.args[1].value == a and not (g is f and x.lineno > w.lineno):
                            readers.append(g.fq.split(':')[-1])
                if readers:
                    res.add(Finding(rid, f, '%s keeps `self.%s` on the object and %s reads it: the result of a call now depends on the calls made before it (the attribute is '
                                    'not part of the documented state of the class)' % (f.fq.split(':')[-1], a, sorted(set(readers))[0]), node=w,
                                    construct='new carried attribute|' + a))
    res.inst({'functions scanned': n}, 'scan')
    return res


CONTAINER_MUTATORS = {'sort', 'reverse', 'append', 'extend', 'insert', 'pop', 'remove', 'clear', 'setdefault', 'popitem'}


def arg_mutations(fnode):
    """[(call, param)]: a list / dict method that changes its receiver, applied to a parameter of the function (not *args / **kwargs, which the call owns) that
    has not been re-bound to a copy before"""
    a = fnode.args
    params = {x.arg for x in a.posonlyargs + a.args + a.kwonlyargs} - {'self', 'cls'}
    rebound = {}
    for n in _own_nodes(fnode):
        if isinstance(n, ast.Assign):
            for t in n.targets:
                for x in ([t] if isinstance(t, ast.Name) else [y for y in ast.walk(t) if isinstance(y, ast.Name)]):
                    if x.id in params:
                        rebound.setdefault(x.id, n.lineno)
    out = []
    for c in _own_nodes(fnode):
        if isinstance(c, ast.Call) and isinstance(c.func, ast.Attribute) and c.func.attr in CONTAINER_MUTATORS and isinstance(c.func.value, ast.Name) and c.func.value.id in params:
            p_ = c.func.value.id
            if p_ in rebound and rebound[p_] < c.lineno:
                continue
            out.append((c, p_))
    return out


@guarded
def rule_argmut(repo, rid, modules):
    res = RuleResult(rid, 'no function sorts, reverses, extends or pops a list / dict it was handed as an argument (`arg.sort()`, `arg.pop()` ...): the caller\'s '
                     'container is changed, and so is the meaning of its positions (per-axis sizes, ordered gains) for the rest of THIS call', floor=1)
    n = 0
    for m in modules:
        for f in repo.functions_view(m):
            n += 1
            for c, p_ in arg_mutations(f.node):
                res.inst({'function': f.fq, 'mutation': src(c)[:50], 'argument': p_}, (f.fq, src(c)[:50]))
                res.add(Finding(rid, f, '`%s` changes the container the caller passed as `%s` in place: the order / content the rest of the function (and the caller afterwards) '
                                'relies on is no longer the one that was given' % (src(c)[:50], p_), node=c, construct='argument container mutated|' + p_))
    res.inst({'functions scanned': n}, 'scan')
    fx = ast.parse('def f(pts, voxel, **kw):\n    voxel.sort(reverse=True)\n    kw.pop("a", None)\n    v2 = sorted(voxel)\n    return v2\n').body[0]
    if len(arg_mutations(fx)) != 1:
        raise AnalysisError('%s: fixture no longer classified' % rid)
    return res


GRAPH_CUTS = {'detach', 'item', 'tolist', 'numpy'}
DEVICE_MOVES = {'cpu', 'cuda', 'xpu', 'pin_memory'}
PRECISION = {'float', 'double', 'half', 'bfloat16', 'int', 'long', 'short', 'bool', 'char', 'byte'}
GRAD_MODES = {'no_grad', 'inference_mode', 'enable_grad', 'set_grad_enabled'}
GLOBAL_SETTERS = {'set_default_dtype', 'set_default_device', 'set_default_tensor_type', 'set_grad_enabled', 'set_printoptions', 'use_deterministic_algorithms', 'manual_seed',
                  'set_num_threads', 'set_float32_matmul_precision', 'filterwarnings', 'simplefilter', 'set_rng_state', 'set_flush_denormal', 'set_warn_always'}


def hygiene_sites(f):
    """[(key, node)] for a FuncInfo: operations that cut the autograd graph ('detach', 'item', 'tolist', 'numpy', '.data', 'float()' / 'int()' of a tensor expression),
    move between devices ('cpu', 'cuda'), change the numeric type ('float', 'long', '.to(torch.float32)' ...), switch the grad mode (with / decorator), or set
    process-wide state (torch.set_*, warnings filters, setattr on a module, os.environ)"""
    out = []
    for dn in f.decorator_names():
        if dn.split('.')[-1] in GRAD_MODES:
            out.append(('mode:' + dn.split('.')[-1], f.node))
    # a buffer registered from `x.detach().clone()` is a constant copy by construction: not a cut on a differentiable path; neither is a detached COPY bound to a
    # name that the function never reads again (kept for a log line / inspection)
    buffer_copies = set()
    for n in _own_nodes(f.node):
        if isinstance(n, ast.Assign) and len(n.targets) == 1 and isinstance(n.targets[0], ast.Name):
            v = n.value
            if isinstance(v, ast.Call) and isinstance(v.func, ast.Attribute) and v.func.attr == 'clone' and isinstance(v.func.value, ast.Call) and \
                    isinstance(v.func.value.func, ast.Attribute) and v.func.value.func.attr == 'detach':
                nm = n.targets[0].id
                if not any(isinstance(x, ast.Name) and x.id == nm and isinstance(x.ctx, ast.Load) for x in ast.walk(f.node)):
                    buffer_copies.add(id(v.func.value))
    for n in _own_nodes(f.node):
        if isinstance(n, ast.Call) and isinstance(n.func, ast.Attribute) and n.func.attr == 'register_buffer':
            for x in ast.walk(n):
                if isinstance(x, ast.Call) and isinstance(x.func, ast.Attribute) and x.func.attr == 'clone' and isinstance(x.func.value, ast.Call) and \
                        isinstance(x.func.value.func, ast.Attribute) and x.func.value.func.attr == 'detach':
                    buffer_copies.add(id(x.func.value))
    for n in _own_nodes(f.node):
        if isinstance(n, ast.Call):
            d = dotted(n.func) or ''
            nm = (d or (n.func.attr if isinstance(n.func, ast.Attribute) else '')).split('.')[-1]
            meth = isinstance(n.func, ast.Attribute) and not d.startswith(('torch.', 'math.', 'np.', 'warnings.', 'os.'))
            if meth and not n.args and not n.keywords and nm in GRAPH_CUTS:
                # the system clock is an integer buffer: it has no graph to cut
                if id(n) not in buffer_copies and not (nm == 'detach' and dotted(n.func.value) in ('self.systime', 'self._t')):
                    out.append(('cut:' + nm, n))
            elif meth and nm in DEVICE_MOVES:
                out.append(('dev:' + nm, n))
            elif meth and not n.args and not n.keywords and nm in PRECISION:
                out.append(('prec:' + nm, n))
            elif meth and nm in ('to', 'type') and any((dotted(a) or '').startswith('torch.') and (dotted(a) or '').split('.')[-1] in
                                                   ('float16', 'float32', 'float64', 'bfloat16', 'half', 'float', 'double', 'int32', 'int64', 'long', 'int', 'uint8', 'bool')
                                                   for a in list(n.args) + [k.value for k in n.keywords]):
                out.append(('prec:to-dtype', n))
            elif meth and nm == 'to' and any(isinstance(a, ast.Constant) and isinstance(a.value, str) for a in n.args):
                out.append(('dev:to-literal', n))
            elif isinstance(n.func, ast.Name) and n.func.id in ('float', 'int') and n.args and not isinstance(n.args[0], ast.Constant) and \
                    any(isinstance(x, ast.Call) and ((dotted(x.func) or '').startswith('torch.') or (isinstance(x.func, ast.Attribute) and x.func.attr in ('item', 'norm', 'sum', 'max', 'min')))
                        or isinstance(x, ast.Subscript) for x in ast.walk(n.args[0])):
                out.append(('cut:py-' + n.func.id, n))
            elif nm in GLOBAL_SETTERS and d.startswith(('torch.', 'warnings.', 'random.', 'np.')):
                out.append(('glob:' + nm, n))
            elif d == 'setattr' and n.args and not (isinstance(n.args[0], ast.Name) and n.args[0].id in ('self', 'cls')):
                out.append(('glob:setattr', n))
        elif isinstance(n, ast.With):
            for it in n.items:
                e = it.context_expr.func if isinstance(it.context_expr, ast.Call) else it.context_expr
                if (dotted(e) or '').split('.')[-1] in GRAD_MODES:
                    out.append(('mode:' + (dotted(e) or '').split('.')[-1], n))
        elif isinstance(n, ast.Attribute) and n.attr == 'data' and isinstance(n.ctx, ast.Load) and not (isinstance(n.value, ast.Name) and n.value.id in ('self',)):
            out.append(('cut:.data', n))
        elif isinstance(n, ast.Subscript) and isinstance(n.ctx, (ast.Store, ast.Del)) and (dotted(n.value) or '') in ('os.environ',):
            out.append(('glob:environ', n))
    return out


# (function, key) -> (number of sites read on the pinned tree, why they are harmless there)            (2026-09, /repo ab36dfe)
HYGIENE_TABLE = {
    ('pypose.function.geometry:voxel_filter', 'cut:item'): (1, 'number of points of a voxel as the bound of a random integer'),
    ('pypose.lietensor.convert:mat2SO3', 'mode:no_grad'): (1, 'the validity checks (orthogonality, determinant) need no graph'),
    ('pypose.lietensor.lietensor:SO3Type.randn', 'cut:detach'): (1, 'random sample: a leaf'), ('pypose.lietensor.lietensor:SE3Type.randn', 'cut:detach'): (1, 'random sample: a leaf'),
    ('pypose.lietensor.lietensor:se3Type.randn', 'cut:detach'): (1, 'random sample: a leaf'), ('pypose.lietensor.lietensor:Sim3Type.randn', 'cut:detach'): (1, 'random sample: a leaf'),
    ('pypose.lietensor.lietensor:sim3Type.randn', 'cut:detach'): (1, 'random sample: a leaf'), ('pypose.lietensor.lietensor:RxSO3Type.randn', 'cut:detach'): (1, 'random sample: a leaf'),
    ('pypose.lietensor.lietensor:retain_ltype', 'glob:setattr'): (2, 'temporary patch of torch internals, undone in the finally block (C06.PATCH)'),
    ('pypose.metric.ape_rpe:StampedSE3.reduce_to_ids', 'cut:tolist'): (1, 'index list'), ('pypose.metric.ape_rpe:StampedSE3.reduce_to_ids', 'prec:long'): (2, 'indices'),
    ('pypose.metric.ape_rpe:StampedSE3.align', 'cut:.data'): (3, 'metric evaluation, no gradients promised'),
    ('pypose.metric.ape_rpe:StampedSE3.cuda', 'dev:cuda'): (1, 'the explicit device move this method is'), ('pypose.metric.ape_rpe:StampedSE3.cpu', 'dev:cpu'): (1, 'the explicit device move this method is'),
    ('pypose.metric.ape_rpe:matching_time_indices', 'cut:tolist'): (2, 'index lists'), ('pypose.metric.ape_rpe:pairs_by_frames', 'cut:tolist'): (4, 'index lists'),
    ('pypose.metric.ape_rpe:pairs_by_frames', 'cut:py-int'): (1, 'frame step'), ('pypose.metric.ape_rpe:pairs_by_dist', 'cut:item'): (1, 'index'),
    ('pypose.metric.ape_rpe:pairs_by_dist', 'cut:py-float'): (1, 'travelled distance used for pair selection only'), ('pypose.metric.ape_rpe:pair_id', 'cut:py-int'): (1, 'frame step'),
    ('pypose.metric.ape_rpe:ape', 'cut:.data'): (1, 'metric evaluation'), ('pypose.metric.ape_rpe:rpe', 'cut:.data'): (1, 'metric evaluation'),
    ('pypose.metric.ape_rpe:StampedSE3.__init__', 'prec:to-dtype'): (1, 'timestamps kept in float64'),
    ('pypose.function.geometry:voxel_filter', 'prec:to-dtype'): (1, 'voxel indices are integers'),
    ('pypose.module.imu_preintegrator:IMUPreintegrator.forward', 'cut:detach'): (4, 'the covariance propagation is documented as not differentiated'),
    ('pypose.module.mpc:MPC.forward', 'mode:no_grad'): (1, 'the iLQR iterations before the last, differentiable, solve (documented)'),
    ('pypose.module.pnp:EPnP._refine', 'cut:detach'): (1, 'step-size bookkeeping of the refinement'),
    ('pypose.optim.corrector:FastTriggs.forward', 'mode:enable_grad'): (1, "rho' needs a graph inside the optimiser's no_grad step"),
    ('pypose.optim.corrector:Triggs.compute_grads', 'mode:enable_grad'): (1, "rho', rho'' need a graph inside the optimiser's no_grad step"),
    ('pypose.optim.functional:modjac', 'mode:enable_grad'): (1, 'differentiation inside the no_grad step'), ('pypose.optim.functional:modjacrev', 'mode:enable_grad'): (1, 'same'),
    ('pypose.optim.functional:modjacfwd', 'mode:enable_grad'): (1, 'same'),
    ('pypose.optim.optimizer:GaussNewton.step', 'mode:no_grad'): (1, 'an optimiser step is not differentiated (torch convention)'),
    ('pypose.optim.optimizer:LevenbergMarquardt.step', 'mode:no_grad'): (1, 'same'), ('pypose.optim.scheduler:StopOnPlateau.optimize', 'mode:no_grad'): (1, 'same'),
    ('pypose.optim.optimizer:_parameter_update_shape', 'cut:py-int'): (1, 'a shape'),
    ('pypose.sparse.ops:bsr_bsc_matmul', 'cut:item'): (3, 'index arithmetic of the block merge-join'), ('pypose.sparse.ops:bsr_bsc_matmul', 'cut:py-int'): (3, 'same'),
}


@guarded
def rule_hygiene(repo, rid, modules):
    """detach / .item() / .data / no_grad cut the autograd graph; .cpu() / .float() change where and how precisely the numbers live; torch.set_* change the process.  Each
    such site of the pinned tree was read and is tabled with the reason it is harmless THERE.  A new one ("to save memory", "it is only a diagnostic") on a path
    that is differentiated, or run in float64 / on a GPU, silently returns zero gradients, float32 digits or a CPU tensor."""
    res = RuleResult(rid, 'graph cuts (detach / item / tolist / numpy / .data / float(tensor)), device moves, numeric-type conversions, grad-mode switches and process-wide '
                     'setters occur only at the %d reviewed (function, kind) entries of HYGIENE_TABLE, no more often than tabled' % len(HYGIENE_TABLE), floor=1)
    n = 0
    for m in modules:
        funcs = list(repo.functions_view(m))
        # sites tabled for a function of this module that are no longer there (function renamed, statement moved into a helper): a budget that an untabled site of
        # the same kind elsewhere in the module may use - the statement was moved, not added
        cur = {}
        for f in funcs:
            for key, node in hygiene_sites(f):
                cur[(f.fq, key)] = cur.get((f.fq, key), 0) + 1
        budget = {}
        for (fq, key), (allowed, why) in HYGIENE_TABLE.items():
            if fq.split(':')[0] == m and allowed > cur.get((fq, key), 0):
                budget[key] = budget.get(key, 0) + allowed - cur.get((fq, key), 0)
        for f in funcs:
            n += 1
            got = {}
            for key, node in hygiene_sites(f):
                got.setdefault(key, []).append(node)
            for key, nodes in sorted(got.items()):
                allowed, why = HYGIENE_TABLE.get((f.fq, key), (0, None))
                if len(nodes) > allowed and budget.get(key, 0) >= len(nodes) - allowed:
                    budget[key] -= len(nodes) - allowed
                    allowed, why = len(nodes), 'moved within the module'
                res.inst({'function': f.fq, 'kind': key, 'sites': len(nodes), 'tabled': allowed, 'reason': why}, (f.fq, key))
                if len(nodes) > allowed:
                    x = nodes[-1] if allowed else nodes[0]
                    what = {'cut': 'cuts the autograd graph (the value becomes a constant for every gradient that should flow through it)', 'dev': 'moves the data to a fixed device',
                            'prec': 'converts the numeric type (digits / integer truncation)', 'mode': 'switches the grad mode for the code under it',
                            'glob': 'sets process-wide state that outlives the call'}[key.split(':')[0]]
                    res.add(Finding(rid, f, '`%s` %s; %s has %d such site(s) reviewed (%s) and now %d' % (src(x)[:60].replace('\n', ' ') if not isinstance(x, (ast.FunctionDef, ast.With)) else key,
                                                                                                    what, f.fq.split(':')[-1], allowed, key, len(nodes)), node=x,
                                    construct='unreviewed %s|%d' % (key, len(nodes))))
    res.inst({'functions scanned': n}, 'scan')
    return res


ARGATTR_TABLE = {('pypose.lietensor.utils:_LieTensor_wrapper_add_docstr', '__doc__'): 'documentation string of a freshly created wrapper function'}


def argattr_writes(fnode):
    """[(stmt, base, param, attr)]: an attribute of an object the function RECEIVED is written (`arg.x = ..`, `arg.x -= 1`), also through `self.a` bound to the
    argument in the same function (`self.stepper = stepper ... self.stepper.max_steps -= 1`)"""
    a = fnode.args
    params = {x.arg for x in a.posonlyargs + a.args + a.kwonlyargs} - {'self', 'cls'}
    alias = {}
    for n in _own_nodes(fnode):
        if isinstance(n, ast.Assign) and len(n.targets) == 1 and isinstance(n.targets[0], ast.Attribute) and dotted(n.targets[0].value) == 'self':
            # self.a = <param>  /  self.a = Default() if <param> is None else <param>
            v = n.value
            cands = [v] if not isinstance(v, ast.IfExp) else [v.body, v.orelse]
            for c in cands:
                if isinstance(c, ast.Name) and c.id in params:
                    alias['self.' + n.targets[0].attr] = c.id
    out = []
    for n in _own_nodes(fnode):
        tgts = []
        if isinstance(n, ast.AugAssign):
            tgts = [n.target]
        elif isinstance(n, ast.Assign):
            tgts = [t for t in n.targets if isinstance(t, ast.Attribute)]
        for t in tgts:
            if isinstance(t, ast.Attribute):
                base = dotted(t.value)
                if base in params:
                    out.append((n, base, base, t.attr))
                elif base in alias:
                    out.append((n, base, alias[base], t.attr))
    return out


@guarded
def rule_argattr(repo, rid, modules):
    res = RuleResult(rid, 'no function re-configures an object it was handed: it writes no attribute of an argument (`arg.x = ..`, `arg.x -= 1`), directly or through '
                     '`self.a` bound to that argument - the caller\'s object (a stepper, a strategy, a system) is shared with everything else the caller gives it to', floor=1)
    n = 0
    for m in modules:
        for f in repo.functions_view(m):
            n += 1
            for st, base, par, attr in argattr_writes(f.node):
                tab = ARGATTR_TABLE.get((f.fq, attr))
                res.inst({'function': f.fq, 'write': src(st)[:60], 'argument': par, 'tabled': tab}, (f.fq, src(st)[:60]))
                if tab is None:
                    res.add(Finding(rid, f, '`%s` changes `%s` of the object the caller passed as `%s`: every other holder of that object - a second controller built with the same '
                                    'stepper, the caller\'s own loop - sees the changed configuration, and each further construction changes it again' % (src(st)[:60], attr, par),
                                    node=st, construct='argument object re-configured|%s.%s' % (par, attr)))
    res.inst({'functions scanned': n}, 'scan')
    fx = ast.parse('class A:\n    def __init__(self, stepper=None):\n        self.stepper = D() if stepper is None else stepper\n        self.stepper.max_steps -= 1\n        self.n = 0\n').body[0].body[0]
    if len(argattr_writes(fx)) != 1:
        raise AnalysisError('%s: fixture no longer classified' % rid)
    return res


_MUT_LITERALS = (ast.Dict, ast.List, ast.Set, ast.DictComp, ast.ListComp, ast.SetComp)
_MUT_CTORS = {'dict', 'list', 'set', 'defaultdict', 'OrderedDict', 'collections.defaultdict', 'collections.OrderedDict', 'deque', 'collections.deque', 'WeakKeyDictionary',
              'weakref.WeakKeyDictionary', 'WeakValueDictionary', 'weakref.WeakValueDictionary'}
_CONT_MUTATORS = CONTAINER_MUTATORS | {'update', 'add', 'discard', 'appendleft'}
# defaults that are objects built once at import time, and the memoising decorators of the pinned tree (2026-09, /repo ab36dfe)
DEFAULT_OBJ_TABLE = {
    ('pypose.lietensor.lietensor:LieTensor.__torch_function__', '{}'): 'the torch protocol default; never written',
    ('pypose.module.imu_preintegrator:IMUPreintegrator.__init__', 'torch.zeros(3)'): 'default initial position / velocity, copied into the buffers (C16.BUFCOPY)',
    ('pypose.module.imu_preintegrator:IMUPreintegrator.__init__', 'identity_SO3()'): 'default initial rotation, copied into the buffer (C16.BUFCOPY)',
}
CACHE_TABLE = {'pypose:_load_optional_backend_attr': 'lookup of an optional backend attribute by name (strings only)'}
GLOBAL_REBIND_TABLE = {('pypose.optim.optimizer:_load_sparse_backend_globals', 'jacobian'): 'lazy import of the optional sparse backend (a function object, loaded once)',
                       ('pypose.optim.optimizer:_load_sparse_backend_globals', 'diagonal_op_'): 'lazy import of the optional sparse backend (a function object, loaded once)'}


def _is_mut_value(v):
    return isinstance(v, _MUT_LITERALS) or (isinstance(v, ast.Call) and (dotted(v.func) or '') in _MUT_CTORS)


def shared_state_sites(repo, f):
    """[(node, what)] for a FuncInfo:
      - a write into a module-level object from function scope (NAME[k] = v, NAME.append / update / reverse(..), `global NAME` re-binding): the object is one per
        process, every caller and every instance sees the write;
      - a write through self / cls into a container that lives on the CLASS (declared in the class body, not re-created per instance in __init__);
      - a default argument that is an object built at import time (a call or a mutable literal) and is not tabled;
      - a memoising decorator (lru_cache / cache) that is not tabled."""
    out = []
    mod = f.module
    fnode = f.node
    a = fnode.args
    local = {x.arg for x in a.posonlyargs + a.args + a.kwonlyargs} | ({a.vararg.arg} if a.vararg else set()) | ({a.kwarg.arg} if a.kwarg else set())
    globs = set()
    for n in _own_nodes(fnode):
        if isinstance(n, ast.Global):
            globs |= set(n.names)
        elif isinstance(n, ast.Name) and isinstance(n.ctx, ast.Store) and n.id not in globs:
            local.add(n.id)
    modnames = {k for k, v in mod.assigns.items() if k not in local and not k.startswith('__')}

    # a local bound to a module-level object is that object
    modalias = {}
    for n in _own_nodes(fnode):
        if isinstance(n, ast.Assign) and len(n.targets) == 1 and isinstance(n.targets[0], ast.Name) and isinstance(n.value, ast.Name) and \
                n.value.id in mod.assigns and n.value.id not in (local - {n.targets[0].id}) and _is_mut_value(mod.assigns.get(n.value.id)):
            modalias[n.targets[0].id] = n.value.id

    def modroot(e):
        while isinstance(e, (ast.Subscript, ast.Attribute)):
            e = e.value
        if isinstance(e, ast.Name) and e.id in modalias:
            return modalias[e.id]
        return e.id if isinstance(e, ast.Name) and e.id in modnames else None
    for n in _own_nodes(fnode):
        if isinstance(n, (ast.Assign, ast.AugAssign)):
            tgts = n.targets if isinstance(n, ast.Assign) else [n.target]
            for t in tgts:
                if isinstance(t, ast.Subscript) and modroot(t) and isinstance(t.value, ast.Name):
                    out.append((n, 'writes into the module-level object `%s`' % modroot(t)))
                elif isinstance(t, ast.Name) and t.id in globs and (f.fq, t.id) not in GLOBAL_REBIND_TABLE:
                    out.append((n, 're-binds the module-level name `%s`' % t.id))
        elif isinstance(n, ast.Call) and isinstance(n.func, ast.Attribute) and n.func.attr in _CONT_MUTATORS and isinstance(n.func.value, ast.Name) and \
                ((n.func.value.id in modnames and _is_mut_value(mod.assigns.get(n.func.value.id))) or n.func.value.id in modalias):
            out.append((n, 'changes the module-level container `%s` in place' % modalias.get(n.func.value.id, n.func.value.id)))
    # class-level containers written through self / cls
    if f.cls is not None:
        cls_cont = {}
        for c in repo.mro(f.cls):
            node = getattr(c, 'node', None)
            if node is None:
                continue
            for b in node.body:
                if isinstance(b, ast.Assign) and len(b.targets) == 1 and isinstance(b.targets[0], ast.Name) and _is_mut_value(b.value):
                    cls_cont.setdefault(b.targets[0].id, c)
        per_instance = set()
        for c in repo.mro(f.cls):
            ini = getattr(c, 'methods', {}).get('__init__') if hasattr(c, 'methods') else None
            if ini is not None:
                for x in ast.walk(ini.node):
                    if isinstance(x, ast.Attribute) and isinstance(x.ctx, ast.Store) and isinstance(x.value, ast.Name) and x.value.id == 'self':
                        per_instance.add(x.attr)
        shared = {k for k in cls_cont if k not in per_instance and not k.startswith('__')}
        for n in _own_nodes(fnode):
            if isinstance(n, (ast.Assign, ast.AugAssign)):
                tgts = n.targets if isinstance(n, ast.Assign) else [n.target]
                for t in tgts:
                    if isinstance(t, ast.Subscript) and isinstance(t.value, ast.Attribute) and dotted(t.value.value) in ('self', 'cls', f.cls.name) and t.value.attr in shared:
                        out.append((n, 'writes into `%s`, a container declared on the CLASS (one for all instances)' % t.value.attr))
            elif isinstance(n, ast.Call) and isinstance(n.func, ast.Attribute) and n.func.attr in _CONT_MUTATORS and isinstance(n.func.value, ast.Attribute) and \
                    dotted(n.func.value.value) in ('self', 'cls', f.cls.name) and n.func.value.attr in shared:
                out.append((n, 'changes `%s`, a container declared on the CLASS (one for all instances), in place' % n.func.value.attr))
    for d in list(a.defaults) + [x for x in a.kw_defaults if x is not None]:
        if (isinstance(d, _MUT_LITERALS) or isinstance(d, ast.Call)) and (f.fq, src(d)) not in DEFAULT_OBJ_TABLE:
            out.append((d, 'is a default argument built ONCE at import time: every call that omits the argument gets the same object (and whatever earlier calls did to it, '
                           'or the configuration of the process at import)'))
    for dn in f.decorator_names():
        if dn.split('.')[-1] in ('lru_cache', 'cache', 'cached_property') and f.fq not in CACHE_TABLE:
            out.append((fnode, 'memoises results process-wide (`%s`): a returned tensor is one object for all callers, and the key ignores whatever is not an argument' % dn))
    return out


@guarded
def rule_sharedstate(repo, rid, modules):
    res = RuleResult(rid, 'no function keeps state that is shared by the whole process or by all instances of a class: no write into a module-level object, no write through '
                     'self / cls into a container declared on the class, no default argument that is an object built at import time, no memoising decorator - beyond the %d '
                     'tabled sites' % (len(DEFAULT_OBJ_TABLE) + len(CACHE_TABLE)), floor=1)
    n = 0
    for m in modules:
        for f in repo.functions_view(m):
            n += 1
            for node, what in shared_state_sites(repo, f):
                res.inst({'function': f.fq, 'site': src(node)[:50] if not isinstance(node, ast.FunctionDef) else 'decorator'}, (f.fq, what[:40], getattr(node, 'lineno', 0)))
                res.add(Finding(rid, f, '`%s` %s: two objects / two calls / two configurations in one process interact through it' %
                                (src(node)[:50].replace('\n', ' ') if not isinstance(node, ast.FunctionDef) else f.fq.split(':')[-1], what), node=node,
                                construct='shared state|' + what[:50]))
    res.inst({'functions scanned': n}, 'scan')
    return res


@guarded
def rule_globals(repo, rid):
    """A process-wide torch / warnings / environment setter changes the behaviour of EVERY function of the package that runs afterwards (default dtype, matmul
    precision, grad mode, deterministic flags), whatever module it sits in: scanned over the whole package for every property."""
    res = RuleResult(rid, 'nowhere in the package a function sets process-wide state (torch.set_default_dtype / set_float32_matmul_precision / set_grad_enabled / '
                     'use_deterministic_algorithms / manual_seed, warnings filters, os.environ, setattr on a module) beyond the tabled retain_ltype patch', floor=1)
    n = 0
    for mname, m in sorted(repo.modules.items()):
        if mname.startswith('pypose.testing') or mname == 'pypose.utils.collect_env':
            continue
        for f in m.functions.values():
            n += 1
            sites = [(k, x) for k, x in hygiene_sites(f) if k.startswith('glob:')]
            got = {}
            for k, x in sites:
                got.setdefault(k, []).append(x)
            for k, nodes in got.items():
                allowed, why = HYGIENE_TABLE.get((f.fq, k), (0, None))
                res.inst({'function': f.fq, 'setter': k, 'sites': len(nodes), 'tabled': allowed}, (f.fq, k))
                if len(nodes) > allowed:
                    res.add(Finding(rid, f, '`%s` sets process-wide state in %s and never scopes it: every later call of any function of the package (and of the user\'s '
                                    'program) runs under the changed setting' % (src(nodes[-1])[:60], f.fq.split(':')[-1]), node=nodes[-1], construct='process-wide setter|' + k))
    res.inst({'functions scanned': n}, 'scan')
    return res


RANKCMP_TABLE = {                                          # function -> (number of reviewed rank relations, why)
    'pypose.module.lqr:LQR.lqr_backward': (1, 'the extra batch axis the Jacobian of a single-batch NLS keeps (C14.SQZ)'),
    'pypose.optim.solver:CG.forward': (2, 'b given as a vector or as a column, documented (C10.GUESS)'),
}


def rank_relations(fnode):
    """[(node, names)]: an expression that relates the RANKS of two different tensors (a.ndim == b.ndim, a.dim() - b.dim()): the form of one input is read off the
    rank of another.  Whenever one of the two may carry batch axes the other does not (a shared matrix with batched offsets, a full weight for as many items as the
    residual has components) two forms have the same rank difference and one of them is silently taken for the other."""
    def ranks(e):
        out = []
        for x in ast.walk(e):
            if isinstance(x, ast.Attribute) and x.attr == 'ndim':
                out.append(dotted(x.value) or src(x.value))
            elif isinstance(x, ast.Call) and isinstance(x.func, ast.Attribute) and x.func.attr in ('dim', 'ndimension') and not x.args:
                out.append(dotted(x.func.value) or src(x.func.value))
        return out
    out, seen = [], set()
    for n in _own_nodes(fnode):
        if isinstance(n, ast.Compare):
            per = [set(ranks(o)) for o in [n.left] + list(n.comparators)]
            names_ = set().union(*per)
            if len(names_) >= 2 and sum(1 for p_ in per if p_) >= 2:
                out.append((n, sorted(names_)))
                for x in ast.walk(n):
                    seen.add(id(x))
    for n in _own_nodes(fnode):
        if isinstance(n, ast.BinOp) and isinstance(n.op, ast.Sub) and id(n) not in seen:
            l, r = ranks(n.left), ranks(n.right)
            if l and r and set(l) != set(r):
                out.append((n, sorted(set(l) | set(r))))
    return out


@guarded
def rule_rankcmp(repo, rid, modules):
    res = RuleResult(rid, 'the form of an input is never read off its rank RELATIVE to another tensor (a.ndim == b.ndim, a.dim() - b.dim()) beyond the %d reviewed sites: with '
                     'batch axes on one of the two, two documented forms share a rank difference' % len(RANKCMP_TABLE), floor=1)
    n = 0
    for m in modules:
        for f in repo.functions_view(m):
            n += 1
            rels = rank_relations(f.node)
            allowed = RANKCMP_TABLE.get(f.fq, (0, None))[0]
            for k_, (node, names) in enumerate(rels):
                key = (f.fq, '|'.join(x.replace('self.', '') for x in names))
                res.inst({'function': f.fq, 'rank relation': src(node)[:50], 'tabled': RANKCMP_TABLE.get(f.fq)}, (f.fq, k_))
                if len(rels) > allowed and k_ >= allowed:
                    res.add(Finding(rid, f, '`%s` decides how to read one tensor from its rank relative to another (%s): when only one of them is batched (a shared matrix with '
                                    'per-item offsets, a full weight for as many items as the residual has components) a documented form has the rank of the other form and '
                                    'is silently interpreted as it' % (src(node)[:60], ' vs '.join(names)), node=node, construct='rank relation|' + key[1]))
    res.inst({'functions scanned': n}, 'scan')
    return res


def duck_sequence_tests(fnode):
    """[(node, what)]: "is this argument already a list of things?" decided by a DUCK test - isinstance(x, Iterable / Sequence / Sized / Container),
    hasattr(x, '__iter__' / '__len__' / '__getitem__'), a try: iter(x) - where the single objects the argument may be are iterable themselves: an nn.Module container
    (Sequential, ModuleList), a Tensor, a LieTensor, a str.  A single Sequential kernel is then taken apart into its stages; a single tensor weight into its rows."""
    out = []
    for n in _own_nodes(fnode):
        if isinstance(n, ast.Call) and dotted(n.func) == 'isinstance' and len(n.args) == 2:
            names = [dotted(x) or src(x) for x in (n.args[1].elts if isinstance(n.args[1], ast.Tuple) else [n.args[1]])]
            bad = [x for x in names if x.split('.')[-1] in ('Iterable', 'Sequence', 'Sized', 'Container', 'Collection', 'Iterator', 'Reversible')]
            if bad:
                out.append((n, 'isinstance(.., %s)' % bad[0]))
        elif isinstance(n, ast.Call) and dotted(n.func) == 'hasattr' and len(n.args) == 2 and isinstance(n.args[1], ast.Constant) and \
                n.args[1].value in ('__iter__', '__len__', '__getitem__', '__next__'):
            out.append((n, "hasattr(.., '%s')" % n.args[1].value))
    return out


DUCK_TABLE = {
    'pypose.lietensor.lietensor:LieType.to_tuple': 'size arguments: ints or iterables of ints (an int is not iterable)',
    'pypose.lietensor.lietensor:se3Type.randn': 'sigma: a number or a sequence of numbers', 'pypose.lietensor.lietensor:sim3Type.randn': 'sigma: a number or a sequence of numbers',
    'pypose.lietensor.lietensor:rxso3Type.randn': 'sigma: a number or a sequence of numbers',
}


@guarded
def rule_ducklist(repo, rid, modules):
    res = RuleResult(rid, 'whether an argument is one object or a list of objects is decided by the concrete types tuple / list, never by a duck test (Iterable, Sequence, '
                     '__iter__, __len__): the single objects these arguments hold - nn.Module containers, tensors, LieTensors - are iterable themselves', floor=1)
    n = 0
    for m in modules:
        for f in repo.functions_view(m):
            n += 1
            for node, what in duck_sequence_tests(f.node):
                res.inst({'function': f.fq, 'test': src(node)[:50], 'tabled': DUCK_TABLE.get(f.fq)}, (f.fq, src(node)[:50]))
                if f.fq in DUCK_TABLE:
                    continue
                res.add(Finding(rid, f, '`%s` (%s) treats everything iterable as a list of items: a single nn.Sequential / ModuleList kernel is split into its stages, a single '
                                'tensor into its rows - silently, with a result of the expected shape' % (src(node)[:60], what), node=node, construct='duck sequence test|' + what))
    res.inst({'functions scanned': n}, 'scan')
    fx = ast.parse('def f(k):\n    a = list(k) if isinstance(k, Iterable) else [k]\n    b = k if isinstance(k, (tuple, list)) else [k]\n    return a, b\n').body[0]
    if len(duck_sequence_tests(fx)) != 1:
        raise AnalysisError('%s: fixture no longer classified' % rid)
    return res


def shape_form_tests(fnode):
    """[(node, names)]: a BRANCH (if / ternary / while, not an assert) that compares the shapes of two different tensors: "P has the shape of x, so it is a vector of
    variances".  A batch of n states makes a full (n, n) matrix have the shape of x."""
    def shapes(e):
        return [dotted(x.value) or src(x.value) for x in ast.walk(e) if isinstance(x, ast.Attribute) and x.attr in ('shape', 'lshape')]
    out = []
    for n in _own_nodes(fnode):
        if isinstance(n, (ast.If, ast.IfExp, ast.While)) and not (isinstance(n, ast.If) and as_assert(n) is not None):      # `if not ..: raise` is an assertion spelled out
            for c in ast.walk(n.test):
                if isinstance(c, ast.Compare) and any(isinstance(o, (ast.Eq, ast.NotEq)) for o in c.ops):
                    per = [set(shapes(o)) for o in [c.left] + list(c.comparators)]
                    names_ = set().union(*per)
                    if len(names_) >= 2 and sum(1 for p_ in per if p_) >= 2:
                        out.append((c, sorted(names_)))
    return out


@guarded
def rule_shapeform(repo, rid, modules):
    res = RuleResult(rid, 'no branch reads the FORM of an argument off an equality between its shape and the shape of another tensor (`if P.shape == x.shape: P = diag_embed(P)`): '
                     'for particular extents (a batch of n states, as many items as components) a documented form has exactly that shape too', floor=1)
    n = 0
    for m in modules:
        for f in repo.functions_view(m):
            n += 1
            for node, names in shape_form_tests(f.node):
                res.inst({'function': f.fq, 'test': src(node)[:60]}, (f.fq, src(node)[:60]))
                res.add(Finding(rid, f, '`%s` decides how to interpret an argument by comparing its shape with the shape of another tensor (%s): a batched input whose extent '
                                'happens to equal the item dimension (n states of dimension n with one shared n x n matrix) has that shape as well and is silently taken for the '
                                'other form' % (src(node)[:60], ' vs '.join(names)), node=node, construct='shape equality decides the form|' + '|'.join(names)))
    res.inst({'functions scanned': n}, 'scan')
    fx = ast.parse('def f(x, P):\n    assert P.shape[-1] == x.shape[-1]\n    if P.shape == x.shape:\n        P = torch.diag_embed(P)\n    return P\n').body[0]
    if len(shape_form_tests(fx)) != 1:
        raise AnalysisError('%s: fixture no longer classified' % rid)
    return res


def collab_attr_writes(fnode):
    """[(stmt, target)]: `self.a.b = ..` / `self.a.b += ..`: an attribute of an object this object merely HOLDS (its model, its stepper, its solver) is written"""
    out = []
    for n in _own_nodes(fnode):
        tgts = n.targets if isinstance(n, ast.Assign) else ([n.target] if isinstance(n, ast.AugAssign) else [])
        for t in tgts:
            for x in ([t] if not isinstance(t, ast.Tuple) else t.elts):
                if isinstance(x, ast.Attribute) and isinstance(x.value, ast.Attribute) and dotted(x.value.value) == 'self':
                    # `self.system.systime = 0`: a plain literal is a reset of the collaborator to its initial value - what the reset() call of the same function does -
                    # not a setting that depends on the data of this call
                    if isinstance(n, ast.Assign) and isinstance(n.value, ast.Constant) and n.value.value in (0, None, False):
                        continue
                    out.append((n, x))
    return out


@guarded
def rule_collabattr(repo, rid, modules):
    res = RuleResult(rid, 'no method writes an attribute of an object its own object merely holds (`self.model.systime = t`, `self.stepper.max_steps -= 1`): the collaborator '
                     'belongs to the caller too; a temporary setting that is restored by a plain statement stays behind whenever the code in between raises', floor=1)
    n = 0
    for m in modules:
        for f in repo.functions_view(m):
            n += 1
            for st, tgt in collab_attr_writes(f.node):
                res.inst({'function': f.fq, 'write': src(st)[:60]}, (f.fq, src(st)[:60]))
                res.add(Finding(rid, f, '`%s` sets `%s` on the collaborator `%s`: the object is shared with the caller (and with every other user of it); set temporarily and '
                                'restored outside a `finally`, the setting survives every exception raised in between' % (src(st)[:60], tgt.attr, dotted(tgt.value)), node=st,
                                construct='collaborator attribute written|%s.%s' % (dotted(tgt.value), tgt.attr)))
    res.inst({'functions scanned': n}, 'scan')
    fx = ast.parse('class A:\n    def f(self, t):\n        saved = self.model.systime\n        self.model.systime = t\n        y = self.model.g(t)\n        self.model.systime = saved\n        self.n = 1\n        return y\n').body[0].body[0]
    if len(collab_attr_writes(fx)) != 2:
        raise AnalysisError('%s: fixture no longer classified' % rid)
    return res


SHAPELIT_TABLE = {
    'pypose.lietensor.convert:mat2SO3': 'the argument is documented as a 3x3 / 3x4 / 4x4 matrix', 'pypose.lietensor.convert:mat2SE3': 'matrix argument',
    'pypose.lietensor.convert:mat2Sim3': 'matrix argument', 'pypose.lietensor.convert:mat2RxSO3': 'matrix argument', 'pypose.lietensor.convert:from_matrix': 'matrix argument',
    'pypose.lietensor.lietensor:LieTensor.__torch_function__': 'width check of the result against its ltype',
    'pypose.lietensor.lietensor:LieTensor.__torch_function__.wrap': 'width check of the result against its ltype',
    'pypose.optim.optimizer:RobustModel.normalize_RWJ': 'a (1, 1) weight for a scalar residual (F41b)',
}


def shape_literal_tests(fnode):
    """[(node)]: a branch on `x.shape[-k:] == (a, b)` - the trailing extents of a tensor compared with a literal tuple to tell two FORMS of one argument apart (a skew
    matrix (.., 3, 3) from a vector (.., 3)).  The second-to-last axis of a batched vector is a batch axis: a batch whose last extent is 3 IS (.., 3, 3)."""
    out = []
    for n in _own_nodes(fnode):
        if isinstance(n, (ast.If, ast.IfExp, ast.While)) and not (isinstance(n, ast.If) and as_assert(n) is not None):
            for c in ast.walk(n.test):
                if isinstance(c, ast.Compare):
                    for side in [c.left] + list(c.comparators):
                        if isinstance(side, ast.Subscript) and isinstance(side.value, ast.Attribute) and side.value.attr in ('shape', 'lshape') and isinstance(side.slice, ast.Slice):
                            out.append(c)
                            break
    return out


@guarded
def rule_shapelit(repo, rid, modules):
    res = RuleResult(rid, 'the trailing extents of a tensor are compared with a literal (`x.shape[-2:] == (3, 3)`) only in the %d tabled functions whose argument is a matrix '
                     'by contract: anywhere else such a test tells a matrix form from a batch of vectors, and a batch whose last extent equals the width is both'
                     % len(SHAPELIT_TABLE), floor=1)
    n = 0
    for m in modules:
        for f in repo.functions_view(m):
            n += 1
            for c in shape_literal_tests(f.node):
                res.inst({'function': f.fq, 'test': src(c)[:50], 'tabled': SHAPELIT_TABLE.get(f.fq)}, (f.fq, src(c)[:50]))
                if f.fq not in SHAPELIT_TABLE:
                    res.add(Finding(rid, f, '`%s` reads the form of its argument off the trailing extents: a batch of vectors whose LAST BATCH extent equals the width (three '
                                    'rotation vectors: shape (3, 3)) has the extents of the matrix form and is silently taken for it' % src(c)[:60], node=c,
                                    construct='trailing extents decide the form|' + norm_construct(c, f.node)))
    res.inst({'functions scanned': n}, 'scan')
    return res


def temp_sets(fnode):
    """[(set stmt, restore stmt, target)]: `saved = T; T = new; ...call...; T = saved` with T an attribute / subscript of some object and the restoring assignment
    NOT inside a `finally`: every exception raised by the calls in between leaves T at the temporary value."""
    out = []
    saved = {}                                               # local name -> dump of the target it was read from
    def tdump(t):
        return ast.dump(t).replace('ctx=Store()', 'ctx=Load()')
    in_finally = set()
    for n in ast.walk(fnode):
        if isinstance(n, ast.Try):
            for st in n.finalbody:
                for x in ast.walk(st):
                    in_finally.add(id(x))
        elif isinstance(n, ast.With):
            pass
    assigns = []
    for n in _own_nodes(fnode):
        if isinstance(n, ast.Assign):
            pairs = []
            for t in n.targets:
                if isinstance(t, ast.Tuple) and isinstance(n.value, ast.Tuple) and len(t.elts) == len(n.value.elts):
                    pairs += list(zip(t.elts, n.value.elts))
                else:
                    pairs.append((t, n.value))
            for t, v in pairs:
                assigns.append((n, t, v))
    assigns.sort(key=lambda x: (x[0].lineno, x[0].col_offset))
    for n, t, v in assigns:
        if isinstance(t, ast.Name) and isinstance(v, (ast.Attribute, ast.Subscript)):
            saved[t.id] = (tdump(v), n.lineno)
        elif isinstance(t, ast.Name) and isinstance(v, ast.Tuple):
            pass
    # tuple saves: start = (self.pos, self.rot)
    for n, t, v in assigns:
        if isinstance(t, ast.Name) and isinstance(v, ast.Tuple) and all(isinstance(e, (ast.Attribute, ast.Subscript)) for e in v.elts):
            saved[t.id] = (tuple(tdump(e) for e in v.elts), n.lineno)
    calls = sorted({c.lineno for c in _own_nodes(fnode) if isinstance(c, ast.Call)})
    for n, t, v in assigns:
        if not isinstance(t, (ast.Attribute, ast.Subscript)):
            continue
        if isinstance(v, ast.Name) and v.id in saved and saved[v.id][0] == tdump(t) and saved[v.id][1] < n.lineno:
            # a temporary value was installed in between?
            sets = [m for m, t2, v2 in assigns if tdump(t2) == tdump(t) and saved[v.id][1] < m.lineno < n.lineno]
            if sets and any(sets[0].lineno < c <= n.lineno for c in calls) and id(n) not in in_finally:
                out.append((sets[0], n, t))
    # tuple restore: self.pos, self.rot = start
    for n in _own_nodes(fnode):
        if isinstance(n, ast.Assign) and len(n.targets) == 1 and isinstance(n.targets[0], ast.Tuple) and isinstance(n.value, ast.Name) and n.value.id in saved and \
                isinstance(saved[n.value.id][0], tuple) and tuple(tdump(e) for e in n.targets[0].elts) == saved[n.value.id][0] and id(n) not in in_finally:
            sets = [m for m, t2, v2 in assigns if tdump(t2) in saved[n.value.id][0] and saved[n.value.id][1] < m.lineno < n.lineno]
            if sets and any(sets[0].lineno < c <= n.lineno for c in calls):
                out.append((sets[0], n, n.targets[0].elts[0]))
    return out


@guarded
def rule_tempset(repo, rid, modules):
    res = RuleResult(rid, 'a value that is installed temporarily (save, set, ..calls.., restore) is restored in a `finally`: a restore that is a plain statement after the '
                     'calls is skipped by every exception they raise, and the temporary value - a patched torch internal, a per-call cost, a clock - stays for the rest of '
                     'the object\'s / the process\'s life', floor=1)
    n = 0
    for m in modules:
        for f in repo.functions_view(m):
            n += 1
            for st, rs, t in temp_sets(f.node):
                res.inst({'function': f.fq, 'temporary': src(st)[:50], 'restore': src(rs)[:50]}, (f.fq, src(st)[:50]))
                res.add(Finding(rid, f, '`%s` installs a temporary value and `%s` puts the old one back as an ordinary statement: when one of the calls in between raises (a user '
                                'function, a shape check) and the caller carries on with the same objects, `%s` keeps the temporary value' % (src(st)[:50], src(rs)[:50], src(t)[:30]),
                                node=rs, construct='restore outside finally|' + src(t)[:30]))
            # a @contextmanager generator: what follows the yield is the cleanup, it runs only through a finally when the body of the `with` raises
            if any(dn.split('.')[-1] == 'contextmanager' for dn in f.decorator_names()):
                for y in [x for x in ast.walk(f.node) if isinstance(x, (ast.Yield, ast.YieldFrom))]:
                    protected = any(isinstance(tr, ast.Try) and tr.finalbody and any(x is y for b in tr.body for x in ast.walk(b)) for tr in ast.walk(f.node))
                    after = [st for st in ast.walk(f.node) if isinstance(st, ast.stmt) and st.lineno > y.lineno and not isinstance(st, (ast.Pass,))]
                    res.inst({'function': f.fq, 'context manager': True, 'cleanup after yield in a finally': protected or not after}, (f.fq, 'ctx', y.lineno))
                    if after and not protected:
                        res.add(Finding(rid, f, 'the context manager %s runs its cleanup (`%s` ...) after a bare `yield`: an exception raised inside the `with` block is thrown '
                                        'into the generator at the yield and the cleanup never runs' % (f.fq.split(':')[-1], src(after[0])[:40]), node=after[0],
                                        construct='context manager cleanup outside finally'))
    res.inst({'functions scanned': n}, 'scan')
    fx = ast.parse('def f(self, p):\n    old = self.p\n    self.p = p\n    r = self.solve()\n    self.p = old\n    return r\n'
                   'def g(self, p):\n    old = self.p\n    self.p = p\n    try:\n        r = self.solve()\n    finally:\n        self.p = old\n    return r\n').body
    if [len(temp_sets(x)) for x in fx] != [1, 0]:
        raise AnalysisError('%s: fixtures no longer classified (%r)' % (rid, [len(temp_sets(x)) for x in fx]))
    return res


def stale_snapshots(fnode):
    """[(snapshot stmt, update stmt, use node, S, X)]: a container literal S = {.. X ..} / [.. X ..] / (.. X ..) captures the CURRENT value of the local X; X is then
    updated from itself (X = f(X): a composition, an accumulation) and S is used afterwards - with the value X had before the update."""
    stmts = sorted([n for n in _own_nodes(fnode) if isinstance(n, ast.Assign)], key=lambda n: (n.lineno, n.col_offset))
    out = []
    for s1 in stmts:
        if not (len(s1.targets) == 1 and isinstance(s1.targets[0], ast.Name) and isinstance(s1.value, (ast.Dict, ast.List, ast.Tuple, ast.Set))):
            continue
        S = s1.targets[0].id
        caught = {x.id for x in ast.walk(s1.value) if isinstance(x, ast.Name) and isinstance(x.ctx, ast.Load)}
        for s2 in stmts:
            if s2.lineno <= s1.lineno:
                continue
            for t in s2.targets:
                if isinstance(t, ast.Name) and t.id in caught and t.id != S and any(isinstance(x, ast.Name) and x.id == t.id for x in ast.walk(s2.value)):
                    uses = [x for x in _own_nodes(fnode) if isinstance(x, ast.Name) and x.id == S and isinstance(x.ctx, ast.Load) and x.lineno > s2.lineno]
                    rebuilt = any(s3.lineno > s2.lineno and any(isinstance(tt, ast.Name) and tt.id == S for tt in s3.targets) and (not uses or s3.lineno <= min(u.lineno for u in uses))
                                  for s3 in stmts)
                    if uses and not rebuilt:
                        out.append((s1, s2, uses[0], S, t.id))
    return out


@guarded
def rule_snapshot(repo, rid, modules):
    res = RuleResult(rid, 'a container built from a local (S = {.. X ..}) is not used after X has been updated from itself (X = f(X)): the container holds the value X had when '
                     'it was built, the update - composition with the carried rotation, an accumulation - never reaches what is handed on', floor=1)
    n = 0
    for m in modules:
        for f in repo.functions_view(m):
            n += 1
            for s1, s2, use, S, X in stale_snapshots(f.node):
                res.inst({'function': f.fq, 'snapshot': src(s1)[:40], 'update': src(s2)[:40]}, (f.fq, S, X))
                res.add(Finding(rid, f, '`%s` is built from `%s` at line %d, `%s` updates `%s` afterwards and `%s` is used at line %d: it still holds the value from before the '
                                'update (first call / nothing carried: the two coincide)' % (S, X, s1.lineno, src(s2)[:40], X, S, use.lineno), node=s2,
                                construct='snapshot before update|%s|%s' % (S, X)))
    res.inst({'functions scanned': n}, 'scan')
    fx = ast.parse('def f(self, d, last):\n    R = d["Dr"]\n    inp = {"R": R.detach(), "dt": 1}\n    if last is not None:\n        R = last * R\n    return self.g(inp), R\n'
                   'def g(self, d, last):\n    R = d["Dr"]\n    if last is not None:\n        R = last * R\n    inp = {"R": R.detach()}\n    return self.g(inp), R\n').body
    if [len(stale_snapshots(x)) for x in fx] != [1, 0]:
        raise AnalysisError('%s: fixtures no longer classified' % rid)
    return res


# ------------------------------------------------------------------------------------------------ sites read and tabled (2026-09, HEAD e00fd9c)
EXEMPT_DT = {
    ('pypose.function.geometry:voxel_filter', 'torch.tensor(v0, device=v1.device)'): 'voxel sizes given as a Python list: used as a divisor, type-promoted with the points',
    ('pypose.lietensor.convert:mat2SO3', 'torch.tensor([1, 2, 3, 0], device=v0.device)'): 'integer index permutation (wxyz -> xyzw)',
    ('pypose.lietensor.convert:mat2SO3', 'torch.tensor(v0)'): 'list -> tensor conversion of the user input when it is not a tensor yet',
    ('pypose.lietensor.convert:mat2SE3', 'torch.tensor(v0)'): 'same input conversion',
    ('pypose.lietensor.convert:mat2Sim3', 'torch.tensor(v0)'): 'same input conversion',
    ('pypose.lietensor.convert:mat2RxSO3', 'torch.tensor(v0)'): 'same input conversion',
    ('pypose.lietensor.convert:from_matrix', 'torch.tensor(v0)'): 'same input conversion',
    ('pypose.lietensor.convert:euler2SO3', 'torch.tensor(v0)'): 'same input conversion',
    ('pypose.lietensor.lietensor:SO3Type.identity_', 'torch.tensor([-1], device=v0.device)'): 'integer index',
    ('pypose.lietensor.lietensor:Parameter.__new__', 'torch.tensor([])'): 'empty default payload of nn.Parameter',
    ('pypose.module.dynamics:System.systime.setter', 'torch.tensor(v0)'): 'integer clock value copied into the int64 buffer',
    ('pypose.module.imu_preintegrator:IMUPreintegrator.__init__', 'torch.zeros(1, 9, 9)'): 'constructor default buffer (module.to(dtype) converts it with the module)',
    ('pypose.module.imu_preintegrator:IMUPreintegrator.__init__', 'torch.tensor([0, 0, v0])'): 'constructor default buffer',
    ('pypose.module.imu_preintegrator:IMUPreintegrator.__init__', 'torch.tensor([[v0, v0, v0]])'): 'constructor default buffer',
    ('pypose.module.lqr:LQR.lqr_backward', 'torch.tensor(v0 * v1)'): 'integer time index t * dt handed to set_refpoint',
    ('pypose.utils.stepper:_Stepper.reset', "torch.tensor(float('inf'))"): 'initial "last loss" sentinel, compared only',
    ('pypose.utils.stepper:ReduceToBason.step', 'torch.tensor(v0)'): 'Python-number loss converted for comparison',
}
EXEMPT_MODE = {
    ('pypose.optim.corrector:FastTriggs.forward', 'is_inference_mode_enabled'): 'assertion: the corrector needs autograd and says so',
    ('pypose.optim.corrector:Triggs.compute_grads', 'requires_grad'): 'constant-slope kernels have no graph for rho\' (F19): second derivative is zero',
    ('pypose.optim.optimizer:RobustModel.flatten_row_jacobian', 'requires_grad'): 'frozen parameters contribute no columns (F17)',
    ('pypose.optim.optimizer:_Optimizer.update_parameter', 'requires_grad'): 'frozen parameters are not updated (documented)',
    ('pypose.optim.optimizer:LevenbergMarquardt.update_parameter', 'requires_grad'): 'same, sparse path',
}


def mode_rules(repo, pid, modules):
    from .ipalias import rule_ipalias, rule_lostupdate, rule_storage
    from .unused import rule_unused
    from .stale import rule_stale_all, rule_firstrep
    return [rule_dtype_mod(repo, pid + '.DTMOD', modules, EXEMPT_DT), rule_mode(repo, pid + '.MODE', modules, EXEMPT_MODE),
            rule_ipalias(repo, pid + '.IPA', modules), rule_unused(repo, pid + '.UNUSED', modules), rule_cast(repo, pid + '.CAST', modules), rule_api(repo, pid + '.API', modules), rule_lostupdate(repo, pid + '.LOST', modules), rule_guardset(repo, pid + '.GUARDS', modules), rule_rng(repo, pid + '.RNG', modules), rule_attrs(repo, pid + '.ATTRS', modules), rule_argmut(repo, pid + '.ARGMUT', modules), rule_storage(repo, pid + '.STORAGE', modules), rule_hygiene(repo, pid + '.HYGIENE', modules), rule_argattr(repo, pid + '.ARGATTR', modules), rule_sharedstate(repo, pid + '.SHAREDST', modules), rule_globals(repo, pid + '.GLOBALS'), rule_rankcmp(repo, pid + '.RANKCMP', modules), rule_ducklist(repo, pid + '.DUCKLIST', modules), rule_shapeform(repo, pid + '.SHAPEFORM', modules), rule_collabattr(repo, pid + '.COLLAB', modules), rule_shapelit(repo, pid + '.SHAPELIT', modules), rule_tempset(repo, pid + '.TEMPSET', modules), rule_snapshot(repo, pid + '.SNAPSHOT', modules), rule_stale_all(repo, pid + '.STALELOOP', modules), rule_firstrep(repo, pid + '.FIRSTREP', modules), guarded(__import__('sa.masks', fromlist=['x']).rule_safesub)(repo, pid + '.SAFESUB', modules), rule_warnfall(repo, pid + '.WARNFALL', modules), rule_typeid(repo, pid + '.TYPEID', modules)]


# ---------------------------------------------------------------- WARNFALL: a problem that is reported and then answered

WARNFALL_TABLE = {                                       # function -> (number of reviewed sites, why)
    'pypose.lietensor.lietensor:LieType.translation': (1, 'documented: a type without translation returns zeros'),
    'pypose.lietensor.lietensor:LieType.scale': (1, 'documented: a type without scale returns ones'),
    'pypose.lietensor.convert:quat2unit': (1, 'documented: a Lie-algebra input is returned as given'),
}


def warn_fallbacks(fnode):
    """[(warn stmt, substitute stmt)]: `warnings.warn(..)` followed IN THE SAME BLOCK by an assignment or a return - the condition that used to stop the call (or that
    deserves to) is reported and then answered with a substituted value.  A warning that stands alone in its branch changes no value and is not reported; neither is
    a deprecation notice (DeprecationWarning / FutureWarning / 'deprecat' in the text)."""
    out = []

    def blocks(n):
        for fld in ('body', 'orelse', 'finalbody'):
            b = getattr(n, fld, None)
            if isinstance(b, list) and b and isinstance(b[0], ast.stmt):
                yield b
        for h in getattr(n, 'handlers', []) or []:
            yield h.body
    stack = [fnode]
    while stack:
        n = stack.pop()
        for b in blocks(n):
            for i, st in enumerate(b):
                if isinstance(st, (ast.FunctionDef, ast.AsyncFunctionDef, ast.ClassDef)):
                    continue
                stack.append(st)
                if isinstance(st, ast.Expr) and isinstance(st.value, ast.Call) and (dotted(st.value.func) or '').split('.')[-1] == 'warn':
                    txt = src(st).lower()
                    if 'deprecat' in txt or 'futurewarning' in txt:
                        continue
                    sub = next((s for s in b[i + 1:] if isinstance(s, (ast.Assign, ast.AugAssign, ast.AnnAssign, ast.Return))), None)
                    if sub is not None:
                        out.append((st, sub))
    return out


@guarded
def rule_warnfall(repo, rid, modules):
    res = RuleResult(rid, 'nothing is reported by a warning and then answered with a substituted value (warn, then an assignment or a return in the same block) beyond the %d '
                     'documented sites: a condition that stops the call with an error on the pinned tree, or an input outside the contract, is not turned into a result' % len(WARNFALL_TABLE), floor=1)
    n = 0
    for m in modules:
        for f in repo.functions_view(m):
            n += 1
            hits = warn_fallbacks(f.node)
            allowed = WARNFALL_TABLE.get(f.fq, (0, None))[0]
            for k_, (w, sub) in enumerate(hits):
                res.inst({'function': f.fq, 'warning': src(w)[:60], 'then': src(sub)[:50], 'tabled': WARNFALL_TABLE.get(f.fq)}, (f.fq, k_))
                if len(hits) > allowed and k_ >= allowed:
                    res.add(Finding(rid, f, '`%s` is followed by `%s`: the condition is reported and the call goes on with a substituted value instead of stopping' % (
                        src(w)[:70], src(sub)[:50]), node=w, construct='warn then substitute|%d' % (k_ - allowed)))
    res.inst({'functions scanned': n}, 'scan')
    fx = [ast.parse(t).body[0] for t in (
        "def f(x):\n    if x < 0:\n        warnings.warn('negative')\n        x = abs(x)\n    return x\n",
        "def f(x):\n    if x < 0:\n        warnings.warn('negative')\n    return x\n")]
    if [len(warn_fallbacks(x)) for x in fx] != [1, 0]:
        raise AnalysisError('%s: fixture no longer classified' % rid)
    return res


# ---------------------------------------------------------------- TYPEID: an element's type identified by identity with a module singleton

TYPEID_TABLE = {'pypose.lietensor.convert:quat2unit': (3, 'normalisation helper: group / algebra dispatch on the singleton, documented to pass anything else through')}


def ltype_identity_tests(fnode):
    """[(compare)]: `<element>.ltype == SE3_type` / `is` / `in [SO3_type, ..]` - LieType defines no __eq__, so this is an IDENTITY test against the module-level
    singleton.  An element restored by copy.deepcopy / pickle / torch.load carries a re-created type object: it behaves like its type everywhere (the methods live on
    the class) except in such a test, which sends it down the other branch."""
    out = []
    for n in _own_nodes(fnode):
        if isinstance(n, ast.Compare) and len(n.ops) == 1 and isinstance(n.ops[0], (ast.Eq, ast.NotEq, ast.Is, ast.IsNot, ast.In, ast.NotIn)):
            l, r = n.left, n.comparators[0]
            for a, b in ((l, r), (r, l)):
                if isinstance(a, ast.Attribute) and a.attr == 'ltype':
                    names = [x.id for x in ast.walk(b) if isinstance(x, ast.Name)]
                    if names and all(x.endswith('_type') or x in ('liegroup', 'liealgebra') for x in names):
                        out.append(n)
                        break
    return out


@guarded
def rule_typeid(repo, rid, modules):
    res = RuleResult(rid, 'the type of an ELEMENT is not identified by comparing its `.ltype` with a module-level type singleton (identity: LieType has no __eq__) beyond the '
                     'tabled normalisation helper: elements restored by deepcopy / pickle / torch.load carry a re-created type object', floor=1)
    n = 0
    for m in modules:
        for f in repo.functions_view(m):
            n += 1
            hits = ltype_identity_tests(f.node)
            allowed = TYPEID_TABLE.get(f.fq, (0, None))[0]
            for k_, c in enumerate(hits):
                res.inst({'function': f.fq, 'test': src(c)[:50], 'tabled': TYPEID_TABLE.get(f.fq)}, (f.fq, k_))
                if len(hits) > allowed and k_ >= allowed:
                    res.add(Finding(rid, f, '`%s` identifies the type of an element by identity with the module singleton: an element restored from a snapshot (deepcopy, pickle, '
                                    'torch.load) has a re-created type object and takes the other branch' % src(c)[:60], node=c, construct='ltype identity test|%d' % (k_ - allowed)))
    res.inst({'functions scanned': n}, 'scan')
    fx = ast.parse("def f(X, Y):\n    if isinstance(Y, LieTensor) and Y.ltype == SE3_type:\n        return 1\n    if not Y.ltype.on_manifold:\n        return 2\n").body[0]
    if len(ltype_identity_tests(fx)) != 1:
        raise AnalysisError('%s: fixture no longer classified' % rid)
    return res
