"""E2 - single-assignment inlining along a path, provenance and sign parity.

Env maps a key (local name, or dotted 'self.attr') to the expression tree it currently holds,
already expressed over the function's parameters, globals and opaque calls.  Synthetic nodes:
  $upd(prev, $idx[<slice>], value)   value of a tensor after   x[<slice>] = value
  $item(expr, i)                     i-th element of an unpacked non-tuple value
  $iter(expr)                        loop variable of `for v in expr`
  $phi(a, b, ...)                    (only produced by merge helpers)
"""
from __future__ import annotations
import ast, copy
from .core import dotted, src

MAX_NODES = 60000


def N(id_):
    return ast.Name(id_, ast.Load())


def call(name, *args):
    return ast.Call(N(name), list(args), [])


def size(e):
    return sum(1 for _ in ast.walk(e))


class _Subst(ast.NodeTransformer):
    def __init__(self, env):
        self.env = env

    def visit_Name(self, n):
        if isinstance(n.ctx, ast.Load) and n.id in self.env:
            return copy.deepcopy(self.env[n.id])
        return n

    def visit_Attribute(self, n):
        d = dotted(n)
        if d is not None and isinstance(n.ctx, ast.Load) and d in self.env:
            return copy.deepcopy(self.env[d])
        return self.generic_visit(n)

    def visit_Lambda(self, n):
        # do not substitute names shadowed by lambda parameters
        shadow = {a.arg for a in n.args.args + n.args.kwonlyargs + n.args.posonlyargs}
        env = {k: v for k, v in self.env.items() if k.split('.')[0] not in shadow}
        n2 = copy.copy(n)
        n2.body = _Subst(env).visit(copy.deepcopy(n.body))
        return n2

    def _comp(self, n):
        shadow = set()
        for g in n.generators:
            for t in ast.walk(g.target):
                if isinstance(t, ast.Name):
                    shadow.add(t.id)
        env = {k: v for k, v in self.env.items() if k.split('.')[0] not in shadow}
        s = _Subst(env)
        n2 = copy.deepcopy(n)
        for f in n2._fields:
            v = getattr(n2, f)
            if isinstance(v, list):
                setattr(n2, f, [s.visit(x) if isinstance(x, ast.AST) else x for x in v])
            elif isinstance(v, ast.AST):
                setattr(n2, f, s.visit(v))
        return n2

    visit_ListComp = visit_SetComp = visit_GeneratorExp = visit_DictComp = _comp


def subst(e, env):
    r = _Subst(env).visit(copy.deepcopy(e))
    if size(r) > MAX_NODES:
        return N('$big')
    return r


def _key(t):
    if isinstance(t, ast.Name):
        return t.id
    if isinstance(t, ast.Attribute):
        return dotted(t)
    return None


class Inliner:
    """Feed statements in execution order; query .env / .value(expr)."""

    def __init__(self, env=None):
        self.env = dict(env or {})
        self._collapsed = False
        self.stores = []      # (base key, index slice (substituted), value (substituted), stmt)
        self.log = []         # (stmt, env-before) for every fed statement

    def value(self, e):
        return subst(e, self.env)

    def _assign(self, target, val, stmt):
        """val already substituted"""
        if isinstance(target, (ast.Tuple, ast.List)) and isinstance(val, ast.IfExp) and \
                all(isinstance(b, (ast.Tuple, ast.List)) and len(b.elts) == len(target.elts) for b in (val.body, val.orelse)):
            # (a, b) = (x, y) if c else (u, v)   ->   a = x if c else u ; b = y if c else v
            for i, t in enumerate(target.elts):
                self._assign(t, ast.IfExp(val.test, val.body.elts[i], val.orelse.elts[i]), stmt)
            return
        if isinstance(target, (ast.Tuple, ast.List)) and isinstance(val, (ast.ListComp, ast.GeneratorExp)) and len(val.generators) == 1:
            # a, b, c = [f(x[k]) for k in ('a', 'b', 'c')]   ->   a, b, c = f(x['a']), f(x['b']), f(x['c'])
            g = val.generators[0]
            if not g.ifs and isinstance(g.target, ast.Name) and isinstance(g.iter, (ast.Tuple, ast.List)) and len(g.iter.elts) == len(target.elts):
                val = ast.Tuple([subst(val.elt, {g.target.id: it}) for it in g.iter.elts], ast.Load())
        if isinstance(target, (ast.Tuple, ast.List)):
            if isinstance(val, (ast.Tuple, ast.List)) and len(val.elts) == len(target.elts) and \
                    not any(isinstance(x, ast.Starred) for x in list(val.elts) + list(target.elts)):
                for t, v in zip(target.elts, val.elts):
                    self._assign(t, v, stmt)
            else:
                for i, t in enumerate(target.elts):
                    if isinstance(t, ast.Starred):
                        self._assign(t.value, call('$rest', val, ast.Constant(i)), stmt)
                    else:
                        self._assign(t, call('$item', val, ast.Constant(i)), stmt)
            return
        k = _key(target)
        if k is not None:
            self.env[k] = val
            # a rebind of x invalidates x.attr entries
            for kk in [kk for kk in self.env if kk.startswith(k + '.')]:
                del self.env[kk]
            return
        if isinstance(target, ast.Subscript):
            bk = _key(target.value)
            idx = subst(target.slice, self.env)
            idx_node = ast.Subscript(N('$idx'), idx, ast.Load())
            if bk is not None:
                prev = self.env.get(bk, N(bk) if '.' not in bk else _attr_expr(bk))
                self.stores.append((bk, idx, val, stmt))
                self.env[bk] = call('$upd', prev, idx_node, val)
            else:
                self.stores.append((None, idx, val, stmt))
            return

    def feed(self, st):
        self.log.append((st, dict(self.env)))
        if isinstance(st, ast.Assign):
            val = self.value(st.value)
            # chained a = b = v : evaluate once, right-to-left binding order does not matter for us
            for t in st.targets:
                self._assign(t, val, st)
        elif isinstance(st, ast.AnnAssign):
            if st.value is not None:
                self._assign(st.target, self.value(st.value), st)
        elif isinstance(st, ast.AugAssign):
            cur = self.value(_load(st.target))
            val = ast.BinOp(cur, st.op, self.value(st.value))
            k = _key(st.target)
            if k is not None:
                self.env[k] = call('$aug', val) if False else val
            elif isinstance(st.target, ast.Subscript):
                self._assign(st.target, val, st)
        elif isinstance(st, (ast.For, ast.AsyncFor)):
            if self._collapsed:
                self.havoc(st)
            else:
                self._assign(st.target, call('$iter', self.value(st.iter)), st)
        elif isinstance(st, ast.withitem):
            if st.optional_vars is not None:
                self._assign(st.optional_vars, call('$with', self.value(st.context_expr)), st)
        elif isinstance(st, (ast.If, ast.While, ast.With, ast.Try)):
            self.havoc(st)

    def havoc(self, st):
        """a collapsed compound statement: everything it may assign becomes unknown"""
        for n in ast.walk(st):
            if isinstance(n, (ast.Name, ast.Attribute)) and isinstance(getattr(n, 'ctx', None), ast.Store):
                k = _key(n)
                if k is not None:
                    self.env[k] = N('$unknown')
            elif isinstance(n, ast.Subscript) and isinstance(n.ctx, ast.Store):
                k = _key(n.value)
                if k is not None:
                    self.env[k] = N('$unknown')

    def feed_events(self, events, on_event=None):
        for ev in events:
            if on_event is not None:
                on_event(ev, self)
            if ev[0] == 'stmt':
                self._collapsed = True      # a For node arriving as 'stmt' is a collapsed loop
                self.feed(ev[1])
                self._collapsed = False
            elif ev[0] == 'iter':
                self.feed(ev[1])
            elif ev[0] == 'with':
                self.feed(ev[1])
            elif ev[0] == 'except' and ev[1].name:
                self.env[ev[1].name] = N('$exc')


def _attr_expr(d):
    parts = d.split('.')
    e = N(parts[0])
    for p in parts[1:]:
        e = ast.Attribute(e, p, ast.Load())
    return e


def _load(t):
    t = copy.deepcopy(t)
    for n in ast.walk(t):
        if hasattr(n, 'ctx'):
            n.ctx = ast.Load()
    return t


def inline_straight(fnode, upto=None):
    """Inline a function body ignoring control flow (statements in source order, compound statements
    flattened).  Suitable for the straight-line forward/backward bodies.  Returns Inliner."""
    inl = Inliner()

    def rec(stmts):
        for st in stmts:
            if upto is not None and st is upto:
                return True
            if isinstance(st, (ast.FunctionDef, ast.AsyncFunctionDef, ast.ClassDef)):
                continue
            inl.feed(st)
            for f in ('body', 'orelse', 'finalbody'):
                if getattr(st, f, None) and not isinstance(st, (ast.FunctionDef, ast.ClassDef)):
                    if rec(getattr(st, f)):
                        return True
            for h in getattr(st, 'handlers', []) or []:
                if rec(h.body):
                    return True
        return False
    rec(fnode.body)
    return inl


def returns_of(fnode):
    out = []

    def rec(n):
        for c in ast.iter_child_nodes(n):
            if isinstance(c, (ast.FunctionDef, ast.AsyncFunctionDef, ast.ClassDef, ast.Lambda)):
                continue
            if isinstance(c, ast.Return):
                out.append(c)
            rec(c)
    rec(fnode)
    return out


def rv(fnode, ret):
    """inlined value of one return statement (robust against `tmp = E; return tmp`)"""
    if ret.value is None:
        return None
    return inline_straight(fnode, upto=ret).value(ret.value)


def ret_elts(fnode, ret):
    """elements of a returned tuple, as written (not inlined), following one level of `name = (a, b); return name`"""
    v = ret.value
    if isinstance(v, ast.Name):
        name = v.id
        for n in ast.walk(fnode):
            if isinstance(n, ast.Assign) and any(isinstance(t, ast.Name) and t.id == name for t in n.targets):
                v = n.value
    return list(v.elts) if isinstance(v, (ast.Tuple, ast.List)) else None


def returned_expr(fnode):
    """Inlined value of the (single) return statement of a straight-line function, or None."""
    rets = returns_of(fnode)
    if len(rets) != 1 or rets[0].value is None:
        return None
    inl = inline_straight(fnode, upto=rets[0])
    return inl.value(rets[0].value)


# ------------------------------------------------------------------ provenance / parity

def triple_products(e):
    """[(L, M, R, node)] for every product  L @ M @ R  (left-associated chain of exactly the outer three factors) in e"""
    out = []
    for n in ast.walk(e):
        if isinstance(n, ast.BinOp) and isinstance(n.op, ast.MatMult) and isinstance(n.left, ast.BinOp) and isinstance(n.left.op, ast.MatMult):
            out.append((n.left.left, n.left.right, n.right, n))
    return out


def is_transpose_of(a, b):
    """a is the transpose of b (syntactically: a == b.mT / b.T / b.transpose(-1,-2) or the other way round)"""
    def t_of(x):
        if isinstance(x, ast.Attribute) and x.attr in ('mT', 'T', 'mH'):
            return x.value
        if isinstance(x, ast.Call) and isinstance(x.func, ast.Attribute) and x.func.attr in ('transpose', 'swapaxes') and \
                sorted(src(y) for y in x.args) == ['-1', '-2']:
            return x.func.value
        return None
    ta, tb = t_of(a), t_of(b)
    return (ta is not None and dump(ta) == dump(b)) or (tb is not None and dump(tb) == dump(a))


def free_names(e):
    return {n.id for n in ast.walk(e) if isinstance(n, ast.Name)}


def call_names(e):
    out = set()
    for n in ast.walk(e):
        if isinstance(n, ast.Call):
            d = dotted(n.func)
            if d:
                out.add(d)
            elif isinstance(n.func, ast.Attribute):
                out.add('.' + n.func.attr)
    return out


TRANSPARENT_METHODS = {'view', 'reshape', 'squeeze', 'unsqueeze', 'contiguous', 'clone', 'detach', 'to', 'float',
                       'double', 'view_as', 'expand', 'expand_as', 'flatten', 'transpose', 'permute', 'sum', 'mean',
                       'tensor', 'type_as', 'repeat', 'tile', 'squeeze_', 'unsqueeze_'}
TRANSPARENT_ATTRS = {'T', 'mT', 'mH', 'H', 'data'}


def parities(e, pred, p=0, out=None):
    """Set of sign parities (0 even, 1 odd, None unknown) with which sub-expressions matching `pred`
    occur on the multiplicative/additive spine of e."""
    if out is None:
        out = set()
    if pred(e):
        out.add(p)
        return out
    if isinstance(e, ast.UnaryOp):
        if isinstance(e.op, ast.USub):
            parities(e.operand, pred, None if p is None else 1 - p, out)
        elif isinstance(e.op, ast.UAdd):
            parities(e.operand, pred, p, out)
        else:
            parities(e.operand, pred, None, out)
    elif isinstance(e, ast.BinOp):
        if isinstance(e.op, (ast.Mult, ast.MatMult, ast.Div)):
            # sign of a product: parity contributed by the other factor's own leading minus
            parities(e.left, pred, None if p is None else (p + _lead_neg(e.right)) % 2, out)
            parities(e.right, pred, None if p is None else (p + _lead_neg(e.left)) % 2, out)
        elif isinstance(e.op, ast.Add):
            parities(e.left, pred, p, out)
            parities(e.right, pred, p, out)
        elif isinstance(e.op, ast.Sub):
            parities(e.left, pred, p, out)
            parities(e.right, pred, None if p is None else 1 - p, out)
        else:
            parities(e.left, pred, None, out)
            parities(e.right, pred, None, out)
    elif isinstance(e, ast.Call):
        if isinstance(e.func, ast.Attribute) and e.func.attr in TRANSPARENT_METHODS:
            parities(e.func.value, pred, p, out)
            for a in e.args:
                parities(a, pred, None, out)
        else:
            d = dotted(e.func) or ''
            if d in ('torch.matmul', 'torch.mm', 'torch.bmm', 'bmv', 'torch.mul') and len(e.args) >= 2:
                parities(e.args[0], pred, None if p is None else (p + _lead_neg(e.args[1])) % 2, out)
                parities(e.args[1], pred, None if p is None else (p + _lead_neg(e.args[0])) % 2, out)
            elif d in ('torch.cat', 'torch.stack', 'torch.neg') and e.args:
                q = p if d != 'torch.neg' else (None if p is None else 1 - p)
                parities(e.args[0], pred, q, out)
            else:
                if isinstance(e.func, ast.Attribute):
                    parities(e.func.value, pred, None, out)
                for a in list(e.args) + [k.value for k in e.keywords]:
                    parities(a, pred, None, out)
    elif isinstance(e, ast.Attribute):
        parities(e.value, pred, p if e.attr in TRANSPARENT_ATTRS else None, out)
    elif isinstance(e, ast.Subscript):
        parities(e.value, pred, p, out)
    elif isinstance(e, (ast.Tuple, ast.List)):
        for x in e.elts:
            parities(x, pred, p, out)
    elif isinstance(e, ast.IfExp):
        parities(e.body, pred, p, out)
        parities(e.orelse, pred, p, out)
    else:
        for c in ast.iter_child_nodes(e):
            parities(c, pred, None, out)
    return out


def _lead_neg(e):
    n = 0
    while isinstance(e, ast.UnaryOp) and isinstance(e.op, (ast.USub, ast.UAdd)):
        if isinstance(e.op, ast.USub):
            n += 1
        e = e.operand
    if isinstance(e, ast.Constant) and isinstance(e.value, (int, float)) and e.value < 0:
        n += 1
    return n % 2


def _strip_neg(e):
    while isinstance(e, ast.UnaryOp) and isinstance(e.op, (ast.USub, ast.UAdd)):
        e = e.operand
    return e


def contains(e, pred):
    return any(pred(n) for n in ast.walk(e))


def is_name(n, id_):
    return isinstance(n, ast.Name) and n.id == id_


def is_call_to(n, *names):
    """Call whose dotted callee (or method name written as '.meth') is in names."""
    if not isinstance(n, ast.Call):
        return False
    d = dotted(n.func)
    if d in names:
        return True
    if isinstance(n.func, ast.Attribute) and ('.' + n.func.attr) in names:
        return True
    return False


def dump(e):
    return ast.dump(e, annotate_fields=False)


# ------------------------------------------------------------------------------------------------ helper-method flattening
def flatten_self_calls(fnode, methods, keep=(), depth=2):
    """A copy of the FunctionDef `fnode` in which every top-level statement `T = self.m(..)`, `return self.m(..)` or `self.m(..)` whose callee `m` is a method in
    `methods` (name -> FunctionDef) with a straight-line body (no return except the last statement, no loops) is replaced by the callee's body: parameters
    bound to the arguments, every local of the callee prefixed with `m$`, the final return turned into the assignment / return of the call site.  Methods
    named in `keep` stay calls.  Refactorings that split a function into helpers leave the flattened body the rules read unchanged."""
    import copy

    def simple(m):
        body = [s for s in m.body if not (isinstance(s, ast.Expr) and isinstance(s.value, ast.Constant))]
        if not body or not isinstance(body[-1], ast.Return) or body[-1].value is None:
            return None
        for s in body[:-1]:
            for n in ast.walk(s):
                if isinstance(n, (ast.Return, ast.For, ast.While, ast.Try, ast.With, ast.FunctionDef, ast.Lambda, ast.Yield, ast.YieldFrom)):
                    return None
        return body

    def callee_of(call):
        if isinstance(call, ast.Call) and isinstance(call.func, ast.Attribute) and isinstance(call.func.value, ast.Name) and call.func.value.id in ('self', 'cls') \
                and call.func.attr in methods and call.func.attr not in keep and not any(isinstance(a, ast.Starred) for a in call.args) \
                and not any(k.arg is None for k in call.keywords):
            return methods[call.func.attr]
        return None

    def expand(st, level):
        call = st.value if isinstance(st, (ast.Assign, ast.Return, ast.Expr)) else None
        m = callee_of(call)
        if m is None or level <= 0:
            return [st]
        body = simple(m)
        if body is None:
            return [st]
        a = m.args
        names = [x.arg for x in a.posonlyargs + a.args]
        if names and names[0] in ('self', 'cls'):
            names = names[1:]
        if a.vararg or a.kwarg or a.kwonlyargs:
            return [st]
        defaults = dict(zip(reversed(names), reversed(a.defaults)))
        bound = {}
        for n_, v in zip(names, call.args):
            bound[n_] = v
        for k in call.keywords:
            if k.arg not in names or k.arg in bound:
                return [st]
            bound[k.arg] = k.value
        for n_ in names:
            if n_ not in bound:
                if n_ not in defaults:
                    return [st]
                bound[n_] = defaults[n_]
        prefix = m.name + '$'
        locals_ = set(names)
        for s in body:
            for n in ast.walk(s):
                if isinstance(n, ast.Name) and isinstance(n.ctx, (ast.Store, ast.Del)):
                    locals_.add(n.id)

        class Ren(ast.NodeTransformer):
            def visit_Name(self, n):
                if n.id in locals_:
                    return ast.copy_location(ast.Name(prefix + n.id, n.ctx), n)
                return n
        out = []
        for n_ in names:
            out.append(ast.copy_location(ast.Assign([ast.Name(prefix + n_, ast.Store())], copy.deepcopy(bound[n_])), st))
        for s in body[:-1]:
            out.append(Ren().visit(copy.deepcopy(s)))
        ret = Ren().visit(copy.deepcopy(body[-1].value))
        if isinstance(st, ast.Assign):
            out.append(ast.copy_location(ast.Assign(copy.deepcopy(st.targets), ret), st))
        elif isinstance(st, ast.Return):
            out.append(ast.copy_location(ast.Return(ret), st))
        else:
            out.append(ast.copy_location(ast.Expr(ret), st))
        res = []
        for s in out:
            res += expand(s, level - 1)
        return res

    new = copy.deepcopy(fnode)
    body = []
    changed = False
    for st in new.body:
        ex = expand(st, depth)
        if len(ex) != 1 or ex[0] is not st:
            changed = True
        body += ex
    if not changed:
        return fnode
    new.body = body
    ast.fix_missing_locations(new)
    # keep line numbers increasing in statement order: the path / inlining engines order events by position
    for i, s in enumerate(new.body):
        for n in ast.walk(s):
            if hasattr(n, 'lineno'):
                n.lineno = fnode.lineno + 1 + i
                n.end_lineno = n.lineno
    return new


# ---------------------------------------------------------------- helpers that did not exist on the pinned tree are read in place

INLINED_HELPERS = set()          # id(FunctionDef) of every helper that was read in place at least once


def inline_new_helpers(fnode, callables, depth=2):
    """A copy of `fnode` in which every STATEMENT that is a call of a helper in `callables` (name -> (FunctionDef, kind), kind 'method' / 'static' / 'func'; written
    `self.name(..)` resp. `name(..)`), alone (`self.h(a)`), assigned (`x = self.h(a)`) or returned, is replaced by the helper's body - at any nesting depth of the
    caller.  Parameters that are given a plain name / attribute / constant are substituted; other arguments are bound to `name$param` first; the helper's locals get
    the prefix `name$`.  A helper qualifies when it returns only in its last statement (or not at all), does not yield and defines nothing nested.  Returns
    `fnode` itself when nothing was inlined."""
    import copy

    def single_exit(body):
        """guard clauses folded into if / else: [.., if c: ..; return A, rest.., return B]  ->  [.., if c: ..; $ret = A  else: rest..; $ret = B, return $ret]"""
        for i, st in enumerate(body):
            if isinstance(st, ast.If) and not st.orelse and st.body and isinstance(st.body[-1], ast.Return) and st.body[-1].value is not None \
                    and isinstance(body[-1], ast.Return) and body[-1].value is not None and i < len(body) - 1:
                rest = single_exit(body[i + 1:])
                if rest is None or not isinstance(rest[-1], ast.Return):
                    return None
                mk = lambda v, at: ast.copy_location(ast.Assign([ast.Name('$ret', ast.Store())], v), at)
                then = list(st.body[:-1]) + [mk(st.body[-1].value, st.body[-1])]
                other = list(rest[:-1]) + [mk(rest[-1].value, rest[-1])]
                new_if = ast.copy_location(ast.If(st.test, then, other), st)
                return list(body[:i]) + [new_if, ast.copy_location(ast.Return(ast.Name('$ret', ast.Load())), body[-1])]
        return body

    def simple(m):
        import copy as _c
        body = [s for s in m.body if not (isinstance(s, ast.Expr) and isinstance(s.value, ast.Constant))]
        if not body:
            return None
        body = single_exit(_c.deepcopy(body))
        if body is None:
            return None
        last_ret = isinstance(body[-1], ast.Return)
        for s in (body[:-1] if last_ret else body):
            for n in ast.walk(s):
                if isinstance(n, (ast.Return, ast.FunctionDef, ast.AsyncFunctionDef, ast.Lambda, ast.Yield, ast.YieldFrom, ast.ClassDef, ast.Global, ast.Nonlocal)):
                    return None
        return body

    def callee_of(call):
        if not isinstance(call, ast.Call) or any(isinstance(a, ast.Starred) for a in call.args) or any(k.arg is None for k in call.keywords):
            return None
        fn = call.func
        if isinstance(fn, ast.Attribute) and isinstance(fn.value, ast.Name) and fn.value.id in ('self', 'cls') and fn.attr in callables and callables[fn.attr][1] in ('method', 'static'):
            return callables[fn.attr]
        if isinstance(fn, ast.Name) and fn.id in callables and callables[fn.id][1] == 'func':
            return callables[fn.id]
        return None

    def pure(e):
        if isinstance(e, (ast.Name, ast.Constant)):
            return True
        if isinstance(e, ast.Attribute):
            return pure(e.value)
        if isinstance(e, ast.Subscript):
            return pure(e.value) and isinstance(e.slice, ast.Constant)
        return False
    changed = [False]

    def expand(st, level):
        call = st.value if isinstance(st, (ast.Assign, ast.Return, ast.Expr)) else None
        got = callee_of(call)
        if got is None or level <= 0:
            return [st]
        m, kind = got
        if m is fnode or m.name == fnode.name:
            return [st]
        body = simple(m)
        if body is None:
            return [st]
        a = m.args
        names = [x.arg for x in a.posonlyargs + a.args]
        if kind == 'method' and names:
            names = names[1:]
        if a.vararg or a.kwarg or a.kwonlyargs:
            return [st]
        defaults = dict(zip(reversed(names), reversed(a.defaults)))
        bound = {}
        for n_, v in zip(names, call.args):
            bound[n_] = v
        if len(call.args) > len(names):
            return [st]
        for k in call.keywords:
            if k.arg not in names or k.arg in bound:
                return [st]
            bound[k.arg] = k.value
        for n_ in names:
            if n_ not in bound:
                if n_ not in defaults:
                    return [st]
                bound[n_] = defaults[n_]
        prefix = m.name + '$'
        stored = set()
        for s in body:
            for n in ast.walk(s):
                if isinstance(n, ast.Name) and isinstance(n.ctx, (ast.Store, ast.Del)):
                    stored.add(n.id)
        direct = {n_: bound[n_] for n_ in names if pure(bound[n_]) and n_ not in stored}
        locals_ = (set(names) | stored) - set(direct)
        # `a, b = helper(..)` with `return p, q` (plain locals of the helper): the helper's p, q ARE the caller's a, b - no alias layer in between
        last_ret_ = isinstance(body[-1], ast.Return) and body[-1].value is not None
        as_target = {}
        if isinstance(st, ast.Assign) and len(st.targets) == 1 and last_ret_:
            tg, rv_ = st.targets[0], body[-1].value
            pairs = list(zip(tg.elts, rv_.elts)) if isinstance(tg, ast.Tuple) and isinstance(rv_, ast.Tuple) and len(tg.elts) == len(rv_.elts) else [(tg, rv_)]
            if all(isinstance(t_, ast.Name) and isinstance(r_, ast.Name) and r_.id in stored and r_.id not in names for t_, r_ in pairs) and \
                    len({r_.id for _, r_ in pairs}) == len(pairs):
                as_target = {r_.id: t_.id for t_, r_ in pairs}

        class Ren(ast.NodeTransformer):
            def visit_Name(self, n):
                if n.id in direct and isinstance(n.ctx, ast.Load):
                    return ast.copy_location(copy.deepcopy(direct[n.id]), n)
                if n.id in as_target:
                    return ast.copy_location(ast.Name(as_target[n.id], n.ctx), n)
                if n.id in locals_:
                    return ast.copy_location(ast.Name(prefix + n.id, n.ctx), n)
                return n
        out = []
        for n_ in names:
            if n_ not in direct:
                out.append(ast.copy_location(ast.Assign([ast.Name(prefix + n_, ast.Store())], copy.deepcopy(bound[n_])), st))
        last_ret = isinstance(body[-1], ast.Return)
        for s in (body[:-1] if last_ret else body):
            out.append(ast.copy_location(Ren().visit(copy.deepcopy(s)), st))
        ret = Ren().visit(copy.deepcopy(body[-1].value)) if last_ret and body[-1].value is not None else None
        if isinstance(st, ast.Assign):
            if ret is None:
                return [st]
            if not as_target:
                out.append(ast.copy_location(ast.Assign(copy.deepcopy(st.targets), ret), st))
        elif isinstance(st, ast.Return):
            out.append(ast.copy_location(ast.Return(ret), st))
        elif ret is not None and not isinstance(ret, (ast.Name, ast.Constant)):
            out.append(ast.copy_location(ast.Expr(ret), st))
        changed[0] = True
        INLINED_HELPERS.add(id(m))
        res = []
        for s in out:
            res += expand(s, level - 1)
        for s in res:
            for n in ast.walk(s):
                if not hasattr(n, 'lineno'):
                    ast.copy_location(n, st)
            ast.fix_missing_locations(s)
        return res

    def walk_block(block):
        new = []
        for st in block:
            for fld in ('body', 'orelse', 'finalbody'):
                b = getattr(st, fld, None)
                if isinstance(b, list) and b and isinstance(b[0], ast.stmt) and not isinstance(st, (ast.FunctionDef, ast.AsyncFunctionDef, ast.ClassDef)):
                    setattr(st, fld, walk_block(b))
            for h in getattr(st, 'handlers', []) or []:
                h.body = walk_block(h.body)
            new += expand(st, depth)
        return new
    node = copy.deepcopy(fnode)
    node.body = walk_block(node.body)
    return node if changed[0] else fnode
