"""Temporary-adjustment rule: a function that adjusts an attribute of a collaborating object and undoes the adjustment later (`x.n -= 1` ...
`x.n += 1`, `x.flag = True` ... `x.flag = False` is NOT covered, only inverse augmented assignments) performs the undo in a `finally` clause
whose try block covers everything between the two.  Otherwise any exception in between (a user model / callback raising inside the loop)
leaves the adjustment in place and every later call starts from the adjusted value: the budget shrinks by one per failed call.
"""
import ast
from .core import RuleResult, Finding, AnalysisError, dotted, src, norm_construct, guarded

INVERSE = {ast.Add: ast.Sub, ast.Sub: ast.Add, ast.Mult: ast.Div, ast.Div: ast.Mult}


def pairs(fnode):
    """[(adjust stmt, undo stmt, protected)]"""
    augs = [n for n in ast.walk(fnode) if isinstance(n, ast.AugAssign) and isinstance(n.target, ast.Attribute) and dotted(n.target)]
    out = []
    for a in augs:
        for b in augs:
            if b.lineno > a.lineno and dotted(a.target) == dotted(b.target) and type(b.op) is INVERSE.get(type(a.op)) and ast.dump(a.value) == ast.dump(b.value):
                protected = False
                for t in ast.walk(fnode):
                    if isinstance(t, ast.Try) and any(any(x is b for x in ast.walk(st)) for st in t.finalbody):
                        # the try must start right after the adjustment (nothing that can raise in between, other than the adjustment itself)
                        if t.lineno > a.lineno and not any(isinstance(x, ast.Call) for st in _between(fnode, a, t) for x in ast.walk(st)):
                            protected = True
                out.append((a, b, protected))
                break
    return out


def _between(fnode, a, t):
    """top-level statements of the enclosing body that lie strictly between statement a and try t"""
    for body_owner in ast.walk(fnode):
        for fld in ('body', 'orelse', 'finalbody'):
            body = getattr(body_owner, fld, None)
            if isinstance(body, list) and a in body and t in body:
                return body[body.index(a) + 1:body.index(t)]
    return [ast.Expr(ast.Call(ast.Name('unknown', ast.Load()), [], []))]


@guarded
def rule_restore(repo, rid, modules, floor=0):
    res = RuleResult(rid, 'an attribute adjusted for the duration of a call (x.n -= c ... x.n += c) is restored in a `finally` that covers everything in '
                     'between: an exception raised by user code inside must not leave the adjustment behind', floor=floor)
    n = 0
    for m in modules:
        for f in repo.functions_view(m):
            n += 1
            ps = pairs(f.node)
            if ps:
                res.inst({'function': f.fq, 'temporary adjustments': [(src(a), src(b), p) for a, b, p in ps]}, f.fq)
            for a, b, protected in ps:
                if not protected:
                    res.add(Finding(rid, f, '`%s` is undone by `%s` outside any `finally` covering the code in between: if that code raises (a user model, '
                                    'a solver, a callback), the adjustment stays and every later call starts from the adjusted value'
                                    % (src(a), src(b)), node=b, construct='temp-adjust|' + dotted(a.target)))
    if n == 0:
        raise AnalysisError('%s: no function analysed' % rid)
    fx = ast.parse('def f(self):\n    self.s.n -= 1\n    self.run()\n    self.s.n += 1\n'
                   'def g(self):\n    self.s.n -= 1\n    try:\n        self.run()\n    finally:\n        self.s.n += 1\n').body
    if [p for _, _, p in pairs(fx[0])] != [False] or [p for _, _, p in pairs(fx[1])] != [True]:
        raise AnalysisError('%s: fixtures no longer classified' % rid)
    return res
