"""E8 - Python-level value kinds: int / float / bool / str / tensor / none / unknown."""
import ast
from .core import dotted

FLOAT_FUNCS = {'math.log2', 'math.log', 'math.log10', 'math.sqrt', 'math.exp', 'math.pow', 'math.sin', 'math.cos',
               'math.tan', 'math.atan', 'math.atan2', 'math.fabs', 'float', 'math.log1p', 'math.hypot'}
INT_FUNCS = {'int', 'len', 'math.floor', 'math.ceil', 'math.trunc', 'round', 'math.isqrt', 'math.comb', 'math.factorial',
             'math.gcd', 'ord', 'hash'}
INT_METHODS = {'numel', 'dim', 'nelement', 'bit_length', 'ndimension', 'count', 'index', 'element_size'}
INT_ATTRS = {'ndim'}
TENSOR_PREFIX = ('torch.',)


def kind(e):
    """kind of an (already inlined) expression"""
    if isinstance(e, ast.Constant):
        v = e.value
        if isinstance(v, bool):
            return 'bool'
        if isinstance(v, int):
            return 'int'
        if isinstance(v, float):
            return 'float'
        if isinstance(v, str):
            return 'str'
        if v is None:
            return 'none'
        return 'unknown'
    if isinstance(e, ast.UnaryOp):
        if isinstance(e.op, ast.Not):
            return 'bool'
        return kind(e.operand)
    if isinstance(e, ast.BinOp):
        l, r = kind(e.left), kind(e.right)
        if 'tensor' in (l, r):
            return 'tensor'
        if isinstance(e.op, ast.Div):
            return 'float' if l in ('int', 'float', 'bool') and r in ('int', 'float', 'bool') else \
                   ('float' if 'float' in (l, r) else 'unknown')
        if isinstance(e.op, (ast.Add, ast.Sub, ast.Mult, ast.FloorDiv, ast.Mod)):
            if 'float' in (l, r) and l in ('int', 'float', 'bool') and r in ('int', 'float', 'bool'):
                return 'float'
            if 'float' in (l, r):
                return 'float' if 'unknown' not in (l, r) else 'unknown'
            if l in ('int', 'bool') and r in ('int', 'bool'):
                return 'int'
            return 'unknown'
        if isinstance(e.op, ast.Pow):
            if l == 'float' or r == 'float':
                return 'float' if 'unknown' not in (l, r) else 'unknown'
            if l == 'int' and isinstance(e.right, ast.Constant) and isinstance(e.right.value, int) and e.right.value >= 0:
                return 'int'
            return 'unknown'
        if isinstance(e.op, (ast.LShift, ast.RShift, ast.BitAnd, ast.BitOr, ast.BitXor)):
            return 'int' if l == r == 'int' else 'unknown'
        return 'unknown'
    if isinstance(e, ast.Call):
        d = dotted(e.func)
        if d in FLOAT_FUNCS:
            return 'float'
        if d in INT_FUNCS:
            return 'int'
        if d in ('max', 'min') and e.args:
            ks = {kind(a) for a in e.args}
            if ks <= {'int', 'bool'}:
                return 'int'
            if ks <= {'int', 'float', 'bool'}:
                return 'float'
            return 'unknown'
        if d and d.startswith(TENSOR_PREFIX):
            return 'tensor'
        if d == '$iter' and e.args and kind(e.args[0]) == 'tensor':
            return 'tensor'
        if isinstance(e.func, ast.Attribute):
            if e.func.attr in INT_METHODS:
                return 'int'
            if e.func.attr == 'size' and e.args:
                return 'int'
            if e.func.attr == 'item':
                return 'unknown'
            if kind(e.func.value) == 'tensor':
                return 'tensor'
        return 'unknown'
    if isinstance(e, ast.Subscript):
        # x.shape[i] / x.size()[i]
        v = e.value
        if isinstance(v, ast.Attribute) and v.attr == 'shape' and not isinstance(e.slice, ast.Slice):
            return 'int'
        if isinstance(v, ast.Call) and isinstance(v.func, ast.Attribute) and v.func.attr == 'size' and not isinstance(e.slice, ast.Slice):
            return 'int'
        if kind(v) == 'tensor':
            return 'tensor'
        return 'unknown'
    if isinstance(e, ast.Attribute):
        if e.attr in INT_ATTRS:
            return 'int'
        return 'unknown'
    if isinstance(e, ast.IfExp):
        a, b = kind(e.body), kind(e.orelse)
        return a if a == b else ('float' if {a, b} == {'int', 'float'} else 'unknown')
    if isinstance(e, ast.Compare):
        return 'bool'
    return 'unknown'


INT_DTYPES = {'torch.int64', 'torch.long', 'torch.int32', 'torch.int', 'torch.int16', 'torch.int8', 'torch.uint8',
              'torch.short'}
