"""E1 - structured path enumeration over Python's (structured) control flow.

A path is a tuple of events plus an exit kind.  Events:
  ('stmt', node)              simple statement executed (Assign, AugAssign, Expr, Assert, Return value, ...)
  ('assume', expr, bool)      branch / loop condition taken with that truth value
  ('iter', fornode, k)        k-th iteration of a for loop starts (target bound)
  ('head', loopnode, k)       loop test evaluated for the (k+1)-th time
  ('back', loopnode)          back edge taken
  ('cut', loopnode)           unrolling bound reached; the path leaves the loop here (over-approximation marker)
  ('raised', stmt)            statement inside a try body raised
  ('except', handler)         handler entered
  ('finally', trynode)        finally clause entered
  ('with', item)              with-item entered
  ('def', node)               nested function/class definition executed
Exit kinds: 'fall', 'return', 'raise', 'break', 'continue'.
Loops are unrolled 0..UNROLL times.
"""
from __future__ import annotations
import ast
from .core import AnalysisError

UNROLL = 2


class Budget:
    def __init__(self, limit, relevant=None, unroll=None):
        self.limit, self.truncated = limit, False
        self.relevant = relevant      # predicate on ast nodes; compound statements without any relevant
        self.unroll = unroll          # node and without escaping control flow are collapsed to one event
        self._rel = {}

    def collapsible(self, st):
        if self.relevant is None:
            return False
        k = id(st)
        if k not in self._rel:
            self._rel[k] = not escapes(st) and not any(self.relevant(n) for n in ast.walk(st))
        return self._rel[k]

    def unroll_of(self, loop):
        if self.unroll is None:
            return UNROLL
        return self.unroll(loop)


def escapes(st):
    """Return/Raise/Yield anywhere in st (outside nested defs), or break/continue leaving st."""
    def rec(n, in_loop):
        for c in ast.iter_child_nodes(n):
            if isinstance(c, (ast.FunctionDef, ast.AsyncFunctionDef, ast.ClassDef, ast.Lambda)):
                continue
            if isinstance(c, (ast.Return, ast.Raise, ast.Yield, ast.YieldFrom)):
                return True
            if isinstance(c, (ast.Break, ast.Continue)) and not in_loop:
                return True
            if rec(c, in_loop or isinstance(c, (ast.While, ast.For, ast.AsyncFor))):
                return True
        return False
    return rec(st, isinstance(st, (ast.While, ast.For, ast.AsyncFor)))


def may_raise(stmt):
    if isinstance(stmt, ast.Raise):
        return True
    for n in ast.walk(stmt):
        if isinstance(n, (ast.Call, ast.Yield, ast.YieldFrom, ast.Await, ast.Subscript, ast.BinOp)):
            return True
    return False


def _const_truth(e):
    if isinstance(e, ast.Constant):
        return bool(e.value)
    return None


def _cat(prefixes, stmts, budget):
    """continue every 'fall' path in prefixes through stmts"""
    out = []
    for ev, ex in prefixes:
        if ex != 'fall':
            out.append((ev, ex))
            continue
        for ev2, ex2 in block_paths(stmts, budget):
            out.append((ev + ev2, ex2))
            if len(out) > budget.limit:
                budget.truncated = True
                return out
    return out


def block_paths(stmts, budget):
    paths = [((), 'fall')]
    for st in stmts:
        nxt = []
        sp = None
        for ev, ex in paths:
            if ex != 'fall':
                nxt.append((ev, ex))
                continue
            if sp is None:
                sp = stmt_paths(st, budget)
            for ev2, ex2 in sp:
                nxt.append((ev + ev2, ex2))
            if len(nxt) > budget.limit:
                budget.truncated = True
                nxt = nxt[:budget.limit]
                break
        paths = nxt
    return paths


def stmt_paths(st, budget):
    if isinstance(st, (ast.FunctionDef, ast.AsyncFunctionDef, ast.ClassDef)):
        return [((('def', st),), 'fall')]
    if isinstance(st, ast.Return):
        return [((('stmt', st),), 'return')]
    if isinstance(st, ast.Raise):
        return [((('stmt', st),), 'raise')]
    if isinstance(st, ast.Break):
        return [((), 'break')]
    if isinstance(st, ast.Continue):
        return [((), 'continue')]
    if isinstance(st, (ast.If, ast.While, ast.For, ast.AsyncFor, ast.With, ast.AsyncWith, ast.Try)) \
            and budget.collapsible(st):
        return [((('stmt', st),), 'fall')]
    if isinstance(st, ast.If):
        out = []
        t = _const_truth(st.test)
        if t is not False:
            for ev, ex in block_paths(st.body, budget):
                out.append(((('assume', st.test, True),) + ev, ex))
        if t is not True:
            for ev, ex in block_paths(st.orelse, budget):
                out.append(((('assume', st.test, False),) + ev, ex))
        return out
    if isinstance(st, (ast.While, ast.For, ast.AsyncFor)):
        return _loop_paths(st, budget)
    if isinstance(st, (ast.With, ast.AsyncWith)):
        pre = tuple(('with', it) for it in st.items)
        return [(pre + ev, ex) for ev, ex in block_paths(st.body, budget)]
    if isinstance(st, ast.Try) or st.__class__.__name__ == 'TryStar':
        return _try_paths(st, budget)
    if isinstance(st, ast.Match):
        out = []
        for c in st.cases:
            for ev, ex in block_paths(c.body, budget):
                out.append(((('stmt', ast.Expr(st.subject)),) + ev, ex))
        out.append(((('stmt', ast.Expr(st.subject)),), 'fall'))
        return out
    return [((('stmt', st),), 'fall')]


def _loop_paths(st, budget):
    is_while = isinstance(st, ast.While)
    body = block_paths(st.body, budget)
    ctruth = _const_truth(st.test) if is_while else None
    results = []
    # frontier: list of event-prefixes that are about to evaluate the loop test for the (k+1)-th time
    frontier = [()]
    UN = budget.unroll_of(st)
    for k in range(UN + 1):
        nxt = []
        for pre in frontier:
            head = pre + (('head', st, k),)
            # leave the loop normally
            if ctruth is not True:
                leave = head + ((('assume', st.test, False),) if is_while else ())
                for ev, ex in block_paths(st.orelse, budget) if st.orelse else [((), 'fall')]:
                    results.append((leave + ev, ex))
            if k == UN:
                results.append((head + (('cut', st),), 'fall'))
                continue
            enter = head + ((('assume', st.test, True),) if is_while else (('iter', st, k),))
            for ev, ex in body:
                p = enter + ev
                if ex == 'break':
                    results.append((p, 'fall'))
                elif ex in ('fall', 'continue'):
                    nxt.append(p + (('back', st),))
                else:
                    results.append((p, ex))
                if len(results) + len(nxt) > budget.limit:
                    budget.truncated = True
                    break
        frontier = nxt
        if len(results) > budget.limit:
            budget.truncated = True
            break
    return results


def _try_paths(st, budget):
    body = block_paths(st.body, budget)
    handlers = list(st.handlers)
    catches_all = any(h.type is None or (isinstance(h.type, ast.Name) and h.type.id in ('Exception', 'BaseException'))
                      for h in handlers)
    mid = []   # (events, exit) before finally
    seen_raise_prefix = set()
    for ev, ex in body:
        if ex == 'fall':
            if st.orelse:
                for ev2, ex2 in block_paths(st.orelse, budget):
                    mid.append((ev + ev2, ex2))
            else:
                mid.append((ev, ex))
        elif ex == 'raise':
            _dispatch(ev, handlers, catches_all, mid, budget)
        else:
            mid.append((ev, ex))
        # exception at every may-raise statement of this path
        for i, e in enumerate(ev):
            if e[0] == 'stmt' and may_raise(e[1]) and not isinstance(e[1], ast.Raise):
                key = tuple((x[0], id(x[1])) + tuple(x[2:]) for x in ev[:i + 1])
                if key in seen_raise_prefix:
                    continue
                seen_raise_prefix.add(key)
                _dispatch(ev[:i] + (('raised', e[1]),), handlers, catches_all, mid, budget)
        if len(mid) > budget.limit:
            budget.truncated = True
            break
    if not st.finalbody:
        return mid
    fin = block_paths(st.finalbody, budget)
    out = []
    for ev, ex in mid:
        for ev2, ex2 in fin:
            out.append((ev + (('finally', st),) + ev2, ex if ex2 == 'fall' else ex2))
    return out


def _dispatch(prefix, handlers, catches_all, mid, budget):
    for h in handlers:
        for ev2, ex2 in block_paths(h.body, budget):
            mid.append((prefix + (('except', h),) + ev2, ex2))
    if not catches_all:
        mid.append((prefix, 'raise'))


def function_paths(fnode, limit=4096, strict=True, relevant=None, unroll=None):
    """All bounded paths through a function body -> (list[(events, exit)], truncated).
    relevant: predicate(node) - compound statements containing no relevant node are collapsed.
    unroll: function(loopnode) -> max iterations explored (default UNROLL)."""
    b = Budget(limit, relevant, unroll)
    body = fnode.body
    paths = block_paths(body, b)
    if b.truncated and strict:
        raise AnalysisError('path bound %d exceeded in %s' % (limit, fnode.name))
    return paths, b.truncated


def calls_in(node):
    """Call nodes in evaluation-ish order (inner first), not descending into nested defs/lambdas."""
    out = []

    def rec(n, top=False):
        if not top and isinstance(n, (ast.FunctionDef, ast.AsyncFunctionDef, ast.ClassDef, ast.Lambda)):
            return
        for c in ast.iter_child_nodes(n):
            rec(c)
        if isinstance(n, ast.Call):
            out.append(n)
    rec(node, True)
    return out
