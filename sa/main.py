"""CLI: ./check <ID> [--tier quick|thorough] [--replay path] [--root dir]
exit 0 = all rule instances held (or matched known findings); 1 = VIOLATION; 2 = ANALYSIS-ERROR."""
import sys, os, json, argparse, importlib, traceback


def main(argv=None):
    ap = argparse.ArgumentParser()
    ap.add_argument('prop')
    ap.add_argument('--tier', default=os.environ.get('VERIF_TIER', 'quick'))
    ap.add_argument('--replay')
    ap.add_argument('--root')
    ap.add_argument('--no-selftest', action='store_true')
    a = ap.parse_args(argv)
    try:
        from .core import run_property, AnalysisError
        from .registry import PROPS
        if a.prop == 'ALL':
            rc = 0
            for p in sorted(PROPS):
                rc = max(rc, main([p, '--tier', a.tier] + (['--root', a.root] if a.root else [])))
            return rc
        if a.prop not in PROPS:
            print('ANALYSIS-ERROR unknown property %s' % a.prop)
            return 2
        mod = importlib.import_module('sa.rules.' + a.prop.lower())
        tier = a.tier if a.tier in ('quick', 'thorough') else 'quick'
        if a.replay:
            with open(a.replay) as fh:
                rep = json.load(fh)
            rc, _, viol = run_property(a.prop, mod.rules, tier, root=a.root, write=False, only_key=rep['key'])
            print('replay: finding %s' % ('REPRODUCED' if rc else 'no longer present'))
            return rc
        rc, results, viol = run_property(a.prop, mod.rules, tier, root=a.root)
        if tier == 'thorough' and not a.no_selftest and rc == 0:
            from . import selftest
            ok = selftest.run_for(a.prop, root=a.root)
            if not ok:
                print('ANALYSIS-ERROR sensitivity self-test failed for %s (the checker is not trustworthy on this tree)' % a.prop)
                return 2
            from . import battery
            if a.root:
                battery.ROOT = a.root
            fa = battery.run_for(a.prop)
            print('  false-alarm battery %s: 13 whole-package behaviour-preserving rewrites, %d false alarms' % (a.prop, len(fa)))
            for x in fa[:10]:
                print('    FALSE-ALARM %s %s %s' % x)
            try:
                import json as _json
                evp = os.path.join(os.path.dirname(os.path.dirname(os.path.abspath(__file__))), 'evidence', a.prop + '.json')
                d = _json.load(open(evp))
                d['coverage']['false_alarm_battery'] = {'modes': ['unparse', 'rename', 'rettemp', 'split', 'swap', 'assert2raise', 'meth2func', 'dimkw', 'cmpflip', 'elseflip', 'merge', 'ternary2if', 'if2ternary'], 'false_alarms': len(fa),
                                                        'details': [list(x) for x in fa[:20]]}
                _json.dump(d, open(evp, 'w'), indent=1, default=str)
            except OSError:
                pass
            if fa:
                print('ANALYSIS-ERROR %s: the rules fire on behaviour-preserving rewrites of the current tree' % a.prop)
                return 2
        return rc
    except Exception as e:   # noqa
        from .core import AnalysisError
        if isinstance(e, AnalysisError):
            print('ANALYSIS-ERROR %s: %s' % (a.prop, e))
        else:
            print('ANALYSIS-ERROR %s: internal exception' % a.prop)
            traceback.print_exc()
        return 2


if __name__ == '__main__':
    sys.exit(main())
