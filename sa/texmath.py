"""A small parser for the LaTeX formulas of the kernel docstrings -> Python `ast` expressions.

Only the constructs that occur in the documented closed forms are understood: numbers, the symbols \\delta, a, b, \\bm{x}_i (-> x), + - * /,
juxtaposition (product), ^ with a braced or single-token exponent, \\sqrt{..}, \\frac{..}{..}, \\left( .. \\right), \\log, \\arctan, e^{..}, and a
`cases` environment with `& \\text{if } <lhs> < <rhs>` / `& \\text{otherwise}` rows.  Anything else raises TexError: the caller records the
formula as undecided, never as a finding.
"""
import ast
import re


class TexError(Exception):
    pass


TOKEN = re.compile(r'\s*(\\[A-Za-z]+|[0-9]+(?:\.[0-9]+)?|[A-Za-z]|[-+*/^_(){}<>=,&]|\\\\)')
SYMBOLS = {'\\delta': 'delta', 'a': 'a', 'b': 'b'}
FUNCS = {'\\log': 'log', '\\ln': 'log', '\\arctan': 'atan', '\\exp': 'exp', '\\sin': 'sin', '\\cos': 'cos', '\\tan': 'tan'}


def tokenize(s):
    s = s.replace('\\left', '').replace('\\right', '').replace('\\,', ' ').replace('\\!', ' ').replace('\\;', ' ').replace('\\cdot', '*')
    out, i = [], 0
    s = s.strip()
    while i < len(s):
        m = TOKEN.match(s, i)
        if not m:
            if s[i].isspace():
                i += 1
                continue
            raise TexError('cannot tokenise at %r' % s[i:i + 12])
        out.append(m.group(1))
        i = m.end()
    return out


def _call(name, arg):
    return ast.Call(ast.Attribute(ast.Name('torch', ast.Load()), name, ast.Load()), [arg], [])


class Parser:
    def __init__(self, toks):
        self.t, self.i = toks, 0

    def peek(self):
        return self.t[self.i] if self.i < len(self.t) else None

    def take(self, want=None):
        tok = self.peek()
        if tok is None or (want is not None and tok != want):
            raise TexError('expected %r, found %r' % (want, tok))
        self.i += 1
        return tok

    def group(self):
        """{ expr }  or a single atom"""
        if self.peek() == '{':
            self.take('{')
            e = self.expr() if self.peek() != '}' else None
            self.take('}')
            return e
        return self.atom_single()

    def expr(self):
        neg = False
        if self.peek() in ('-', '+'):
            neg = self.take() == '-'
        e = self.term()
        if neg:
            e = ast.UnaryOp(ast.USub(), e)
        while self.peek() in ('+', '-'):
            op = self.take()
            r = self.term()
            e = ast.BinOp(e, ast.Add() if op == '+' else ast.Sub(), r)
        return e

    def starts_factor(self):
        tok = self.peek()
        return tok is not None and (tok in ('(', '{') or tok[0].isdigit() or tok in SYMBOLS or tok in FUNCS or tok in ('\\sqrt', '\\frac', '\\bm', 'e', 'x'))

    def term(self):
        e = self.power()
        while True:
            if self.peek() in ('*', '/'):
                op = self.take()
                r = self.power()
                e = ast.BinOp(e, ast.Mult() if op == '*' else ast.Div(), r)
            elif self.starts_factor():
                r = self.power()
                e = ast.BinOp(e, ast.Mult(), r)
            else:
                return e

    def power(self):
        b = self.atom()
        if self.peek() == '^':
            self.take('^')
            ex = self.group()
            if isinstance(b, ast.Name) and b.id == '$e':
                return _call('exp', ex)
            b = ast.BinOp(b, ast.Pow(), ex)
        if isinstance(b, ast.Name) and b.id == '$e':
            raise TexError('bare e')
        return b

    def atom_single(self):
        tok = self.take()
        if tok[0].isdigit():
            return ast.Constant(float(tok) if '.' in tok else int(tok))
        if tok in SYMBOLS:
            return ast.Name(SYMBOLS[tok], ast.Load())
        if tok == 'x':
            return ast.Name('x', ast.Load())
        if tok == 'e':
            return ast.Name('$e', ast.Load())
        raise TexError('unexpected token %r' % tok)

    def atom(self):
        tok = self.peek()
        if tok is None:
            raise TexError('unexpected end')
        if tok == '(':
            self.take('(')
            e = self.expr()
            self.take(')')
            return e
        if tok == '{':
            self.take('{')
            e = self.expr() if self.peek() != '}' else None
            self.take('}')
            if e is None:
                raise TexError('empty group')
            # {\delta{}} : an empty group after a symbol is typographic
            return e
        if tok == '\\sqrt':
            self.take()
            return _call('sqrt', self.group())
        if tok == '\\frac':
            self.take()
            n = self.group()
            d = self.group()
            return ast.BinOp(n, ast.Div(), d)
        if tok == '\\bm':
            self.take()
            self.take('{')
            name = self.take()
            self.take('}')
            if self.peek() == '_':
                self.take('_')
                if self.peek() == '{':
                    while self.take() != '}':
                        pass
                else:
                    self.take()
            if name not in ('x',):
                raise TexError('unknown bold symbol %r' % name)
            return ast.Name('x', ast.Load())
        if tok in FUNCS:
            self.take()
            arg = self.atom() if self.peek() in ('(', '{') else self.power()
            return _call(FUNCS[tok], arg)
        e = self.atom_single()
        # typographic empty group: \delta{}
        while self.peek() == '{' and self.i + 1 < len(self.t) and self.t[self.i + 1] == '}':
            self.take('{')
            self.take('}')
        return e


def parse_expr(s):
    p = Parser(tokenize(s))
    e = p.expr()
    if p.peek() is not None:
        raise TexError('trailing %r' % p.peek())
    return ast.fix_missing_locations(ast.Expression(e)).body


def parse_definition(block):
    """block: the text of a `.. math::` directive defining  \\bm{y}_i = <rhs>.
    -> [(condition | None, expr)] ; condition = (lhs expr, '<' | '<=' | '>' | '>=', rhs expr)"""
    s = ' '.join(block.split())
    s = s.rstrip(',. ')
    if '=' not in s:
        raise TexError('no definition')
    head, rhs = s.split('=', 1)
    if 'y' not in head:
        raise TexError('not a definition of y')
    rhs = rhs.strip().rstrip(',. ')
    m = re.match(r'\\begin\{cases\}(.*)\\end\{cases\}', rhs)
    if not m:
        return [(None, parse_expr(rhs))]
    rows = [r.strip() for r in m.group(1).split('\\\\') if r.strip()]
    out = []
    for r in rows:
        if '&' not in r:
            raise TexError('cases row without &')
        val, cond = r.split('&', 1)
        cond = cond.strip()
        c = None
        mm = re.match(r'\\text\{\s*if\s*\}\s*(.*)$', cond)
        if mm:
            body = mm.group(1)
            op = next((o for o in ('\\leq', '\\geq', '\\le', '\\ge', '<=', '>=', '<', '>') if o in body), None)
            if op is None:
                raise TexError('condition without comparison')
            l, r_ = body.split(op, 1)
            c = (parse_expr(l), {'\\leq': '<=', '\\le': '<=', '\\geq': '>=', '\\ge': '>='}.get(op, op), parse_expr(r_))
        elif not re.match(r'\\text\{\s*otherwise\s*\}', cond):
            raise TexError('unknown case condition %r' % cond[:30])
        out.append((c, parse_expr(val)))
    return out


def math_blocks(doc):
    """the indented bodies of the `.. math::` directives of a (cleaned) docstring"""
    out, lines, i = [], doc.split('\n'), 0
    while i < len(lines):
        if lines[i].strip() == '.. math::':
            j, body = i + 1, []
            while j < len(lines) and (not lines[j].strip() or lines[j][:1].isspace()):
                body.append(lines[j])
                j += 1
            out.append('\n'.join(body))
            i = j
        else:
            i += 1
    return out
