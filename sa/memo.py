"""Memo rule: a function whose contract is "result = f(arguments)" keeps nothing computed from the DATA of a tensor argument in storage
that outlives the call (module-level containers, globals, function attributes, lru_cache on a tensor parameter).

Why this is a necessary condition and not a style rule: a tensor has no value-based key - its hash and `is` are object identity, and its
contents can be changed in place (copy_, +=, x[i] = ...) without the object changing.  So any cache whose stored value depends on the
contents of a tensor argument is consulted, on a later call, for an argument it cannot distinguish from the one it was filled with: the
later call returns the result of the earlier data.  A cache whose stored value depends only on non-tensor arguments (sizes, dtypes,
devices, ints) is NOT reported: it is keyed by value and behaviour-preserving.
"""
import ast
from .core import RuleResult, Finding, AnalysisError, dotted, src, norm_construct, guarded, guarded_list

META_ATTRS = {'shape', 'dtype', 'device', 'ndim', 'layout', 'requires_grad', 'is_cuda', 'ltype', 'lshape', 'is_sparse'}
META_CALLS = {'size', 'dim', 'numel', 'type', 'get_device', 'element_size', 'stride', 'is_floating_point', 'is_complex'}
TENSOR_ATTRS = {'unsqueeze', 'squeeze', 'view', 'reshape', 'sum', 'mean', 'norm', 'clone', 'detach', 'to', 'mT', 'T', 'transpose', 'permute',
                'expand', 'repeat', 'flatten', 'contiguous', 'abs', 'min', 'max', 'topk', 'sort', 'argsort', 'float', 'double', 'long', 'int',
                'matmul', 'tensor', 'Inv', 'Log', 'Exp', 'Act', 'matrix', 'rotation', 'translation', 'cumsum', 'cumprod', 'index_select',
                'gather', 'masked_fill', 'any', 'all', 'item', 'tolist', 'numpy', 'cpu', 'cuda', 'new_zeros', 'new_ones', 'new_empty',
                'movedim', 'roll', 'flip', 'unbind', 'chunk', 'split', 'copy_', 'add_', 'mul_', 'zero_', 'fill_', 'requires_grad_'}
MUTATORS = {'append', 'add', 'update', 'setdefault', 'insert', 'extend', '__setitem__', 'appendleft', 'put'}
CACHE_DECOS = {'lru_cache', 'cache', 'cached', 'memoize', 'memoized'}


def tensor_params(fnode):
    a = fnode.args
    params = [p for p in a.posonlyargs + a.args + a.kwonlyargs]
    out = set()
    names = {p.arg for p in params}
    for p in params:
        if p.annotation is not None and ('Tensor' in src(p.annotation) or 'LieTensor' in src(p.annotation)):
            out.add(p.arg)
    for n in ast.walk(fnode):
        if isinstance(n, ast.Attribute) and isinstance(n.value, ast.Name) and n.value.id in names and n.attr in TENSOR_ATTRS | META_ATTRS - {'type'}:
            out.add(n.value.id)
        elif isinstance(n, ast.Subscript) and isinstance(n.value, ast.Name) and n.value.id in names:
            sl = n.slice
            elts = sl.elts if isinstance(sl, ast.Tuple) else [sl]
            if any(isinstance(x, ast.Slice) or (isinstance(x, ast.Constant) and (x.value is Ellipsis or x.value is None)) for x in elts):
                out.add(n.value.id)
        elif isinstance(n, ast.BinOp) and isinstance(n.op, ast.MatMult):
            for x in (n.left, n.right):
                if isinstance(x, ast.Name) and x.id in names:
                    out.add(x.id)
        elif isinstance(n, ast.Call) and (dotted(n.func) or '').startswith('torch.') and (dotted(n.func) or '').split('.')[-1] not in ('Size', 'device', 'dtype'):
            for x in n.args:
                if isinstance(x, ast.Name) and x.id in names:
                    out.add(x.id)
    if a.args and a.args[0].arg in ('self', 'cls'):
        out.discard(a.args[0].arg)
    return out


def data_names(e):
    """names whose DATA (not only metadata) the value of e depends on"""
    out = set()

    def rec(n):
        if isinstance(n, ast.Attribute) and n.attr in META_ATTRS and isinstance(n.value, ast.Name):
            return
        if isinstance(n, ast.Call) and isinstance(n.func, ast.Attribute) and n.func.attr in META_CALLS and isinstance(n.func.value, ast.Name):
            for a in n.args:
                rec(a)
            return
        if isinstance(n, ast.Call) and isinstance(n.func, ast.Name) and n.func.id in ('len', 'type', 'isinstance', 'id'):
            return
        if isinstance(n, ast.Name) and isinstance(n.ctx, ast.Load):
            out.add(n.id)
        if isinstance(n, ast.Lambda):
            rec(n.body)
            return
        for c in ast.iter_child_nodes(n):
            rec(c)
    rec(e)
    return out


def _own_nodes(fnode):
    stack = list(fnode.body)
    while stack:
        n = stack.pop()
        if isinstance(n, (ast.FunctionDef, ast.AsyncFunctionDef, ast.ClassDef)):
            continue
        yield n
        stack.extend(ast.iter_child_nodes(n))


def _targets(t):
    if isinstance(t, (ast.Tuple, ast.List)):
        for x in t.elts:
            yield from _targets(x)
    elif isinstance(t, ast.Starred):
        yield from _targets(t.value)
    else:
        yield t


def analyse_function(repo, f):
    """-> (stores, tainted): stores = [(node, label, value_exprs)] writes into storage that outlives the call"""
    fn = f.node
    a = fn.args
    params = {p.arg for p in a.posonlyargs + a.args + a.kwonlyargs} | ({a.vararg.arg} if a.vararg else set()) | ({a.kwarg.arg} if a.kwarg else set())
    globs = set()
    local = set(params)
    for n in _own_nodes(fn):
        if isinstance(n, ast.Global):
            globs |= set(n.names)
    for n in _own_nodes(fn):
        if isinstance(n, (ast.Assign, ast.AnnAssign, ast.AugAssign)):
            tg = n.targets if isinstance(n, ast.Assign) else [n.target]
            for t in tg:
                for x in _targets(t):
                    if isinstance(x, ast.Name) and x.id not in globs:
                        local.add(x.id)
        elif isinstance(n, (ast.For, ast.comprehension)):
            for x in _targets(n.target):
                if isinstance(x, ast.Name):
                    local.add(x.id)
        elif isinstance(n, (ast.With,)):
            for it in n.items:
                if it.optional_vars is not None:
                    for x in _targets(it.optional_vars):
                        if isinstance(x, ast.Name):
                            local.add(x.id)
        elif isinstance(n, ast.NamedExpr) and isinstance(n.target, ast.Name):
            local.add(n.target.id)

    def outliving(name):
        """module-level variable / function (attribute store on it) reachable by this bare name"""
        if name in local and name not in globs:
            return None
        r = repo.resolve_global(f.module.name, name)
        if r is None:
            return None
        if r[0] == 'var':
            return 'module-level %s.%s' % (r[1].name, r[2])
        if r[0] == 'func':
            return 'attribute of function %s' % r[1].fq
        return None

    # data taint
    tainted = set(tensor_params(fn))
    assigns = []
    for n in _own_nodes(fn):
        if isinstance(n, (ast.Assign, ast.AnnAssign, ast.AugAssign)) and getattr(n, 'value', None) is not None:
            tg = n.targets if isinstance(n, ast.Assign) else [n.target]
            assigns.append((tg, n.value))
        elif isinstance(n, ast.For):
            assigns.append(([n.target], n.iter))
        elif isinstance(n, ast.NamedExpr):
            assigns.append(([n.target], n.value))
    changed = True
    while changed:
        changed = False
        for tg, v in assigns:
            if data_names(v) & tainted:
                for t in tg:
                    for x in _targets(t):
                        if isinstance(x, ast.Name) and x.id not in tainted:
                            tainted.add(x.id)
                            changed = True
    stores = []
    for n in _own_nodes(fn):
        if isinstance(n, (ast.Assign, ast.AnnAssign, ast.AugAssign)) and getattr(n, 'value', None) is not None:
            tg = n.targets if isinstance(n, ast.Assign) else [n.target]
            for t in tg:
                for x in _targets(t):
                    if isinstance(x, ast.Name) and x.id in globs:
                        stores.append((n, 'global %s' % x.id, [n.value]))
                    elif isinstance(x, (ast.Subscript, ast.Attribute)):
                        b = x
                        while isinstance(b, (ast.Subscript, ast.Attribute)):
                            b = b.value
                        if isinstance(b, ast.Name):
                            lab = outliving(b.id)
                            if lab:
                                vals = [n.value] + ([x.slice] if isinstance(x, ast.Subscript) else [])
                                stores.append((n, lab, vals))
        elif isinstance(n, ast.Call) and isinstance(n.func, ast.Attribute) and n.func.attr in MUTATORS:
            b = n.func.value
            while isinstance(b, (ast.Subscript, ast.Attribute)):
                b = b.value
            if isinstance(b, ast.Name):
                lab = outliving(b.id)
                if lab:
                    stores.append((n, lab, list(n.args) + [k.value for k in n.keywords]))
    return stores, tainted


def generator_publications(repo, f):
    """writes into storage that outlives the call made at or after a yield point of a generator function (directly or through a local alias
    of the published container): the entry is visible to other calls before it is complete"""
    fn = f.node
    own = list(_own_nodes(fn))
    yields = [n for n in own if isinstance(n, (ast.Yield, ast.YieldFrom))]
    if not yields:
        return []
    stores, _ = analyse_function(repo, f)
    if not stores:
        return []
    # local aliases of published containers: `a = G[k] = []`, `a = G[k]`, `a = G.setdefault(k, [])`
    alias = {}
    for n, lab, vals in stores:
        if isinstance(n, ast.Assign) and len(n.targets) > 1:
            for t in n.targets:
                if isinstance(t, ast.Name):
                    alias[t.id] = lab
    loops_with_yield = [n for n in own if isinstance(n, (ast.For, ast.While)) and any(isinstance(x, (ast.Yield, ast.YieldFrom)) for x in ast.walk(n))]
    first_yield = min(y.lineno for y in yields)
    out = []

    def late(n):
        return n.lineno > first_yield or any(any(x is n for x in ast.walk(l)) for l in loops_with_yield)
    for n, lab, vals in stores:
        if late(n):
            out.append((n, lab))
    for n in own:
        if isinstance(n, ast.Call) and isinstance(n.func, ast.Attribute) and n.func.attr in MUTATORS and isinstance(n.func.value, ast.Name) \
                and n.func.value.id in alias and late(n):
            out.append((n, alias[n.func.value.id]))
    return out


@guarded
def rule_memo(repo, rid, text, modules, floor=None, positive_fixture=True):
    res = RuleResult(rid, text, floor=floor if floor is not None else 1)
    n_fn = 0
    for m in modules:
        mi = repo.module(m)
        for f in mi.functions.values():
            n_fn += 1
            stores, tainted = analyse_function(repo, f)
            decos = {d.split('.')[-1] for d in f.decorator_names()}
            tp = tensor_params(f.node)
            cached = bool(decos & CACHE_DECOS)
            res.inst({'function': f.fq, 'writes to storage outliving the call': [(lab, src(n)[:60]) for n, lab, _ in stores],
                      'value cache decorator': cached, 'tensor parameters': sorted(tp)}, f.fq if (stores or cached) else None)
            if cached and tp:
                res.add(Finding(rid, f, '%s is memoised by a cache decorator but takes the tensor argument(s) %s: the cache key is the object identity, '
                                'a later call with the same object and other contents gets the earlier result' % (f.qual, sorted(tp)),
                                node=f.node, construct='cache-decorator'))
            for n, lab, vals in stores:
                dep = sorted(set().union(*[data_names(v) for v in vals]) & tainted) if vals else []
                if dep:
                    res.add(Finding(rid, f, '`%s` keeps a value computed from the contents of the tensor argument (via %s) in %s, which outlives the call: '
                                    'a tensor has no value key (identity hash, in-place updates), so a later call can be answered from the earlier data'
                                    % (src(n)[:70], ', '.join(dep), lab), node=n, construct='store|%s|%s' % (lab, norm_construct(n, f.node))))
            for n, lab in generator_publications(repo, f):
                res.add(Finding(rid, f, '`%s` fills %s step by step from inside a generator: a consumer that stops early (exception, break) leaves a '
                                'truncated entry that every later call reads as complete' % (src(n)[:70], lab), node=n,
                                construct='generator-publish|%s|%s' % (lab, norm_construct(n, f.node))))
    if n_fn == 0:
        raise AnalysisError('%s: no function analysed' % rid)
    if positive_fixture:
        _fixture(rid)
    return res


def _fixture(rid):
    """the rule must recognise the pattern it exists for (expected count on the tree is zero)"""
    code = ('_keep = {}\n'
            'def f(points, k):\n'
            '    d = points.unsqueeze(-2) - points.unsqueeze(-3)\n'
            '    _keep[k] = d.sum()\n'
            '    return d\n'
            'def g(n, device):\n'
            '    _keep[(n, device)] = list(range(n))\n'
            '    return _keep[(n, device)]\n')
    from .core import ModuleInfo

    class _R:
        def resolve_global(self, mod, name):
            return ('var', mi, name, None) if name == '_keep' else None
    mi = ModuleInfo('fixture', 'fixture.py', code, False)
    got = {}
    for f in mi.functions.values():
        stores, tainted = analyse_function(_R(), f)
        got[f.qual] = [bool(set().union(*[data_names(v) for v in vals]) & tainted) for _, _, vals in stores]
    if got.get('f') != [True] or got.get('g') != [False]:
        raise AnalysisError('%s: positive/negative fixture no longer classified (%r)' % (rid, got))
