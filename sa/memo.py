"""Memo rule: a function whose contract is "result = f(arguments)" keeps nothing computed from the DATA of a tensor argument in storage
that outlives the call (module-level containers, globals, function attributes, lru_cache on a tensor parameter).

Why this is a necessary condition and not a style rule: a tensor has no value-based key - its hash and `is` are object identity, and its
contents can be changed in place (copy_, +=, x[i] = ...) without the object changing.  So any cache whose stored value depends on the
contents of a tensor argument is consulted, on a later call, for an argument it cannot distinguish from the one it was filled with: the
later call returns the result of the earlier data.  A cache whose stored value depends only on non-tensor arguments (sizes, dtypes,
devices, ints) is NOT reported: it is keyed by value and behaviour-preserving.
"""
import ast
from .core import RuleResult, Finding, AnalysisError, dotted, src, norm_construct, guarded, guarded_list

META_ATTRS = {'shape', 'dtype', 'device', 'ndim', 'layout', 'requires_grad', 'is_cuda', 'ltype', 'lshape', 'is_sparse'}
META_CALLS = {'size', 'dim', 'numel', 'type', 'get_device', 'element_size', 'stride', 'is_floating_point', 'is_complex'}
TENSOR_ATTRS = {'unsqueeze', 'squeeze', 'view', 'reshape', 'sum', 'mean', 'norm', 'clone', 'detach', 'to', 'mT', 'T', 'transpose', 'permute',
                'expand', 'repeat', 'flatten', 'contiguous', 'abs', 'min', 'max', 'topk', 'sort', 'argsort', 'float', 'double', 'long', 'int',
                'matmul', 'tensor', 'Inv', 'Log', 'Exp', 'Act', 'matrix', 'rotation', 'translation', 'cumsum', 'cumprod', 'index_select',
                'gather', 'masked_fill', 'any', 'all', 'item', 'tolist', 'numpy', 'cpu', 'cuda', 'new_zeros', 'new_ones', 'new_empty',
                'movedim', 'roll', 'flip', 'unbind', 'chunk', 'split', 'copy_', 'add_', 'mul_', 'zero_', 'fill_', 'requires_grad_'}
# torch functions whose positional arguments are sizes / scalars, not tensors
SIZE_FUNCS = {'Size', 'device', 'dtype', 'eye', 'zeros', 'ones', 'empty', 'full', 'arange', 'rand', 'randn', 'randint', 'linspace', 'logspace', 'tensor',
              'as_tensor', 'manual_seed', 'set_default_dtype', 'finfo', 'iinfo', 'randperm', 'tril_indices', 'triu_indices', 'scalar_tensor'}
MUTATORS = {'append', 'add', 'update', 'setdefault', 'insert', 'extend', '__setitem__', 'appendleft', 'put'}
CACHE_DECOS = {'lru_cache', 'cache', 'cached', 'memoize', 'memoized'}


def tensor_params(fnode):
    a = fnode.args
    params = [p for p in a.posonlyargs + a.args + a.kwonlyargs]
    out = set()
    names = {p.arg for p in params}
    for p in params:
        if p.annotation is not None and ('Tensor' in src(p.annotation) or 'LieTensor' in src(p.annotation)):
            out.add(p.arg)
    for n in ast.walk(fnode):
        if isinstance(n, ast.Attribute) and isinstance(n.value, ast.Name) and n.value.id in names and n.attr in TENSOR_ATTRS | META_ATTRS - {'type'}:
            out.add(n.value.id)
        elif isinstance(n, ast.Subscript) and isinstance(n.value, ast.Name) and n.value.id in names:
            sl = n.slice
            elts = sl.elts if isinstance(sl, ast.Tuple) else [sl]
            if any(isinstance(x, ast.Slice) or (isinstance(x, ast.Constant) and (x.value is Ellipsis or x.value is None)) for x in elts):
                out.add(n.value.id)
        elif isinstance(n, ast.BinOp) and isinstance(n.op, ast.MatMult):
            for x in (n.left, n.right):
                if isinstance(x, ast.Name) and x.id in names:
                    out.add(x.id)
        elif isinstance(n, ast.Call) and (dotted(n.func) or '').startswith('torch.') and (dotted(n.func) or '').split('.')[-1] not in SIZE_FUNCS:
            for x in n.args:
                if isinstance(x, ast.Name) and x.id in names:
                    out.add(x.id)
    if a.args and a.args[0].arg in ('self', 'cls'):
        out.discard(a.args[0].arg)
    return out


def data_names(e):
    """names whose DATA (not only metadata) the value of e depends on"""
    out = set()

    def rec(n):
        if isinstance(n, ast.Attribute) and n.attr in META_ATTRS and isinstance(n.value, ast.Name):
            return
        if isinstance(n, ast.Call) and isinstance(n.func, ast.Attribute) and n.func.attr in META_CALLS and isinstance(n.func.value, ast.Name):
            for a in n.args:
                rec(a)
            return
        if isinstance(n, ast.Call) and isinstance(n.func, ast.Name) and n.func.id in ('len', 'type', 'isinstance', 'id'):
            return
        if isinstance(n, ast.Name) and isinstance(n.ctx, ast.Load):
            out.add(n.id)
        if isinstance(n, ast.Lambda):
            rec(n.body)
            return
        for c in ast.iter_child_nodes(n):
            rec(c)
    rec(e)
    return out


def _own_nodes(fnode):
    stack = list(fnode.body)
    while stack:
        n = stack.pop()
        if isinstance(n, (ast.FunctionDef, ast.AsyncFunctionDef, ast.ClassDef)):
            continue
        yield n
        stack.extend(ast.iter_child_nodes(n))


def _targets(t):
    if isinstance(t, (ast.Tuple, ast.List)):
        for x in t.elts:
            yield from _targets(x)
    elif isinstance(t, ast.Starred):
        yield from _targets(t.value)
    else:
        yield t


def analyse_function(repo, f, tensor_self=None):
    """-> (stores, tainted): stores = [(node, label, value_exprs)] writes into storage that outlives the call"""
    fn = f.node
    a = fn.args
    if tensor_self is None:
        tensor_self = _tensor_self(repo, f) if hasattr(repo, 'mro') else False
    params = {p.arg for p in a.posonlyargs + a.args + a.kwonlyargs} | ({a.vararg.arg} if a.vararg else set()) | ({a.kwarg.arg} if a.kwarg else set())
    globs = set()
    local = set(params)
    for n in _own_nodes(fn):
        if isinstance(n, ast.Global):
            globs |= set(n.names)
    for n in _own_nodes(fn):
        if isinstance(n, (ast.Assign, ast.AnnAssign, ast.AugAssign)):
            tg = n.targets if isinstance(n, ast.Assign) else [n.target]
            for t in tg:
                for x in _targets(t):
                    if isinstance(x, ast.Name) and x.id not in globs:
                        local.add(x.id)
        elif isinstance(n, (ast.For, ast.comprehension)):
            for x in _targets(n.target):
                if isinstance(x, ast.Name):
                    local.add(x.id)
        elif isinstance(n, (ast.With,)):
            for it in n.items:
                if it.optional_vars is not None:
                    for x in _targets(it.optional_vars):
                        if isinstance(x, ast.Name):
                            local.add(x.id)
        elif isinstance(n, ast.NamedExpr) and isinstance(n.target, ast.Name):
            local.add(n.target.id)

    def outliving(name):
        """module-level variable / function (attribute store on it) reachable by this bare name"""
        if name in local and name not in globs:
            return None
        r = repo.resolve_global(f.module.name, name)
        if r is None:
            return None
        if r[0] == 'var':
            return 'module-level %s.%s' % (r[1].name, r[2])
        if r[0] == 'func':
            return 'attribute of function %s' % r[1].fq
        return None

    # data taint
    tparams = set(tensor_params(fn))
    if tensor_self and a.args:
        tparams.add(a.args[0].arg)
    tainted = set(tparams)
    assigns = []
    for n in _own_nodes(fn):
        if isinstance(n, (ast.Assign, ast.AnnAssign, ast.AugAssign)) and getattr(n, 'value', None) is not None:
            tg = n.targets if isinstance(n, ast.Assign) else [n.target]
            assigns.append((tg, n.value))
        elif isinstance(n, ast.For):
            assigns.append(([n.target], n.iter))
        elif isinstance(n, ast.NamedExpr):
            assigns.append(([n.target], n.value))
    changed = True
    while changed:
        changed = False
        for tg, v in assigns:
            if data_names(v) & tainted:
                for t in tg:
                    for x in _targets(t):
                        if isinstance(x, ast.Name) and x.id not in tainted:
                            tainted.add(x.id)
                            changed = True
    stores = []
    for n in _own_nodes(fn):
        if isinstance(n, (ast.Assign, ast.AnnAssign, ast.AugAssign)) and getattr(n, 'value', None) is not None:
            tg = n.targets if isinstance(n, ast.Assign) else [n.target]
            for t in tg:
                for x in _targets(t):
                    if isinstance(x, ast.Name) and x.id in globs:
                        stores.append((n, 'global %s' % x.id, [n.value]))
                    elif isinstance(x, (ast.Subscript, ast.Attribute)):
                        b = x
                        while isinstance(b, (ast.Subscript, ast.Attribute)):
                            b = b.value
                        if isinstance(b, ast.Name):
                            lab = outliving(b.id)
                            if lab is None and b.id in tparams and (isinstance(x, ast.Attribute) and x.value is b and x.attr not in ('data', 'grad', 'requires_grad')
                                                                    or '__dict__' in src(x)):
                                lab = 'an attribute of the tensor argument `%s`' % b.id
                            if lab:
                                vals = [n.value] + ([x.slice] if isinstance(x, ast.Subscript) else [])
                                stores.append((n, lab, vals))
        elif isinstance(n, ast.Call) and isinstance(n.func, ast.Attribute) and n.func.attr in MUTATORS:
            b = n.func.value
            while isinstance(b, (ast.Subscript, ast.Attribute)):
                b = b.value
            if isinstance(b, ast.Name):
                lab = outliving(b.id)
                if lab:
                    stores.append((n, lab, list(n.args) + [k.value for k in n.keywords]))
    return stores, tainted


def generator_publications(repo, f):
    """writes into storage that outlives the call made at or after a yield point of a generator function (directly or through a local alias
    of the published container): the entry is visible to other calls before it is complete"""
    fn = f.node
    own = list(_own_nodes(fn))
    yields = [n for n in own if isinstance(n, (ast.Yield, ast.YieldFrom))]
    if not yields:
        return []
    stores, _ = analyse_function(repo, f)
    if not stores:
        return []
    # local aliases of published containers: `a = G[k] = []`, `a = G[k]`, `a = G.setdefault(k, [])`
    alias = {}
    for n, lab, vals in stores:
        if isinstance(n, ast.Assign) and len(n.targets) > 1:
            for t in n.targets:
                if isinstance(t, ast.Name):
                    alias[t.id] = lab
    loops_with_yield = [n for n in own if isinstance(n, (ast.For, ast.While)) and any(isinstance(x, (ast.Yield, ast.YieldFrom)) for x in ast.walk(n))]
    first_yield = min(y.lineno for y in yields)
    out = []

    # statements in a `finally` clause run however the generator is left (close(), an exception thrown in at the yield): not "late"
    in_finally = set()
    for t in own:
        if isinstance(t, ast.Try):
            for st in t.finalbody:
                for x in ast.walk(st):
                    in_finally.add(id(x))

    def late(n):
        if id(n) in in_finally:
            return False
        return n.lineno > first_yield or any(any(x is n for x in ast.walk(l)) for l in loops_with_yield)
    for n, lab, vals in stores:
        if late(n):
            out.append((n, lab))
    for n in own:
        if isinstance(n, ast.Call) and isinstance(n.func, ast.Attribute) and n.func.attr in MUTATORS and isinstance(n.func.value, ast.Name) \
                and n.func.value.id in alias and late(n):
            out.append((n, alias[n.func.value.id]))
    return out


ITER_MAKERS = {'cycle', 'iter', 'zip', 'map', 'filter', 'enumerate', 'reversed', 'chain', 'islice', 'repeat', 'count', 'accumulate', 'starmap',
               'zip_longest', 'product', 'permutations', 'combinations'}


def iterator_attributes(ci):
    """(attribute, method that stores an iterator object in it, method that advances it, node)"""
    made = {}
    for m in ci.methods.values():
        for n in _own_nodes(m.node):
            if isinstance(n, ast.Assign):
                v = n.value
                is_it = isinstance(v, ast.GeneratorExp) or (isinstance(v, ast.Call) and (dotted(v.func) or '').split('.')[-1] in ITER_MAKERS
                                                            and not ((dotted(v.func) or '').startswith('torch.')))
                if is_it:
                    for t in n.targets:
                        d = dotted(t)
                        if d and d.startswith('self.') and d.count('.') == 1:
                            made[d[5:]] = m
    out = []
    if not made:
        return out
    for m in ci.methods.values():
        for n in _own_nodes(m.node):
            its = []
            if isinstance(n, (ast.For, ast.comprehension)):
                its.append(n.iter)
            elif isinstance(n, ast.Call) and (dotted(n.func) or '').split('.')[-1] in ITER_MAKERS | {'next', 'list', 'tuple', 'sum', 'max', 'min', 'sorted'}:
                its += list(n.args)
            for it in its:
                for x in ast.walk(it):
                    d = dotted(x) if isinstance(x, ast.Attribute) else None
                    if d and d.startswith('self.') and d[5:] in made and not (isinstance(n, ast.Call) and made[d[5:]] is m and
                                                                                any(isinstance(t, ast.Attribute) for t in [])):
                        out.append((d[5:], made[d[5:]], m, n if not isinstance(n, ast.comprehension) else it))
    seen, uniq = set(), []
    for a, s_, u, n in out:
        if (a, u.qual) not in seen:
            seen.add((a, u.qual))
            uniq.append((a, s_, u, n))
    return uniq


IDENTITY_OK_FUNCS = {'__deepcopy__', '__reduce__', '__reduce_ex__', '__hash__', '__repr__', '__copy__'}


def _tensor_self(repo, f):
    """is `self` of this method itself a tensor (class derives, in the package, from torch.Tensor)?"""
    if f.cls is None or f.is_static():
        return False
    try:
        for c in repo.mro(f.cls):
            bases = getattr(c, 'base_exprs', None)
            if bases and any(b.split('.')[-1] in ('Tensor', 'Parameter') for b in bases):
                return True
            if isinstance(c, tuple) or isinstance(c, str):
                if 'Tensor' in str(c):
                    return True
    except Exception:
        return False
    return False


def identity_keys(repo, f):
    """places where the IDENTITY (is / id() / data_ptr()) or the version counter of a tensor stands in for its contents"""
    if f.name in IDENTITY_OK_FUNCS:
        return []
    fn = f.node
    tp = tensor_params(fn)
    if _tensor_self(repo, f) and f.pos_params:
        tp = tp | {f.pos_params[0]}
    _, tainted = analyse_function(repo, f)
    tens = tp | tainted
    out = []

    def tensorish(e):
        return bool({n.id for n in ast.walk(e) if isinstance(n, ast.Name)} & tens)

    def stateish(e):
        for n in ast.walk(e):
            if isinstance(n, ast.Attribute) and isinstance(n.value, ast.Name) and n.value.id in ('self', 'cls'):
                return True
            if isinstance(n, ast.Name) and n.id not in tens:
                r = repo.resolve_global(f.module.name, n.id)
                if r is not None and r[0] == 'var':
                    return True
        return False
    for n in _own_nodes(fn):
        if isinstance(n, ast.Compare):
            sides = [n.left] + list(n.comparators)
            for op, a, b in zip(n.ops, sides, sides[1:]):
                if isinstance(op, (ast.Is, ast.IsNot)):
                    if any(isinstance(x, ast.Constant) for x in (a, b)):
                        continue
                    # `X.ltype is SO3_type`: the ltype of a tensor is a type object (a module-level singleton), not tensor contents
                    if any(isinstance(x, ast.Attribute) and x.attr in ('ltype', 'dtype', 'device', 'layout', '__class__') for x in (a, b)):
                        continue
                    if (tensorish(a) and stateish(b)) or (tensorish(b) and stateish(a)):
                        out.append((n, 'object identity (`%s`)' % src(n)[:50]))
        elif isinstance(n, ast.Call):
            if isinstance(n.func, ast.Attribute) and n.func.attr == 'data_ptr':       # defined on tensors (and storages) only
                out.append((n, 'storage address (`%s`)' % src(n)[:50]))
            elif isinstance(n.func, ast.Name) and n.func.id == 'id' and n.args and tensorish(n.args[0]):
                out.append((n, 'object id (`%s`)' % src(n)[:50]))
        elif isinstance(n, ast.Attribute) and n.attr == '_version' and isinstance(n.ctx, ast.Load):     # the autograd version counter
            out.append((n, 'version counter (`%s`)' % src(n)[:50]))
    return out


@guarded
def rule_memo(repo, rid, text, modules, floor=None, positive_fixture=True):
    res = RuleResult(rid, text, floor=floor if floor is not None else 1)
    n_fn = 0
    for m in modules:
        mi = repo.module(m)
        for f in mi.functions.values():
            n_fn += 1
            stores, tainted = analyse_function(repo, f)
            decos = {d.split('.')[-1] for d in f.decorator_names()}
            tp = tensor_params(f.node)
            cached = bool(decos & CACHE_DECOS)
            res.inst({'function': f.fq, 'writes to storage outliving the call': [(lab, src(n)[:60]) for n, lab, _ in stores],
                      'value cache decorator': cached, 'tensor parameters': sorted(tp)}, f.fq if (stores or cached) else None)
            if cached and tp:
                res.add(Finding(rid, f, '%s is memoised by a cache decorator but takes the tensor argument(s) %s: the cache key is the object identity, '
                                'a later call with the same object and other contents gets the earlier result' % (f.qual, sorted(tp)),
                                node=f.node, construct='cache-decorator'))
            for n, lab, vals in stores:
                dep = sorted(set().union(*[data_names(v) for v in vals]) & tainted) if vals else []
                if dep:
                    res.add(Finding(rid, f, '`%s` keeps a value computed from the contents of the tensor argument (via %s) in %s, which outlives the call: '
                                    'a tensor has no value key (identity hash, in-place updates), so a later call can be answered from the earlier data'
                                    % (src(n)[:70], ', '.join(dep), lab), node=n, construct='store|%s|%s' % (lab, norm_construct(n, f.node))))
            for n, what in identity_keys(repo, f):
                res.add(Finding(rid, f, '%s uses the %s of a tensor as a stand-in for its contents: the contents change in place (copy_, +=, optimiser '
                                'steps, .data) without the object, its address or - through .data - its version changing, and a result kept under that '
                                'key is handed out for other data / another autograd state' % (f.qual, what), node=n,
                                construct='identity-key|' + norm_construct(n, f.node)))
            for n, lab in generator_publications(repo, f):
                res.add(Finding(rid, f, '`%s` updates %s at or after a yield point of a generator, outside any `finally`: it runs only if the generator is '
                                'resumed, so a consumer that stops early (an exception in the with-body / loop body, break) leaves the shared state '
                                'half-updated for every later call' % (src(n)[:70], lab), node=n,
                                construct='generator-publish|%s|%s' % (lab, norm_construct(n, f.node))))
        for ci in mi.classes.values():
            for attr, setter, user, node in iterator_attributes(ci):
                res.add(Finding(rid, user, '`self.%s` holds a one-shot / endless iterator (set in %s) and %s advances it: every call continues where the '
                                'previous one stopped instead of starting from the configured sequence' % (attr, setter.qual, user.qual), node=node,
                                construct='iterator-attribute|' + attr))
    if n_fn == 0:
        raise AnalysisError('%s: no function analysed' % rid)
    if positive_fixture:
        _fixture(rid)
    return res


def _fixture(rid):
    """the rule must recognise the pattern it exists for (expected count on the tree is zero)"""
    code = ('_keep = {}\n'
            'def f(points, k):\n'
            '    d = points.unsqueeze(-2) - points.unsqueeze(-3)\n'
            '    _keep[k] = d.sum()\n'
            '    return d\n'
            'def g(n, device):\n'
            '    _keep[(n, device)] = list(range(n))\n'
            '    return _keep[(n, device)]\n')
    from .core import ModuleInfo

    class _R:
        def resolve_global(self, mod, name):
            return ('var', mi, name, None) if name == '_keep' else None
    mi = ModuleInfo('fixture', 'fixture.py', code, False)
    got = {}
    for f in mi.functions.values():
        stores, tainted = analyse_function(_R(), f)
        got[f.qual] = [bool(set().union(*[data_names(v) for v in vals]) & tainted) for _, _, vals in stores]
    if got.get('f') != [True] or got.get('g') != [False]:
        raise AnalysisError('%s: positive/negative fixture no longer classified (%r)' % (rid, got))
