"""E3 - alias / effect analysis: which functions may mutate storage reachable from a parameter.

Intraprocedural: flow-sensitive walk (branches merged by union, loop bodies visited twice) over an environment
  name -> set of origins,   origin = ('p', param_index, path)  |  ('new', site_id)
with torch's view/copy semantics as tables (trusted base, DESIGN appendix D).
Interprocedural: summaries (mut, ret, fields) to a fixpoint over the resolved call graph.
Unknown constructs evaluate to "fresh" (never a source of alarms) and are counted.
"""
from __future__ import annotations
import ast
from .core import dotted, src, FuncInfo, ClassInfo, guarded, guarded_list
from . import paths

VIEW_METHODS = {'tensor', 'view', 'view_as', 'reshape', 'flatten', 'expand', 'expand_as', 'transpose', 'permute', 'unsqueeze',
                'squeeze', 'diagonal', 'narrow', 'select', 'unbind', 'split', 'chunk', 'detach', 'contiguous', 'to', 'type',
                'float', 'double', 'half', 'cpu', 'cuda', 'lview', 'as_subclass', 'unflatten', 'movedim', 'swapaxes', 'type_as',
                'requires_grad_', 'retain_grad', 'detach_', 'squeeze_', 'unsqueeze_', 'broadcast_to', 't', 'real', 'imag',
                'tensor_split', 'hsplit', 'vsplit', 'unfold', 'as_strided', 'values', 'rotation', 'translation', 'scale'}
VIEW_ATTRS = {'mT', 'T', 'mH', 'H', 'data', 'real', 'imag'}
METADATA_ONLY = {'requires_grad_', 'retain_grad', 'detach_', 'squeeze_', 'unsqueeze_', 'share_memory_', 'rename_', 'zero_grad'}
VIEW_FUNCS = {'Tensor.as_subclass', 'torch.Tensor.as_subclass', 'torch.as_tensor', 'torch.atleast_1d', 'torch.atleast_2d',
              'torch.atleast_3d', 'torch.squeeze', 'torch.unsqueeze', 'torch.transpose', 'torch.reshape', 'torch.flatten',
              'torch.diagonal', 'torch.narrow', 'torch.select', 'torch.view_as_real', 'torch.broadcast_to', 'torch.detach',
              'torch.t', 'torch.movedim', 'torch.permute', 'torch.split', 'torch.chunk', 'torch.unbind', 'torch.asarray',
              'nn.Parameter', 'torch.nn.Parameter', 'Tensor._make_subclass', 'list', 'tuple', 'zip', 'enumerate', 'reversed',
              'iter', 'next', 'dict', 'sorted'}
TENSOR_ATTRS = {'shape', 'device', 'dtype', 'ndim', 'mT', 'T', 'unsqueeze', 'squeeze', 'view', 'clone', 'any', 'all', 'abs',
                'sum', 'norm', 'size', 'dim', 'tensor', 'to', 'type', 'numel', 'requires_grad', 'grad', 'expand', 'reshape',
                'matmul', 'mean', 'lshape', 'ltype', 'Inv', 'Exp', 'Log', 'detach', 'is_sparse', 'layout', 'sqrt', 'square'}
MAX_PATH = 2


class Summary:
    __slots__ = ('mut', 'ret', 'fields', 'sinks', 'shared', 'ret_shared')

    def __init__(self):
        self.shared = {}       # label -> (node, description, chain): in-place writes into storage that outlives the call
        self.ret_shared = set()  # labels of shared storage the return value may alias
        self.mut = set()       # (param index, path)
        self.ret = set()       # (param index, path)
        self.fields = {}       # for __init__/__new__: attr -> set of (param index, path)
        self.sinks = {}        # (param index, path) -> (node, description, chain tuple)

    def sig(self):
        return (frozenset(self.mut), frozenset(self.ret), tuple(sorted((k, frozenset(v)) for k, v in self.fields.items())),
                frozenset(self.shared), frozenset(self.ret_shared))


class FuncAnalysis:
    def __init__(self, repo, finfo, summaries, stats):
        self.repo, self.f, self.S, self.stats = repo, finfo, summaries, stats
        self.sum = Summary()
        self.pnames = finfo.params
        self.pidx = {n: i for i, n in enumerate(self.pnames)}
        self.news = {}          # site id -> {attr: origins}
        self.tensorish_cache = {}
        self.is_init = finfo.name in ('__init__',)

    # ------------------------------------------------------------ helpers
    def run(self):
        env = {n: frozenset([('p', i, ())]) for n, i in self.pidx.items()}
        self.block(self.f.node.body, env)
        return self.sum

    def merge(self, a, b):
        out = dict(a)
        for k, v in b.items():
            out[k] = out.get(k, frozenset()) | v
        return out

    def mutate(self, origins, node, why, chain=()):
        for o in origins:
            if o[0] == 'p':
                key = (o[1], o[2])
                if key not in self.sum.mut:
                    self.sum.mut.add(key)
                    self.sum.sinks[key] = (node, why, chain)
            elif o[0] == 'shared':
                if o[1] not in self.sum.shared:
                    self.sum.shared[o[1]] = (node, why, chain)

    def field(self, origins, attr):
        out = set()
        for o in origins:
            if o[0] == 'shared':
                out.add(o)
                continue
            if o[0] == 'p':
                path = o[2] + (attr,)
                out.add(('p', o[1], path[:MAX_PATH]))
            elif o[0] == 'new':
                out |= self.news.get(o[1], {}).get(attr, frozenset())
        return frozenset(out)

    def apply_path(self, origins, path):
        for a in path:
            origins = self.field(origins, a)
        return origins

    # ------------------------------------------------------------ expressions
    def A(self, e, env):
        """origins the value of e may alias; emits mutation events for in-place calls inside e"""
        if e is None:
            return frozenset()
        if isinstance(e, ast.Name):
            if e.id in env:
                return env[e.id]
            r = self.repo.resolve_global(self.f.module, e.id)
            if r and r[0] == 'var' and isinstance(r[3], ast.Call) and (dotted(r[3].func) or '').startswith('torch.') and \
                    (dotted(r[3].func) or '').split('.')[-1] in ('tensor', 'zeros', 'ones', 'eye', 'empty', 'arange', 'full', 'rand', 'randn'):
                return frozenset([('shared', 'module-level tensor %s.%s' % (r[1].name, r[2]))])
            return frozenset()
        if isinstance(e, ast.Attribute):
            d = dotted(e)
            if d is not None and d in env:
                return env[d]
            base = self.A(e.value, env)
            if e.attr in VIEW_ATTRS:
                return base
            return self.field(base, e.attr)
        if isinstance(e, ast.Subscript):
            base = self.A(e.value, env)
            self.A_index(e.slice, env)
            return base if self.basic_index(e.slice, env) else frozenset()
        if isinstance(e, ast.Call):
            return self.call(e, env)
        if isinstance(e, ast.IfExp):
            self.A(e.test, env)
            return self.A(e.body, env) | self.A(e.orelse, env)
        if isinstance(e, (ast.Tuple, ast.List, ast.Set)):
            out = frozenset()
            for x in e.elts:
                out |= self.A(x.value if isinstance(x, ast.Starred) else x, env)
            return out
        if isinstance(e, ast.Dict):
            out = frozenset()
            for v in e.values:
                out |= self.A(v, env)
            return out
        if isinstance(e, ast.Starred):
            return self.A(e.value, env)
        if isinstance(e, ast.NamedExpr):
            v = self.A(e.value, env)
            env[e.target.id] = v
            return v
        if isinstance(e, (ast.ListComp, ast.SetComp, ast.GeneratorExp, ast.DictComp)):
            env2 = dict(env)
            for g in e.generators:
                it = self.A(g.iter, env2)
                self.bind(g.target, it, env2, None)
                for c in g.ifs:
                    self.A(c, env2)
            if isinstance(e, ast.DictComp):
                self.A(e.key, env2)
                return self.A(e.value, env2)
            return self.A(e.elt, env2)
        if isinstance(e, ast.Lambda):
            return frozenset()
        if isinstance(e, (ast.BinOp, ast.UnaryOp, ast.BoolOp, ast.Compare)):
            for c in ast.iter_child_nodes(e):
                if isinstance(c, ast.expr):
                    self.A(c, env)
            if isinstance(e, ast.BoolOp):       # `a or b` returns one of its operands
                out = frozenset()
                for v in e.values:
                    out |= self.A(v, env)
                return out
            return frozenset()
        if isinstance(e, (ast.JoinedStr, ast.FormattedValue, ast.Constant)):
            return frozenset()
        if isinstance(e, (ast.Yield, ast.YieldFrom, ast.Await)):
            return self.A(e.value, env) if e.value is not None else frozenset()
        return frozenset()

    def A_index(self, sl, env):
        for n in ast.iter_child_nodes(sl) if not isinstance(sl, ast.expr) else [sl]:
            if isinstance(n, ast.expr):
                self.A(n, env)

    def basic_index(self, sl, env):
        """basic (view-producing) indexing: ints, slices, ..., None; a tuple mixing those with plain names is
        treated as basic (x[..., i, :]); a lone name / list / comparison is advanced (copy)"""
        def basic(x):
            if isinstance(x, ast.Slice):
                return True
            if isinstance(x, ast.Constant):
                return x.value is Ellipsis or x.value is None or isinstance(x.value, int)
            if isinstance(x, ast.UnaryOp) and isinstance(x.operand, ast.Constant):
                return True
            if isinstance(x, ast.BinOp):
                return all(basic(y) or isinstance(y, ast.Name) for y in (x.left, x.right))
            return False
        if isinstance(sl, ast.Tuple):
            struct = any(isinstance(x, ast.Slice) or (isinstance(x, ast.Constant) and x.value is Ellipsis) for x in sl.elts)
            return all(basic(x) or (struct and isinstance(x, ast.Name)) for x in sl.elts)
        return basic(sl)

    def call(self, c, env):
        fn = c.func
        d = dotted(fn)
        argv = [self.A(a.value if isinstance(a, ast.Starred) else a, env) for a in c.args]
        kwv = {k.arg: self.A(k.value, env) for k in c.keywords}
        # explicit out= : a mutation of whatever is passed, unless it is this function's own `out` parameter
        if 'out' in kwv and kwv['out']:
            outk = [k for k in c.keywords if k.arg == 'out'][0]
            if not (isinstance(outk.value, ast.Name) and outk.value.id == 'out' and 'out' in self.pidx):
                self.mutate(kwv['out'], c, 'written through out= of %s' % (d or '?'))
            else:
                self.stats['out_param'] = self.stats.get('out_param', 0) + 1
        recv = None
        if isinstance(fn, ast.Attribute):
            m = fn.attr
            # torch.xxx_(t, ...) functional in-place
            if d and d.startswith('torch.') and m.endswith('_') and not m.endswith('__') and m not in METADATA_ONLY:
                if argv:
                    self.stats['inplace_sites'] = self.stats.get('inplace_sites', 0) + 1
                    self.mutate(argv[0], c, 'in-place torch function %s' % d)
                    return argv[0]
            if d in VIEW_FUNCS and argv:
                return argv[0]
            recv = self.A(fn.value, env) if not (d and (d.startswith('torch.') or d.startswith('math.'))) else frozenset()
            if m.endswith('_') and not m.endswith('__') and not (d and d.startswith('torch.')):
                self.stats['inplace_sites'] = self.stats.get('inplace_sites', 0) + 1
                if m not in METADATA_ONLY:
                    # repo-defined underscore methods/functions are resolved below as well; the receiver is mutated either way
                    self.mutate(recv, c, 'in-place method .%s()' % m)
                return recv
            if m in ('apply',):
                pass
        elif d in VIEW_FUNCS and argv:
            out = frozenset()
            for a in argv:
                out |= a
            return out
        # repository callees
        cands, how = self.repo.resolve_call(self.f, c)
        result = frozenset()
        if cands:
            self.stats['resolved_calls'] = self.stats.get('resolved_calls', 0) + 1
            for g in cands:
                s = self.S.get(g.fq)
                if s is None:
                    continue
                if any(d.split('.')[-1] in ('lru_cache', 'cache', 'cached_property') for d in g.decorator_names()):
                    # the object returned by a memoising function is shared by all its callers
                    result |= frozenset([('shared', 'result of cached function %s' % g.fq.split(':')[1])])
                for lab in s.ret_shared:
                    result |= frozenset([('shared', lab)])
                for lab, (snode, swhy, schain) in s.shared.items():
                    pass
                binding = self.bind_args(g, how, c, argv, kwv, recv, env)
                for (pi, path) in s.mut:
                    if pi in binding:
                        tgt = self.apply_path(binding[pi], path)
                        if tgt:
                            sink = s.sinks.get((pi, path))
                            chain = ((g.fq,) + (sink[2] if sink else ()))
                            self.mutate(tgt, c, 'call %s mutates its argument `%s%s` (%s)' % (
                                g.fq.split(':')[1], g.params[pi] if pi < len(g.params) else '?', ''.join('.' + p for p in path),
                                how), chain)
                for (pi, path) in s.ret:
                    if pi in binding:
                        result |= self.apply_path(binding[pi], path)
                if how == 'ctor' and (s.fields or g.name in ('__init__', '__new__')):
                    site = id(c)
                    fields = {}
                    for attr, srcs in s.fields.items():
                        o = frozenset()
                        for (pi, path) in srcs:
                            if pi in binding:
                                o |= self.apply_path(binding[pi], path)
                        fields[attr] = o
                    self.news[site] = fields
                    result |= frozenset([('new', site)])
            # LieTensor(data, ltype=...) and aliases share storage with data (as_subclass in __new__)
            if how == 'ctor' and any(g.cls is not None and g.cls.name in ('LieTensor', 'Parameter') for g in cands) and argv:
                result |= argv[0]
            if how == 'byname' and recv is not None and isinstance(fn, ast.Attribute) and fn.attr in VIEW_METHODS:
                result |= recv        # the receiver may just as well be a plain tensor
            return result
        # unresolved: view-producing tensor methods keep the alias, everything else is fresh
        if isinstance(fn, ast.Attribute) and recv is not None:
            if fn.attr in VIEW_METHODS:
                return recv
            if fn.attr in ('get', 'pop', 'values', 'items', '__getitem__'):
                return recv
        self.stats['unresolved_calls'] = self.stats.get('unresolved_calls', 0) + 1
        return frozenset()

    def bind_args(self, g, how, c, argv, kwv, recv, env):
        """callee param index -> caller origins"""
        b = {}
        pp = g.pos_params
        off = 0
        if g.cls is not None and not g.is_static() and how in ('self', 'cls', 'super', 'byname', 'ctor', 'direct'):
            # bound call: receiver is parameter 0 (for ctor the fresh object)
            if how == 'direct' and isinstance(c.func, ast.Attribute) and self._is_class_ref(c.func.value):
                off = 0          # Class.method(obj, ...) unbound call
                if g.is_classmethod():
                    off = 1
            else:
                off = 1
                if how in ('self', 'super') and not g.is_classmethod():
                    first = self.f.pos_params[0] if self.f.pos_params else None
                    b[0] = env.get(first, frozenset()) if first else frozenset()
                elif how == 'byname' and recv is not None:
                    b[0] = recv
                elif how == 'direct' and recv is not None:
                    b[0] = recv
        elif how == 'apply':
            off = 0
        i = 0
        for a, v in zip(c.args, argv):
            if isinstance(a, ast.Starred):
                # *args spreads over the remaining positionals
                for j in range(off + i, len(pp)):
                    b[j] = b.get(j, frozenset()) | v
                if g.node.args.vararg:
                    b[len(pp)] = b.get(len(pp), frozenset()) | v
                break
            j = off + i
            if j < len(pp):
                b[j] = v
            elif g.node.args.vararg:
                b[len(pp)] = b.get(len(pp), frozenset()) | v
            i += 1
        names = g.params
        for k, v in kwv.items():
            if k in names:
                b[names.index(k)] = v
        return b

    def _is_class_ref(self, e):
        r = self.repo.resolve_expr(self.f, e)
        return bool(r and r[0] == 'class')

    # ------------------------------------------------------------ statements
    def bind(self, target, origins, env, value_node):
        if isinstance(target, ast.Name):
            env[target.id] = origins
        elif isinstance(target, (ast.Tuple, ast.List)):
            if value_node is not None and isinstance(value_node, (ast.Tuple, ast.List)) and len(value_node.elts) == len(target.elts):
                for t, v in zip(target.elts, value_node.elts):
                    self.bind(t, self.A(v, env), env, v)
            else:
                for t in target.elts:
                    self.bind(t.value if isinstance(t, ast.Starred) else t, origins, env, None)
        elif isinstance(target, ast.Subscript):
            base = self.A(target.value, env)
            self.A_index(target.slice, env)
            self.stats['store_sites'] = self.stats.get('store_sites', 0) + 1
            if self.tensor_store(target, env):
                self.mutate(base, target, 'indexed store %s[...] = ...' % src(target.value))
        elif isinstance(target, ast.Attribute):
            # field rebind: not a mutation of tensor storage; constructors record field aliases
            base = self.A(target.value, env)
            if self.f.name in ('__init__', '__new__') and isinstance(target.value, ast.Name) and self.f.pos_params and \
                    target.value.id == self.f.pos_params[0]:
                srcs = {(o[1], o[2]) for o in origins if o[0] == 'p'}
                if srcs:
                    self.sum.fields.setdefault(target.attr, set()).update(srcs)
            # remember the alias for later reads of the same field in this function
            d = dotted(target)
            if d:
                env[d] = origins

    def tensor_store(self, target, env):
        """x[...] = v is a storage write when x is a tensor; dict/list stores (string keys, known containers) are not"""
        sl = target.slice
        if isinstance(sl, ast.Constant) and isinstance(sl.value, str):
            return False
        if isinstance(target.value, ast.Name) and self.container(target.value.id):
            return False
        return True

    def container(self, name):
        for n in ast.walk(self.f.node):
            if isinstance(n, ast.Assign) and any(isinstance(t, ast.Name) and t.id == name for t in n.targets):
                v = n.value
                if isinstance(v, (ast.List, ast.Dict, ast.ListComp, ast.DictComp, ast.Set)):
                    return True
                if isinstance(v, ast.Call) and dotted(v.func) in ('list', 'dict', 'set', 'defaultdict', 'OrderedDict'):
                    return True
        if name in ('memo', 'kwargs', 'state_dict', 'pg', 'results', 'defaults'):
            return True
        return False

    def tensor_valued(self, e):
        """an expression that can only be a tensor: matrix product, torch.* call, or one of the package's batched linear-algebra helpers"""
        for n in ast.walk(e):
            if isinstance(n, ast.BinOp) and isinstance(n.op, ast.MatMult):
                return True
            if isinstance(n, ast.Call):
                d = dotted(n.func) or ''
                if d.startswith('torch.') or d in ('bmv', 'bvv', 'bvmv'):
                    return True
        return False

    def tensorish(self, name):
        if name in self.tensorish_cache:
            return self.tensorish_cache[name]
        r = self._tensorish(name)
        self.tensorish_cache[name] = r
        return r

    def _tensorish(self, name):
        a = self.f.node.args
        for p in a.posonlyargs + a.args + a.kwonlyargs:
            if p.arg == name and p.annotation is not None and 'Tensor' in src(p.annotation):
                return True
        for n in ast.walk(self.f.node):
            if isinstance(n, ast.Attribute) and isinstance(n.value, ast.Name) and n.value.id == name and n.attr in TENSOR_ATTRS:
                return True
            if isinstance(n, ast.Subscript) and isinstance(n.value, ast.Name) and n.value.id == name:
                sl = n.slice
                elts = sl.elts if isinstance(sl, ast.Tuple) else [sl]
                if any(isinstance(x, ast.Constant) and (x.value is Ellipsis or x.value is None) for x in elts):
                    return True
            if isinstance(n, ast.Call) and (dotted(n.func) or '').startswith('torch.') and \
                    any(isinstance(x, ast.Name) and x.id == name for x in n.args):
                return True
            if isinstance(n, ast.BinOp) and isinstance(n.op, ast.MatMult) and \
                    any(isinstance(x, ast.Name) and x.id == name for x in (n.left, n.right)):
                return True
            if isinstance(n, ast.Assign) and any(isinstance(t, ast.Name) and t.id == name for t in n.targets):
                v = n.value
                if isinstance(v, ast.Call) and (dotted(v.func) or '').startswith('torch.'):
                    return True
        return False

    def stmt(self, st, env):
        if isinstance(st, ast.Assign):
            v = self.A(st.value, env)
            for t in st.targets:
                self.bind(t, v, env, st.value)
        elif isinstance(st, ast.AnnAssign):
            if st.value is not None:
                self.bind(st.target, self.A(st.value, env), env, st.value)
        elif isinstance(st, ast.AugAssign):
            self.A(st.value, env)
            self.stats['augassign_sites'] = self.stats.get('augassign_sites', 0) + 1
            t = st.target
            if isinstance(t, ast.Name):
                if self.tensorish(t.id) or (any(o[0] == 'p' for o in env.get(t.id, frozenset())) and self.tensor_valued(st.value)):
                    self.mutate(env.get(t.id, frozenset()), st, 'augmented assignment `%s` on a tensor is in place' % src(st)[:60])
                else:
                    if any(o[0] == 'p' for o in env.get(t.id, frozenset())):
                        self.stats['augassign_untyped_on_param'] = self.stats.get('augassign_untyped_on_param', 0) + 1
            elif isinstance(t, ast.Subscript):
                base = self.A(t.value, env)
                if self.tensor_store(t, env):
                    self.mutate(base, st, 'augmented indexed store `%s`' % src(st)[:60])
            elif isinstance(t, ast.Attribute):
                # obj.attr op= v : in place on the object held by the field when that is a tensor
                base = self.A(t, env)
                if t.attr not in ('steps', 'max_steps', 'patience_count', 'reject_count'):
                    self.mutate(base, st, 'augmented assignment on field `%s`' % src(t))
        elif isinstance(st, ast.Expr):
            self.A(st.value, env)
        elif isinstance(st, ast.Return):
            if st.value is not None:
                v = self.A(st.value, env)
                for o in v:
                    if o[0] == 'p':
                        self.sum.ret.add((o[1], o[2]))
                    elif o[0] == 'shared':
                        self.sum.ret_shared.add(o[1])
        elif isinstance(st, ast.If):
            self.A(st.test, env)
            e1, e2 = dict(env), dict(env)
            self.block(st.body, e1)
            self.block(st.orelse, e2)
            env.clear()
            env.update(self.merge(e1, e2))
        elif isinstance(st, (ast.For, ast.AsyncFor)):
            it = self.A(st.iter, env)
            for _ in range(2):
                e1 = dict(env)
                self.bind(st.target, it, e1, None)
                self.block(st.body, e1)
                m = self.merge(env, e1)
                env.clear()
                env.update(m)
            self.block(st.orelse, env)
        elif isinstance(st, ast.While):
            for _ in range(2):
                self.A(st.test, env)
                e1 = dict(env)
                self.block(st.body, e1)
                m = self.merge(env, e1)
                env.clear()
                env.update(m)
            self.block(st.orelse, env)
        elif isinstance(st, (ast.With, ast.AsyncWith)):
            for it in st.items:
                v = self.A(it.context_expr, env)
                if it.optional_vars is not None:
                    self.bind(it.optional_vars, frozenset(), env, None)
            self.block(st.body, env)
        elif isinstance(st, ast.Try):
            e0 = dict(env)
            self.block(st.body, env)
            for h in st.handlers:
                eh = self.merge(e0, env)
                self.block(h.body, eh)
                m = self.merge(env, eh)
                env.clear()
                env.update(m)
            self.block(st.orelse, env)
            self.block(st.finalbody, env)
        elif isinstance(st, ast.Assert):
            self.A(st.test, env)
        elif isinstance(st, ast.Raise):
            if st.exc is not None:
                self.A(st.exc, env)
        elif isinstance(st, ast.Delete):
            pass
        # nested defs are analysed as functions of their own

    def block(self, stmts, env):
        for st in stmts:
            self.stmt(st, env)


_SUMMARY_CACHE = {}


def cached_summaries(repo):
    # cached on the Repo object itself: id(repo) is reused once a Repo is collected, which handed a later overlay the summaries of an earlier tree
    got = getattr(repo, '_effect_summaries', None)
    if got is None:
        got = compute_summaries(repo)
        repo._effect_summaries = got
    return got


@guarded
def rule_pure(repo, rid, text, targets, floor=None, allow_self=True):
    """targets: [(module, qualname)].  No target writes in place into a tensor argument (or, for allow_self=False, into self state)
    or into storage shared between calls."""
    from .core import RuleResult, Finding
    res = RuleResult(rid, text, floor=floor if floor is not None else len(targets))
    S, _ = cached_summaries(repo)
    for mod, q in targets:
        f = repo.func(mod, q)
        s = S[f.fq]
        bad = []
        for (pi, path) in sorted(s.mut, key=str):
            pname = f.params[pi] if pi < len(f.params) else '?'
            if pi == 0 and f.cls is not None and not f.is_static() and allow_self:
                continue
            bad.append((pi, path, pname))
        res.inst({'function': f.fq, 'mutated': ['%s%s' % (p, ''.join('.' + x for x in path)) for _, path, p in bad], 'shared': sorted(s.shared)}, f.fq)
        for pi, path, pname in bad:
            node, why, chain = s.sinks[(pi, path)]
            res.add(Finding(rid, f, '%s overwrites its argument `%s%s` in place (%s%s): the caller\'s tensor is changed, a second call with the same '
                            'objects starts from different data' % (q, pname, ''.join('.' + x for x in path), why,
                                                                     (' via ' + ' -> '.join(chain)) if chain else ''),
                            node=node if isinstance(node, ast.AST) else None, construct='param <- %s%s' % (pname, ''.join('.' + x for x in path))))
        for lab, (node, why, chain) in s.shared.items():
            res.add(Finding(rid, f, '%s writes in place into %s (%s)' % (q, lab, why), node=node if isinstance(node, ast.AST) else None,
                            construct='shared <- ' + lab))
    return res


def compute_summaries(repo, max_rounds=12, only_module=None):
    funcs = [f for f in repo.all_functions() if only_module is None or f.module.name == only_module]
    S = {f.fq: Summary() for f in repo.all_functions()}
    stats = {}
    rounds = 0
    for rounds in range(1, max_rounds + 1):
        changed = False
        stats = {}
        for f in funcs:
            fa = FuncAnalysis(repo, f, S, stats)
            try:
                s = fa.run()
            except RecursionError:
                continue
            if s.sig() != S[f.fq].sig():
                changed = True
            S[f.fq] = s
        if not changed:
            break
    stats['rounds'] = rounds
    stats['functions'] = len(funcs)
    return S, stats
