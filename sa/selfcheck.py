"""setup_cmd: parse the package, make sure every registered rule module imports, create evidence/."""
import os, sys, importlib
from .core import Repo, VERIF_DIR

def main():
    repo = Repo()
    n = 0
    for f in sorted(os.listdir(os.path.join(os.path.dirname(__file__), 'rules'))):
        if f.startswith('c') and f.endswith('.py'):
            importlib.import_module('sa.rules.' + f[:-3])
            n += 1
    os.makedirs(os.path.join(VERIF_DIR, 'evidence'), exist_ok=True)
    print('sa.selfcheck: %d modules parsed, %d rule modules importable' % (len(repo.modules), n))

if __name__ == '__main__':
    main()
