"""Freshness rule: a local tensor that a function writes into in place (x[..., i, :] = v, acc += v, t.add_(v)) was allocated by THIS call on
every path reaching the write - it is not loaded from the object's state (self.<attr>, also through tuple packing / views).

Necessary condition of "each call's result depends only on that call's arguments": a work buffer or accumulator kept on the object is
zeroed once, so the second call accumulates onto / overwrites what the first call computed and returned (the returned tensors alias it).
Writes through parameters are the business of the purity rules; this rule only reports state-loaded destinations.
"""
import ast
from .core import RuleResult, Finding, AnalysisError, dotted, src, norm_construct, guarded

CREATORS = {'zeros', 'ones', 'empty', 'full', 'zeros_like', 'ones_like', 'empty_like', 'full_like', 'eye', 'arange', 'tensor', 'rand', 'randn',
            'linspace', 'stack', 'cat', 'clone', 'new_zeros', 'new_ones', 'new_empty', 'new_full', 'tile', 'repeat', 'matmul', 'bmm', 'einsum',
            'contiguous_copy', 'detach_clone', 'as_tensor_copy'}
VIEWS = {'view', 'reshape', 'unsqueeze', 'squeeze', 'transpose', 'permute', 'movedim', 'expand', 'expand_as', 'narrow', 'select', 'detach',
         'contiguous', 'flatten', 'unflatten', 'swapaxes', 'to', 'float', 'double', 'view_as', 'requires_grad_', 'tensor', 'unbind', 'chunk', 'split'}
VIEW_ATTRS = {'T', 'mT', 'data'}


def _kinds(e, env, selfname):
    """{'fresh'} | {'state:<attr>'} | {'param:<n>'} | {'const'} | {'unknown'} (union for conditionals)"""
    if isinstance(e, ast.Constant):
        return {'const'}
    if isinstance(e, ast.Name):
        return set(env.get(e.id, {'unknown'}))
    if isinstance(e, ast.Attribute):
        d = dotted(e)
        if d and selfname and d.startswith(selfname + '.'):
            if d in env:
                return set(env[d])
            return {'state:' + d.split('.')[1]}
        if e.attr in VIEW_ATTRS:
            return _kinds(e.value, env, selfname)
        return {'unknown'}
    if isinstance(e, ast.Subscript):
        return _kinds(e.value, env, selfname)
    if isinstance(e, (ast.BinOp, ast.UnaryOp, ast.Compare, ast.BoolOp)):
        return {'fresh'}
    if isinstance(e, ast.IfExp):
        return _kinds(e.body, env, selfname) | _kinds(e.orelse, env, selfname)
    if isinstance(e, (ast.Tuple, ast.List)):
        out = set()
        for x in e.elts:
            out |= _kinds(x, env, selfname)
        return out or {'fresh'}
    if isinstance(e, ast.Call):
        fn = e.func
        name = (dotted(fn) or '').split('.')[-1] if dotted(fn) else (fn.attr if isinstance(fn, ast.Attribute) else '')
        if name in CREATORS:
            return {'fresh'}
        if isinstance(fn, ast.Attribute) and name in VIEWS:
            return _kinds(fn.value, env, selfname)
        if isinstance(fn, ast.Attribute) and name.endswith('_') and not name.startswith('_'):
            return _kinds(fn.value, env, selfname)
        if (dotted(fn) or '').startswith('torch.'):
            return {'fresh'}
        return {'unknown'}
    return {'unknown'}


def analyse(f):
    """-> list of (node, destination name, kinds) for every in-place write into a local name"""
    fn = f.node
    a = fn.args
    params = [p.arg for p in a.posonlyargs + a.args + a.kwonlyargs]
    selfname = params[0] if f.cls is not None and params and not f.is_static() else None
    env = {p: {'param:' + p} for p in params if p != selfname}
    sites = []

    def bind(t, kinds):
        if isinstance(t, ast.Name):
            env[t.id] = set(kinds)
        elif isinstance(t, (ast.Tuple, ast.List)):
            for x in t.elts:
                bind(x.value if isinstance(x, ast.Starred) else x, kinds)
        elif isinstance(t, ast.Attribute):
            d = dotted(t)
            if d and selfname and d.startswith(selfname + '.'):
                # within this call the attribute holds exactly this value (a path that does not pass here sees the stored state: merge())
                env[d] = set(kinds)

    def write_site(node, dest):
        b = dest
        while isinstance(b, (ast.Subscript, ast.Attribute)) and not (isinstance(b, ast.Attribute) and selfname and dotted(b) and dotted(b).startswith(selfname + '.')):
            b = b.value
        if isinstance(b, ast.Name) and b.id != selfname:
            sites.append((node, b.id, set(env.get(b.id, {'unknown'}))))

    def expr_calls(e):
        for n in ast.walk(e):
            if isinstance(n, ast.Call) and isinstance(n.func, ast.Attribute) and n.func.attr.endswith('_') and not n.func.attr.startswith('_') \
                    and n.func.attr not in ('requires_grad_',):
                write_site(n, n.func.value)

    def merge(envs):
        keys = set().union(*[set(x) for x in envs])
        def dflt(k):
            return {'state:' + k.split('.')[1]} if selfname and k.startswith(selfname + '.') else {'unknown'}
        return {k: set().union(*[x.get(k, dflt(k)) for x in envs]) for k in keys}

    def block(body):
        nonlocal env
        for st in body:
            if isinstance(st, ast.Assign):
                expr_calls(st.value)
                kinds = _kinds(st.value, env, selfname)
                for t in st.targets:
                    if isinstance(t, ast.Subscript):
                        write_site(st, t)
                    elif isinstance(t, (ast.Tuple, ast.List)) and isinstance(st.value, (ast.Tuple, ast.List)) and len(t.elts) == len(st.value.elts):
                        for x, v in zip(t.elts, st.value.elts):
                            if isinstance(x, ast.Subscript):
                                write_site(st, x)
                            else:
                                bind(x, _kinds(v, env, selfname))
                    else:
                        bind(t, kinds)
            elif isinstance(st, ast.AnnAssign) and st.value is not None:
                bind(st.target, _kinds(st.value, env, selfname))
            elif isinstance(st, ast.AugAssign):
                expr_calls(st.value)
                if isinstance(st.target, (ast.Name, ast.Subscript)):
                    if isinstance(st.target, ast.Name) and env.get(st.target.id, set()) <= {'const'}:
                        pass
                    else:
                        write_site(st, st.target)
            elif isinstance(st, ast.Expr):
                expr_calls(st.value)
            elif isinstance(st, ast.Return) and st.value is not None:
                expr_calls(st.value)
            elif isinstance(st, ast.If):
                before = {k: set(v) for k, v in env.items()}
                block(st.body)
                e1 = env
                env = {k: set(v) for k, v in before.items()}
                block(st.orelse)
                env = merge([e1, env])
            elif isinstance(st, (ast.For, ast.While)):
                before = {k: set(v) for k, v in env.items()}
                if isinstance(st, ast.For):
                    bind(st.target, {'const'} if isinstance(st.iter, ast.Call) and dotted(st.iter.func) == 'range' else _kinds(st.iter, env, selfname))
                block(st.body)
                block(st.body)
                env = merge([before, env])
                block(st.orelse)
            elif isinstance(st, ast.With):
                block(st.body)
            elif isinstance(st, ast.Try):
                block(st.body)
                for h in st.handlers:
                    block(h.body)
                block(st.orelse)
                block(st.finalbody)
    block(fn.body)
    return sites


@guarded
def rule_fresh(repo, rid, text, targets, floor=None):
    res = RuleResult(rid, text, floor=floor if floor is not None else len(targets))
    for mod, q in targets:
        f = repo.func(mod, q)
        sites = analyse(f)
        seen = set()
        n = 0
        for node, name, kinds in sites:
            key = (name, norm_construct(node, f.node))
            if key in seen:
                continue
            seen.add(key)
            n += 1
            st = sorted(k for k in kinds if k.startswith('state:'))
            res.inst({'function': f.fq, 'in-place write': src(node)[:70], 'destination': name, 'allocated by': sorted(kinds)}, (f.fq,) + key)
            if st:
                res.add(Finding(rid, f, '`%s` writes in place into `%s`, which on some path is loaded from the object\'s state (%s) instead of being '
                                'allocated by this call: a second call accumulates onto / overwrites what the first one computed and returned'
                                % (src(node)[:70], name, ', '.join(s[6:] for s in st)), node=node, construct='inplace-into-state|%s|%s' % key))
        if n == 0:
            res.inst({'function': f.fq, 'in-place writes': 0})
    _fixture(rid)
    return res


def _fixture(rid):
    code = ('class A:\n'
            '    def f(self, n):\n'
            '        if self.buf is None:\n'
            '            c = torch.zeros(n)\n'
            '            self.buf = (c,)\n'
            '        c, = self.buf\n'
            '        c += 1\n'
            '        return c\n'
            '    def g(self, n):\n'
            '        c = torch.zeros(n)\n'
            '        c += 1\n'
            '        self.last = c\n'
            '        return c\n')
    from .core import ModuleInfo
    mi = ModuleInfo('fixture', 'fixture.py', code, False)
    got = {}
    for f in mi.functions.values():
        got[f.qual] = [any(k.startswith('state:') for k in kinds) for _, _, kinds in analyse(f)]
    if got.get('A.f') != [True] or got.get('A.g') != [False]:
        raise AnalysisError('%s: positive/negative fixture no longer classified (%r)' % (rid, got))
