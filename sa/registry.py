"""Per-property metadata used for evidence files (what the rules decide, what they do not)."""

_NOTE = (' Decided statically from the syntax trees of /repo/pypose (nothing is executed). These are necessary '
         'structural conditions of the property; the numerical behaviour itself is NOT decided.')

PROPS = {
 'C01': {'explanation': 'C01.MP branch-mask groups of so3_Exp/so3_Jl/calcQ/rxso3_Ws are partitions (truth table); C01.GD every closed-form branch dividing by theta/sigma sits under a mask implying that magnitude > eps and gathers with its own mask; C01.LT layout typing of the four *_Exp.forward bodies against the extracted component layout table; C01.DT dispatch algebra type -> own Exp op -> group ltype. C01.GD also walks the returned value with the conjunction of masks under which each sub-expression is selected (guarded divisions, no factor vanishing exactly at the point a small-magnitude branch was written for).' + _NOTE},
 'C02': {'explanation': 'C02.MP/GD mask partition and guarded divisions of SO3_Log.forward; C02.LT layout typing of the four *_Log.forward; C02.PAIR Exp/Log apply paired inverse helpers to the same slot at the family\'s own Log output; C02.DT dispatch group -> algebra; C02.RANGE interval analysis: the rotation angle returned by SO3_Log lies in [-pi, pi].' + _NOTE},
 'C03': {'explanation': 'C03.LT layout typing of the 16 Mul/Inv/Act/Act4 forward bodies; C03.ACC accessors and matrix helpers agree with the layout table; C03.ID identity literals/constructors agree with the layout; C03.SB SE3<->Sim3 and SO3<->RxSO3 forward isomorphism; C03.DT result ltypes; C03.NOSIGN no group op scales its result by a sign() factor that is zero at zero.' + _NOTE},
 'C04': {'explanation': 'C04.VT variance (vector/covector) typing of all 32 hand-written backward bodies; C04.SB sibling agreement of the four families per op; C04.LT gradient arity/shape conventions and saved-tensor layout agreement; C04.PURE no in-place write into arguments or storage shared between calls in operation.py; C04.DEP Act/Act4 Jacobian helpers depend on the point slots the forward uses.' + _NOTE},
 'C05': {'explanation': 'C05.FWD AdjT forward = AdjXa(Inv(X), a) in-family; C05.RETR left retraction; C05.ADD add_ slice bound = manifold dimension and own algebra type; C05.JINV Jinvp = Jl_inv(Log(X)) @ p in-family; C05.CLONE add clones; C05.DT result ltypes; C05.ADJ adjoint builders have the orthogonal / skew block structure of their group; C05.JR so3 Jr divides by the angle only under its magnitude guard.' + _NOTE},
 'C06': {'explanation': 'C06.MUT alias/effect analysis: no public non-underscore API function mutates storage reachable from a tensor argument along any resolved call chain; C06.BCAST binary-op broadcast protocol; C06.PATCH retain_ltype patches are restored on every exit; C06.WRAP/RET wrapper and return-ltype tables; C06.HANDLED shape-only functions are in HANDLED_FUNCTIONS and re-wrapped; C06.SHARED no in-place write into memoised / module-level tensors; C06.BSHAPE broadcast_inputs returns the unpadded broadcast shape.' + _NOTE},
 'C07': {'explanation': 'C07.SYS provenance and sign parity of the linear system handed to the solver in GN/LM; C07.CORR corrector applied before normalisation, same selection idiom; C07.DAMP clamp dominates the trial loop and damping accumulates in place before each solve; C07.UPD update_parameter adds +step through add_ (retraction via MRO) under no_grad.' + _NOTE},
 'C08': {'explanation': 'C08.TS typestate (parameters, self.loss) in {BASE,TRIAL}^2 over every path of LM/GN step; C08.REJ reject counter bounds the back edge; C08.EXC solver inside try, no state change on the handler path; C08.STRAT strategy.update once per completed trial; C08.CLAMP bounded last writes in strategies; C08.ROLE branch-role table of the documented hyper-parameters.' + _NOTE},
 'C09': {'explanation': 'C09.GUARD every kernel forward establishes input >= 0 before computing; C09.MP Huber mask partition; C09.KIND residual/Jacobian definitions in the correctors carry R\'s / J\'s last dimension; C09.SEL per-residual kernel/corrector selection agrees; C09.AXIS squared norm over the same axis in loss and correctors; C09.UNIT dimensional homogeneity of the kernel formulas; C09.CONTR the Triggs rank-one correction contracts over the residual dimension; C09.MP/GD Huber mask partition.' + _NOTE},
 'C10': {'explanation': 'C10.STATUS error discipline: the status of every *_ex factorisation flows into a raising condition (or check_errors=True) before the factor is used; LSTSQ result passes its NaN assertion before being returned (C10.NANCHK); C10.ZERO the zero right-hand-side exit of CG does not return the caller-supplied initial guess.' + _NOTE},
 'C11': {'explanation': 'C11.MP mask_c0..c3 partition; C11.PAIRIDX candidate quaternion and trace term under one mask belong together (data flow); C11.FWD check/rtol/atol forwarded unchanged; C11.RAISE failed checks raise ValueError; C11.DISP from_matrix dispatch; C11.LT cat order equals layout.' + _NOTE},
 'C12': {'explanation': 'C12.KI bounds of integer arange/range are of integer kind; C12.ROLE left/right operand order of the scan lambdas and earlier/later selection in cumops_; C12.SB in-place/out-of-place twins agree; C12.CLONE out-of-place variants clone; C12.ALIAS index_copy_ source is a copy, not a view of the destination; C12.DELEG LieType/LieTensor cum* delegate to the same-named function.' + _NOTE},
 'C13': {'explanation': 'C13.INNOV EKF innovation is taken at the predicted state; C13.GAIN gain/posterior use the propagated covariance; C13.XCOV UKF cross-covariance deviations stem from the same sigma set; C13.ORIENT sigma offsets are columns of the matrix square root; C13.PF provenance chain of the particle model; C13.INV the innovation covariance is inverted without truncation tolerance and Cholesky-coloured noise is transposed.' + _NOTE},
 'C14': {'explanation': 'C14.CLK every roll-out of the system inside LQR is preceded by a clock reset with no other roll-out in between; C14.FEAS returned sequences are the rolled-out ones; C14.COST cost term pairs (x_t,u_t,Q_t,p_t) of the same t before x advances; C14.GAIN gains solve with the exact Quu/Qux/qu blocks (no added regularisation), negated.' + _NOTE},
 'C15': {'explanation': 'C15.HOOK System registers a forward hook adding exactly 1 to _t; C15.OWN only forward_hook/reset/systime.setter write _t; C15.SUPER subclasses call super().__init__(); C15.LIN NLS A/B/C/D/c1/c2 role table; C15.EQ LTI equations use the right matrices and operands.' + _NOTE},
 'C16': {'explanation': 'C16.CARRY every carried buffer is written back from this call\'s last frame; C16.RANK inputs pass through _check before use; C16.DIR rotation increments accumulated with a right product; C16.DEP scan primitives reachable from integrate/propagate_cov satisfy C12.KI; C16.COMP predict composes R0*dR, v0+R0*dv, p0+R0*dp+v0*dt; C16.SLICE every returned increment is the [1:] slice of its cumulative array.' + _NOTE},
 'C18': {'explanation': 'C18.IDX index-domain agreement: an index tensor computed over an axis of nominal extent S only indexes axes of the same extent (boolean-mask filtering creates a fresh extent; offsets derived from unique-counts index the group-sorted axis only); C18.SIGN homo2cart divides by a quantity that keeps the sign of the last coordinate.' + _NOTE},
 'C20': {'explanation': 'C20.LATCH _continual set True only in __init__/reset; C20.RESET reset re-initialises everything step writes; C20.BUDGET steps incremented exactly once and the unconditional budget guard sets the latch; C20.PAT patience counter two-way branch and guard; C20.DRV driver loops step the controller on every iteration path and reset before the loop; C20.CLAUSE the rejection / tol / improvement clauses have their documented form.' + _NOTE},
}
for _k, _v in PROPS.items():
    _v.setdefault('assumptions', ['torch semantics tables (view vs copy, *_ex status returns) are correct',
                                  'dynamic dispatch through user-supplied objects (solver, kernel, model, strategy) is opaque',
                                  'loops explored with each back edge taken at most twice'])


def _load_inventory():
    """rule ids and texts as last generated by tools_manifest.py (sa/rule_inventory.json): the explanation of every property lists every
    rule that is actually run, not only the ones described by hand above"""
    import json, os
    p = os.path.join(os.path.dirname(os.path.abspath(__file__)), 'rule_inventory.json')
    try:
        inv = json.load(open(p))
    except (OSError, ValueError):
        return
    for pid, rules in inv.items():
        if pid in PROPS:
            PROPS[pid]['rules'] = rules
            PROPS[pid]['explanation'] = 'Rules run: ' + ' | '.join('%s: %s' % (r['rule'], r['text']) for r in rules) + _NOTE


_load_inventory()
