"""Loop-carried staleness: a value computed before a loop from a tensor that the loop then changes, read inside the loop
without being recomputed, is stale from the second iteration on - unless it is a live view of that tensor.

stale_reads(fnode, loop) -> [(name, definition stmt, dependency name, first reading node)]
"""
import ast
from .core import dotted, src, guarded, guarded_list

VIEW_ONLY = {'view', 'reshape', 'unsqueeze', 'squeeze', 'diagonal', 'transpose', 'permute', 'narrow', 'select', 'detach', 'view_as',
             'expand', 'expand_as', 'contiguous', 'tensor', 'unbind', 'split', 'chunk', 'flatten'}
VIEW_ATTRS = {'mT', 'T', 'mH', 'H', 'data', 'real', 'imag'}
META_ATTRS = {'shape', 'dtype', 'device', 'ndim', 'layout', 'requires_grad', 'is_sparse', 'is_sparse_csr', 'ltype', 'lshape'}
META_METHODS = {'size', 'dim', 'numel', 'type', 'element_size', 'nelement', 'ndimension', 'stride', 'is_contiguous'}


def base_name(e):
    """name at the root of a view chain  x.diagonal().view(..)[..., 0]  -> 'x' ; None if not a pure view chain"""
    while True:
        if isinstance(e, ast.Name):
            return e.id
        if isinstance(e, ast.Attribute) and e.attr in VIEW_ATTRS:
            e = e.value
        elif isinstance(e, ast.Subscript):
            e = e.value
        elif isinstance(e, ast.Call) and isinstance(e.func, ast.Attribute) and e.func.attr in VIEW_ONLY:
            e = e.func.value
        else:
            return None


def mutated_in(stmts):
    """names rebound or changed in place by the statements (not descending into nested defs)"""
    rebound, inplace = set(), set()

    def targets(t):
        if isinstance(t, ast.Name):
            rebound.add(t.id)
        elif isinstance(t, (ast.Tuple, ast.List)):
            for x in t.elts:
                targets(x)
        elif isinstance(t, ast.Subscript):
            b = base_name(t.value)
            if b:
                inplace.add(b)
        elif isinstance(t, ast.Starred):
            targets(t.value)

    def rec(n):
        for c in ast.iter_child_nodes(n):
            if isinstance(c, (ast.FunctionDef, ast.AsyncFunctionDef, ast.ClassDef, ast.Lambda)):
                continue
            if isinstance(c, ast.Assign):
                for t in c.targets:
                    targets(t)
            elif isinstance(c, ast.AugAssign):
                if isinstance(c.target, ast.Name):
                    rebound.add(c.target.id)
                    inplace.add(c.target.id)
                else:
                    targets(c.target)
            elif isinstance(c, (ast.For, ast.AsyncFor)):
                targets(c.target)
            elif isinstance(c, ast.Call):
                if isinstance(c.func, ast.Attribute) and c.func.attr.endswith('_') and not c.func.attr.endswith('__'):
                    b = base_name(c.func.value)
                    if b:
                        inplace.add(b)
                for k in c.keywords:
                    if k.arg == 'out':
                        b = base_name(k.value)
                        if b:
                            inplace.add(b)
                            rebound.add(b)       # fully rewritten: counts as a fresh definition inside the loop
            rec(c)
    rec(ast.Module(list(stmts), []))
    return rebound, inplace


def value_deps(e):
    """names whose *values* e reads (metadata reads such as x.shape, x.device, x.size() do not count)"""
    out = set()

    def rec(n, meta=False):
        if isinstance(n, ast.Attribute) and n.attr in META_ATTRS:
            return
        if isinstance(n, ast.Call) and isinstance(n.func, ast.Attribute) and n.func.attr in META_METHODS:
            for a in n.args:
                rec(a)
            return
        if isinstance(n, ast.Name) and isinstance(n.ctx, ast.Load):
            out.add(n.id)
        for c in ast.iter_child_nodes(n):
            if not isinstance(c, ast.Lambda):
                rec(c)
    rec(e)
    return out


def stale_reads(fnode, loop):
    # statements before the loop, in source order (flattened; branches merged conservatively: last definition wins per branch)
    before = []

    def collect(stmts):
        for st in stmts:
            if st is loop:
                return True
            if any(x is loop for x in ast.walk(st)):
                # the loop is nested in this compound statement: descend
                for f in ('body', 'orelse', 'finalbody'):
                    if collect(getattr(st, f, []) or []):
                        return True
                for h in getattr(st, 'handlers', []) or []:
                    if collect(h.body):
                        return True
                return True
            before.append(st)
        return False
    collect(fnode.body)
    defs = {}      # name -> list of (value expr, stmt)
    for st in before:
        for n in ast.walk(st):
            if isinstance(n, ast.Assign):
                for t in n.targets:
                    if isinstance(t, ast.Name):
                        defs.setdefault(t.id, []).append((n.value, n))
                    elif isinstance(t, ast.Tuple) and isinstance(n.value, ast.Tuple) and len(t.elts) == len(n.value.elts):
                        for a, b in zip(t.elts, n.value.elts):
                            if isinstance(a, ast.Name):
                                defs.setdefault(a.id, []).append((b, n))
    rebound, inplace = mutated_in(loop.body)
    changed = rebound | inplace
    # only the definitions that are still visible at the loop: a later unconditional re-definition before the loop hides earlier ones.
    out = []
    reads = {}
    for n in ast.walk(ast.Module(list(loop.body) + ([loop.test] if isinstance(loop, ast.While) else []), [])):
        if isinstance(n, ast.Name) and isinstance(n.ctx, ast.Load):
            reads.setdefault(n.id, n)
    for name, node in reads.items():
        if name in rebound or name not in defs:
            continue
        for val, st in defs[name][-2:]:
            deps = value_deps(val) & changed
            deps.discard(name)
            if not deps:
                continue
            b = base_name(val)
            if b is not None and b in deps and b not in rebound:
                continue        # a live view of the changing tensor follows it
            # a dependency that is only *rebound* in the loop but whose old object is what the value was derived from:
            # still stale with respect to the new binding
            out.append((name, st, sorted(deps)[0], node))
    return out


def conditional_stale(fnode, loop):
    """names assigned only under a condition inside the loop (one branch of an if), from an expression that reads the loop variable,
    and read in the loop outside that branch: in the other iterations they still hold the value of the iteration that took the branch"""
    if not isinstance(loop, ast.For):
        return []
    lv = {n.id for n in ast.walk(loop.target) if isinstance(n, ast.Name)}
    out = []

    def assigned(stmts):
        names = {}
        for st in stmts:
            for n in ast.walk(st):
                if isinstance(n, ast.Assign):
                    for t in n.targets:
                        for x in ast.walk(t):
                            if isinstance(x, ast.Name) and isinstance(x.ctx, ast.Store):
                                names.setdefault(x.id, n)
        return names
    top = assigned([st for st in loop.body if not isinstance(st, ast.If)])
    for st in loop.body:
        if not isinstance(st, ast.If):
            continue
        a_body, a_else = assigned(st.body), assigned(st.orelse)
        for branch, other, here in ((a_body, a_else, st.body), (a_else, a_body, st.orelse)):
            for name, asg in branch.items():
                if name in other or name in top:
                    continue
                # the whole chained value (a = b = E assigns E to both)
                if not (value_deps(asg.value) & lv):
                    continue
                # read outside this branch?
                readers = [n for s2 in loop.body for n in ast.walk(s2) if isinstance(n, ast.Name) and n.id == name and isinstance(n.ctx, ast.Load)
                           and not any(n is y for h in here for y in ast.walk(h))]
                if readers:
                    out.append((name, asg, sorted(lv)[0], readers[0]))
    return out


@guarded
def rule_stale(repo, rid, targets, floor=None):
    """targets: [(module, qualname)] - every loop of those functions is examined"""
    from .core import RuleResult, Finding
    res = RuleResult(rid, 'loop-carried staleness: nothing read inside the loop was computed before it from a tensor the loop changes '
                     '(in place or by rebinding) unless it is a live view of that tensor or is recomputed inside the loop', floor=floor or len(targets))
    for mod, q in targets:
        f = repo.func(mod, q)
        loops = [x for x in ast.walk(f.node) if isinstance(x, (ast.For, ast.While))]
        for loop in loops:
            hits = stale_reads(f.node, loop) + conditional_stale(f.node, loop)
            rebound, inplace = mutated_in(loop.body)
            res.inst({'function': f.fq, 'loop_line': loop.lineno, 'changed_in_loop': sorted(rebound | inplace)[:12], 'stale_reads': len(hits)},
                     (f.fq, src(loop.test if isinstance(loop, ast.While) else loop.iter)[:60]))
            for name, st, dep, node in hits:
                res.add(Finding(rid, f, '`%s` is computed before the loop from `%s` (`%s`), `%s` changes inside the loop, and `%s` is read in the '
                                'loop without being recomputed: from the second iteration on it is stale' % (name, dep, src(st)[:60], dep, name),
                                node=st))
    return res
