"""Loop-carried staleness: a value computed before a loop from a tensor that the loop then changes, read inside the loop
without being recomputed, is stale from the second iteration on - unless it is a live view of that tensor.

stale_reads(fnode, loop) -> [(name, definition stmt, dependency name, first reading node)]
"""
import ast
from .core import dotted, src, guarded, guarded_list, AnalysisError

VIEW_ONLY = {'view', 'reshape', 'unsqueeze', 'squeeze', 'diagonal', 'transpose', 'permute', 'narrow', 'select', 'detach', 'view_as',
             'expand', 'expand_as', 'contiguous', 'tensor', 'unbind', 'split', 'chunk', 'flatten'}
VIEW_ATTRS = {'mT', 'T', 'mH', 'H', 'data', 'real', 'imag'}
META_ATTRS = {'shape', 'dtype', 'device', 'ndim', 'layout', 'requires_grad', 'is_sparse', 'is_sparse_csr', 'ltype', 'lshape'}
META_METHODS = {'size', 'dim', 'numel', 'type', 'element_size', 'nelement', 'ndimension', 'stride', 'is_contiguous'}


def base_name(e):
    """name at the root of a view chain  x.diagonal().view(..)[..., 0]  -> 'x' ; None if not a pure view chain"""
    while True:
        if isinstance(e, ast.Name):
            return e.id
        if isinstance(e, ast.Attribute) and e.attr in VIEW_ATTRS:
            e = e.value
        elif isinstance(e, ast.Subscript):
            e = e.value
        elif isinstance(e, ast.Call) and isinstance(e.func, ast.Attribute) and e.func.attr in VIEW_ONLY:
            e = e.func.value
        else:
            return None


def mutated_in(stmts):
    """names rebound or changed in place by the statements (not descending into nested defs)"""
    rebound, inplace = set(), set()

    def targets(t):
        if isinstance(t, ast.Name):
            rebound.add(t.id)
        elif isinstance(t, (ast.Tuple, ast.List)):
            for x in t.elts:
                targets(x)
        elif isinstance(t, ast.Subscript):
            b = base_name(t.value)
            if b:
                inplace.add(b)
        elif isinstance(t, ast.Starred):
            targets(t.value)

    def rec(n):
        for c in ast.iter_child_nodes(n):
            if isinstance(c, (ast.FunctionDef, ast.AsyncFunctionDef, ast.ClassDef, ast.Lambda)):
                continue
            if isinstance(c, ast.Assign):
                for t in c.targets:
                    targets(t)
            elif isinstance(c, ast.AugAssign):
                if isinstance(c.target, ast.Name):
                    rebound.add(c.target.id)
                    inplace.add(c.target.id)
                else:
                    targets(c.target)
            elif isinstance(c, (ast.For, ast.AsyncFor)):
                targets(c.target)
            elif isinstance(c, ast.Call):
                if isinstance(c.func, ast.Attribute) and c.func.attr.endswith('_') and not c.func.attr.endswith('__'):
                    b = base_name(c.func.value)
                    if b:
                        inplace.add(b)
                for k in c.keywords:
                    if k.arg == 'out':
                        b = base_name(k.value)
                        if b:
                            inplace.add(b)
                            rebound.add(b)       # fully rewritten: counts as a fresh definition inside the loop
            rec(c)
    rec(ast.Module(list(stmts), []))
    return rebound, inplace


def value_deps(e):
    """names whose *values* e reads (metadata reads such as x.shape, x.device, x.size() do not count)"""
    out = set()

    def rec(n, meta=False):
        if isinstance(n, ast.Attribute) and n.attr in META_ATTRS:
            return
        if isinstance(n, ast.Call) and isinstance(n.func, ast.Attribute) and n.func.attr in META_METHODS:
            for a in n.args:
                rec(a)
            return
        if isinstance(n, ast.Name) and isinstance(n.ctx, ast.Load):
            out.add(n.id)
        for c in ast.iter_child_nodes(n):
            if not isinstance(c, ast.Lambda):
                rec(c)
    rec(e)
    return out


def stale_reads(fnode, loop):
    # statements before the loop, in source order (flattened; branches merged conservatively: last definition wins per branch)
    before = []

    def collect(stmts):
        for st in stmts:
            if st is loop:
                return True
            if any(x is loop for x in ast.walk(st)):
                # the loop is nested in this compound statement: descend
                for f in ('body', 'orelse', 'finalbody'):
                    if collect(getattr(st, f, []) or []):
                        return True
                for h in getattr(st, 'handlers', []) or []:
                    if collect(h.body):
                        return True
                return True
            before.append(st)
        return False
    collect(fnode.body)
    defs = {}      # name -> list of (value expr, stmt)
    for st in before:
        for n in ast.walk(st):
            if isinstance(n, ast.Assign):
                for t in n.targets:
                    if isinstance(t, ast.Name):
                        defs.setdefault(t.id, []).append((n.value, n))
                    elif isinstance(t, ast.Tuple) and isinstance(n.value, ast.Tuple) and len(t.elts) == len(n.value.elts):
                        for a, b in zip(t.elts, n.value.elts):
                            if isinstance(a, ast.Name):
                                defs.setdefault(a.id, []).append((b, n))
    rebound, inplace = mutated_in(loop.body)
    changed = rebound | inplace
    # only the definitions that are still visible at the loop: a later unconditional re-definition before the loop hides earlier ones.
    out = []
    reads = {}
    for n in ast.walk(ast.Module(list(loop.body) + ([loop.test] if isinstance(loop, ast.While) else []), [])):
        if isinstance(n, ast.Name) and isinstance(n.ctx, ast.Load):
            reads.setdefault(n.id, n)
    for name, node in reads.items():
        if name in rebound or name not in defs:
            continue
        for val, st in defs[name][-2:]:
            deps = value_deps(val) & changed
            deps.discard(name)
            if not deps:
                continue
            b = base_name(val)
            if b is not None and b in deps and b not in rebound:
                continue        # a live view of the changing tensor follows it
            # a dependency that is only *rebound* in the loop but whose old object is what the value was derived from:
            # still stale with respect to the new binding
            out.append((name, st, sorted(deps)[0], node))
    return out


def conditional_stale(fnode, loop):
    """names assigned only under a condition inside the loop (one branch of an if), from an expression that reads the loop variable,
    and read in the loop outside that branch: in the other iterations they still hold the value of the iteration that took the branch"""
    if not isinstance(loop, ast.For):
        return []
    lv = {n.id for n in ast.walk(loop.target) if isinstance(n, ast.Name)}
    out = []

    def assigned(stmts):
        names = {}
        for st in stmts:
            for n in ast.walk(st):
                if isinstance(n, ast.Assign):
                    for t in n.targets:
                        for x in ast.walk(t):
                            if isinstance(x, ast.Name) and isinstance(x.ctx, ast.Store):
                                names.setdefault(x.id, n)
        return names
    top = assigned([st for st in loop.body if not isinstance(st, ast.If)])
    for st in loop.body:
        if not isinstance(st, ast.If):
            continue
        a_body, a_else = assigned(st.body), assigned(st.orelse)
        for branch, other, here in ((a_body, a_else, st.body), (a_else, a_body, st.orelse)):
            for name, asg in branch.items():
                if name in other or name in top:
                    continue
                # the whole chained value (a = b = E assigns E to both)
                if not (value_deps(asg.value) & lv):
                    continue
                # read outside this branch?
                readers = [n for s2 in loop.body for n in ast.walk(s2) if isinstance(n, ast.Name) and n.id == name and isinstance(n.ctx, ast.Load)
                           and not any(n is y for h in here for y in ast.walk(h))]
                if readers:
                    out.append((name, asg, sorted(lv)[0], readers[0]))
    return out


@guarded
def rule_stale(repo, rid, targets, floor=None):
    """targets: [(module, qualname)] - every loop of those functions is examined"""
    from .core import RuleResult, Finding
    res = RuleResult(rid, 'loop-carried staleness: nothing read inside the loop was computed before it from a tensor the loop changes '
                     '(in place or by rebinding) unless it is a live view of that tensor or is recomputed inside the loop', floor=floor or len(targets))
    for mod, q in targets:
        f = repo.func(mod, q)
        loops = [x for x in ast.walk(f.node) if isinstance(x, (ast.For, ast.While))]
        for loop in loops:
            hits = stale_reads(f.node, loop) + conditional_stale(f.node, loop)
            rebound, inplace = mutated_in(loop.body)
            res.inst({'function': f.fq, 'loop_line': loop.lineno, 'changed_in_loop': sorted(rebound | inplace)[:12], 'stale_reads': len(hits)},
                     (f.fq, src(loop.test if isinstance(loop, ast.While) else loop.iter)[:60]))
            for name, st, dep, node in hits:
                res.add(Finding(rid, f, '`%s` is computed before the loop from `%s` (`%s`), `%s` changes inside the loop, and `%s` is read in the '
                                'loop without being recomputed: from the second iteration on it is stale' % (name, dep, src(st)[:60], dep, name),
                                node=st))
    return res


@guarded
def rule_stale_all(repo, rid, modules):
    """every loop of every function of the given modules"""
    from .core import RuleResult, Finding
    res = RuleResult(rid, 'loop-carried staleness in every loop of these modules: nothing read inside a loop was computed before it from a value the loop changes (in place '
                     'or by rebinding) unless it is a live view of that value or is recomputed inside the loop', floor=1)
    n = 0
    for m in modules:
        for f in repo.functions_view(m):
            for loop in [x for x in ast.walk(f.node) if isinstance(x, (ast.For, ast.While))]:
                n += 1
                hits = stale_reads(f.node, loop) + conditional_stale(f.node, loop)
                res.inst({'function': f.fq, 'loop_line': loop.lineno, 'stale_reads': len(hits)}, (f.fq, src(loop.test if isinstance(loop, ast.While) else loop.iter)[:60]))
                for name, st, dep, node in hits:
                    res.add(Finding(rid, f, '`%s` is computed before the loop from `%s` (`%s`), `%s` changes inside the loop, and `%s` is read in the loop without being '
                                    'recomputed: from the second iteration on it is stale' % (name, dep, src(st)[:60], dep, name), node=st))
    res.inst({'loops examined': n}, 'scan')
    return res


# ---------------------------------------------------------------- FIRSTREP: one element standing in for all

def _iter_names(it):
    """names of the collections a loop / comprehension iterates over: `C`, `zip(C, D)`, `enumerate(C)`, `C.items()`"""
    out = set()
    if isinstance(it, ast.Name):
        out.add(it.id)
    elif isinstance(it, ast.Call):
        fn = dotted(it.func) or ''
        if fn in ('zip', 'enumerate', 'reversed', 'list', 'tuple', 'sorted'):
            for a in it.args:
                out |= _iter_names(a)
        elif isinstance(it.func, ast.Attribute) and it.func.attr in ('items', 'values') and isinstance(it.func.value, ast.Name):
            out.add(it.func.value.id)
    return out


def first_representatives(fnode):
    """[(assign, name, collection, use)]: `name` is computed from element 0 of `collection` (`C[0]`, `C[0][0]`) by something that depends on the element's
    CONTENT SIZE (numel / shape / size / len), and is then used inside a loop or comprehension that runs over `collection` itself - every element is treated with
    the extent of the first.  dtype / device / ndim of the first element are what a homogeneous collection shares and are not reported."""
    from .memo import _own_nodes
    SIZEY = {'numel', 'shape', 'size', 'nelement'}
    aliases = {}                       # Jrows = J if .. else (J,)  ->  Jrows ~ J
    for n in _own_nodes(fnode):
        if isinstance(n, ast.Assign) and len(n.targets) == 1 and isinstance(n.targets[0], ast.Name):
            for x in ast.walk(n.value):
                if isinstance(x, ast.Name) and x.id != n.targets[0].id:
                    aliases.setdefault(n.targets[0].id, set()).add(x.id)
    out = []
    for n in _own_nodes(fnode):
        if not (isinstance(n, ast.Assign) and len(n.targets) == 1 and isinstance(n.targets[0], ast.Name)):
            continue
        name = n.targets[0].id
        coll = None
        for x in ast.walk(n.value):
            # <C[0]...>.numel() / .shape / .size(..) / len(C[0]..)
            base = None
            if isinstance(x, ast.Attribute) and x.attr in SIZEY:
                base = x.value
            elif isinstance(x, ast.Call) and dotted(x.func) == 'len' and x.args:
                base = x.args[0]
            while isinstance(base, ast.Subscript):
                if isinstance(base.slice, ast.Constant) and base.slice.value == 0 and isinstance(base.value, ast.Name):
                    coll = base.value.id
                base = base.value
            if coll:
                break
        if not coll:
            continue
        for scope in ast.walk(fnode):
            its, body = [], []
            if isinstance(scope, ast.For):
                its, body = [scope.iter], scope.body
            elif isinstance(scope, (ast.ListComp, ast.GeneratorExp, ast.SetComp, ast.DictComp)):
                its = [g.iter for g in scope.generators]
                body = [scope.elt] if not isinstance(scope, ast.DictComp) else [scope.key, scope.value]
            if not its or getattr(scope, 'lineno', 0) < n.lineno:
                continue
            over = set()
            for it in its:
                over |= _iter_names(it)
            if not (coll in over or any(coll in aliases.get(o, ()) for o in over) or any(o in aliases.get(coll, ()) for o in over)):
                continue
            for b in body:
                use = next((y for y in ast.walk(b) if isinstance(y, ast.Name) and y.id == name and isinstance(y.ctx, ast.Load)), None)
                if use is not None:
                    out.append((n, name, coll, use))
                    break
    return out


@guarded
def rule_firstrep(repo, rid, modules):
    from .core import RuleResult, Finding
    res = RuleResult(rid, 'no extent (numel / shape / size / len) taken from element 0 of a collection is applied to every element inside a loop or comprehension over '
                     'that collection: the elements of a heterogeneous collection (outputs, parameters, residual blocks of different sizes) have their own extents', floor=1)
    n = 0
    for m in modules:
        for f in repo.functions_view(m):
            n += 1
            for st, name, coll, use in first_representatives(f.node):
                res.inst({'function': f.fq, 'name': name, 'collection': coll}, (f.fq, name))
                res.add(Finding(rid, f, '`%s` is computed from the extent of element 0 of `%s` (`%s`) and applied to every element in the loop / comprehension over `%s` at '
                                'line %d: elements of another size are reshaped / sliced with the first one\'s extent' % (name, coll, src(st)[:70], coll, use.lineno),
                                node=st, construct='first-element extent|' + name))
    res.inst({'functions scanned': n}, 'scan')
    fx = [ast.parse(t).body[0] for t in (
        "def f(J, ps):\n    nrows = J[0][0].numel() // ps[0].numel()\n    return [j.reshape(nrows, -1) for j in J]\n",
        "def f(J, ps):\n    dt = J[0].dtype\n    return [j.to(dt).reshape(j.numel() // p.numel(), -1) for j, p in zip(J, ps)]\n")]
    if [len(first_representatives(x)) for x in fx] != [1, 0]:
        raise AnalysisError('%s: the first-element fixture is no longer recognised' % rid)
    return res
