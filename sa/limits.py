"""LIMIT rule: regime continuity of branch-masked coefficient formulas, decided in the truncated-series domain (sa.series).

A coefficient tensor is assembled from branches selected by magnitude masks (`theta > eps`, `sigma.abs() > eps`): a closed form where the
quantity is large, its Taylor polynomial / limit where it is small.  For every pair of ADJACENT regimes - the masks differ in exactly one
magnitude atom d - the formula of the small-d branch must be the d -> 0 expansion of the formula of the large-d branch:
  * the reference (large-d) formula has no term of negative order in d (it stays finite where the small branch takes over),
  * its coefficients of d^0 .. d^k equal those of the branch, k being the degree of the polynomial the branch states,
  * each such coefficient is compared as a function of the variables that are free in both regimes (their Laurent expansion, every known
    order), and at order 0 of the variables that are small in both regimes.
This is a necessary condition of the value clauses of C01 / C02 ("including values just below and just above the switch-over points"):
if the expansions differ at a stated order the two branches denote different functions, and inputs within the small regime get a value that
is not the limit of the exact formula (wrong by the relative size of the differing term - 100 % if the reference diverges).  The rule
decides the analytic agreement of the formulas, not the floating-point accuracy of either.
"""
import ast
from fractions import Fraction as Fr
from .core import RuleResult, Finding, AnalysisError, dotted, src, guarded
from .expr import dump
from . import masks, series
from .series import Unsupported, Inconclusive, INF

SHAPE_METHODS = masks.WRAP_METHODS
FN_METHODS = {'sin', 'cos', 'exp', 'atan', 'tan', 'sinh', 'cosh', 'tanh', 'log', 'arctan'}
FN_FUNCS = {'torch.sin', 'torch.cos', 'torch.exp', 'torch.atan', 'torch.tan', 'torch.arctan', 'math.sin', 'math.cos', 'math.exp', 'math.atan',
            'torch.sinh', 'torch.cosh', 'torch.tanh', 'torch.log', 'math.log', 'math.tan', 'math.atan'}
PASS_FUNCS = {'torch.nan_to_num', 'torch.as_tensor', 'torch.tensor', 'torch.clone', 'float'}
ABS_LIKE = {'abs', 'torch.abs'}


def shape_strip(e):
    while True:
        if isinstance(e, ast.Subscript) and masks.formula(e.slice) is not None:
            e = e.value
        elif isinstance(e, ast.Call) and isinstance(e.func, ast.Attribute) and e.func.attr in SHAPE_METHODS \
                and not (dotted(e.func) or '').startswith(('torch.', 'math.')):
            e = e.func.value
        else:
            return e


def abs_strip(e):
    while True:
        e = shape_strip(e)
        if isinstance(e, ast.Call) and isinstance(e.func, ast.Attribute) and e.func.attr == 'abs' and not (dotted(e.func) or '').startswith('torch.'):
            e = e.func.value
        elif isinstance(e, ast.Call) and dotted(e.func) in ('torch.abs', 'abs') and e.args:
            e = e.args[0]
        else:
            return e


def _is_square(e):
    e = shape_strip(e)
    if isinstance(e, ast.BinOp) and isinstance(e.op, ast.Mult) and dump(shape_strip(e.left)) == dump(shape_strip(e.right)):
        return True
    if isinstance(e, ast.BinOp) and isinstance(e.op, ast.Pow) and isinstance(e.right, ast.Constant) and e.right.value == 2:
        return True
    if isinstance(e, ast.Call) and isinstance(e.func, ast.Attribute) and e.func.attr in ('square', 'square_') and not (dotted(e.func) or '').startswith('torch.'):
        return True
    if isinstance(e, ast.Call) and dotted(e.func) in ('torch.square',):
        return True
    if isinstance(e, ast.Call) and isinstance(e.func, ast.Attribute) and e.func.attr == 'pow' and e.args and isinstance(e.args[0], ast.Constant) and e.args[0].value == 2:
        return True
    return False


def atom_table(mask_exprs):
    """atom key -> (variable root node, sense) ; sense +1: atom true <=> variable large, -1: atom true <=> variable small"""
    out = {}
    for m in mask_exprs:
        for n in ast.walk(m):
            if not (isinstance(n, ast.Compare) and len(n.ops) == 1):
                continue
            l, r, op = n.left, n.comparators[0], n.ops[0]
            if isinstance(op, (ast.Gt, ast.LtE)):
                key, a, b = ('gt', dump(l), dump(r)), l, r
            elif isinstance(op, (ast.Lt, ast.GtE)):
                key, a, b = ('gt', dump(r), dump(l)), r, l
            else:
                continue
            if masks.is_eps_like(b) and not masks.is_eps_like(a):
                out[key] = (abs_strip(a), +1)
            elif masks.is_eps_like(a) and not masks.is_eps_like(b):
                out[key] = (abs_strip(b), -1)
    return out


class Evaluator:
    matmul_commutes = False           # set by rules whose operands are powers of ONE matrix (polynomials in a single matrix commute)

    def __init__(self, ring, varmap, regime):
        self.ring, self.varmap, self.regime = ring, varmap, regime

    def ev(self, e):
        R = self.ring
        k = dump(shape_strip(e))
        if k in self.varmap:
            return self.varmap[k]
        e = shape_strip(e)
        if isinstance(e, ast.Constant):
            if isinstance(e.value, bool) or not isinstance(e.value, (int, float)):
                raise Unsupported('constant %r' % (e.value,))
            return R.const(Fr(repr(e.value)) if isinstance(e.value, float) else Fr(e.value))
        if isinstance(e, ast.UnaryOp) and isinstance(e.op, ast.USub):
            return R.neg(self.ev(e.operand))
        if isinstance(e, ast.UnaryOp) and isinstance(e.op, ast.UAdd):
            return self.ev(e.operand)
        if isinstance(e, ast.BinOp):
            if isinstance(e.op, ast.Pow):
                n = e.right
                if isinstance(n, ast.UnaryOp) and isinstance(n.op, ast.USub) and isinstance(n.operand, ast.Constant):
                    n = ast.Constant(-n.operand.value)
                if isinstance(n, ast.Constant) and isinstance(n.value, (int, float)) and float(n.value) == int(n.value):
                    return R.powi(self.ev(e.left), int(n.value))
                if isinstance(n, ast.Constant) and n.value == 0.5:
                    return R.sqrt(self.ev(e.left))
                raise Unsupported('power with a non-integer exponent')
            a, b = self.ev(e.left), self.ev(e.right)
            if isinstance(e.op, ast.Add):
                return R.add(a, b)
            if isinstance(e.op, ast.Sub):
                return R.sub(a, b)
            if isinstance(e.op, ast.Mult):
                return R.mul(a, b)
            if isinstance(e.op, ast.Div):
                return R.mul(a, R.inv(b))
            if isinstance(e.op, ast.MatMult) and self.matmul_commutes:
                return R.mul(a, b)
            raise Unsupported('operator %s' % type(e.op).__name__)
        if isinstance(e, ast.Call):
            d = dotted(e.func) or ''
            if d == '$upd':
                return self.upd(e)
            if d in FN_FUNCS and e.args:
                return R.fn(d.split('.')[-1].replace('arctan', 'atan'), self.ev(e.args[0]))
            if d in PASS_FUNCS and e.args:
                return self.ev(e.args[0])
            if d in ('torch.sqrt', 'math.sqrt') and e.args:
                return R.sqrt(self.ev(e.args[0]))
            if d in ('torch.square',) and e.args:
                x = self.ev(e.args[0])
                return R.mul(x, x)
            if d in ('torch.pow',) and len(e.args) == 2 and isinstance(e.args[1], ast.Constant) and isinstance(e.args[1].value, int):
                return R.powi(self.ev(e.args[0]), e.args[1].value)
            if d in ('torch.reciprocal',) and e.args:
                return R.inv(self.ev(e.args[0]))
            if d in ('torch.zeros_like', 'torch.zeros'):
                return R.zero()
            if d in ('torch.ones_like', 'torch.ones'):
                return R.one()
            if d == 'torch.eye' and self.matmul_commutes:
                return R.one()
            if d in ('torch.linalg.matrix_power', 'torch.matrix_power') and self.matmul_commutes and len(e.args) == 2 and isinstance(e.args[1], ast.Constant):
                return R.powi(self.ev(e.args[0]), int(e.args[1].value))
            if d in ('torch.mul', 'torch.div', 'torch.add', 'torch.sub') and len(e.args) == 2:
                op = {'mul': ast.Mult, 'div': ast.Div, 'add': ast.Add, 'sub': ast.Sub}[d.split('.')[1]]()
                return self.ev(ast.BinOp(e.args[0], op, e.args[1]))
            if isinstance(e.func, ast.Attribute) and not d.startswith(('torch.', 'math.')):
                m, recv = e.func.attr, e.func.value
                if m in FN_METHODS and not e.args:
                    return R.fn(m.replace('arctan', 'atan'), self.ev(recv))
                if m == 'sqrt' and not e.args:
                    return R.sqrt(self.ev(recv))
                if m == 'square' and not e.args:
                    x = self.ev(recv)
                    return R.mul(x, x)
                if m == 'reciprocal' and not e.args:
                    return R.inv(self.ev(recv))
                if m == 'pow' and len(e.args) == 1 and isinstance(e.args[0], ast.Constant) and isinstance(e.args[0].value, int):
                    return R.powi(self.ev(recv), e.args[0].value)
                if m == 'nan_to_num':
                    return self.ev(recv)
            raise Unsupported('call %s' % (d or src(e)[:30]))
        raise Unsupported('operand `%s`' % src(e)[:40])

    def upd(self, e):
        prev, idx, val = e.args
        f = masks.formula(idx.slice) if isinstance(idx, ast.Subscript) else None
        if f is None:
            raise Unsupported('store through a non-mask index')
        if masks.implies(self.regime, f):
            return self.ev(val)
        if masks.implies(self.regime, ('not', f)):
            return self.ev(prev)
        raise Unsupported('a masked tensor whose mask is undetermined in this regime')


def member_value(member, kind):
    """AST of the value a member contributes (store groups: the rhs; sum groups: product of the non-mask factors)"""
    rhs = member[1]
    if kind == 'store':
        return rhs
    out = None
    for x in rhs:
        if isinstance(x, tuple):
            out = ast.BinOp(out if out is not None else ast.Constant(1.0), ast.Div(), x[1])
        else:
            out = x if out is None else ast.BinOp(out, ast.Mult(), x)
    return out if out is not None else ast.Constant(1.0)


def _status(f, atoms):
    st = {}
    for a in atoms:
        if masks.implies(f, ('atom', a), atoms):
            st[a] = True
        elif masks.implies(f, ('not', ('atom', a)), atoms):
            st[a] = False
        else:
            st[a] = None
    return st


def _level_degree(ring, x, depth):
    """largest exponent present at nesting level `depth` of x"""
    if depth == 0:
        return max([e for e in x.c] + [0])
    return max([_level_degree(ring.base, v, depth - 1) for v in x.c.values()] + [0])


def _short(n, k=46):
    s = src(n)
    return s if len(s) <= k else s[:k - 3] + '...'


@guarded
def rule_limit(repo, rid, targets, floor, decided_floor=None):
    res = RuleResult(rid, 'regime continuity, decided in the truncated Laurent-series domain: for every two adjacent branches of a masked '
                     'coefficient (masks differing in one magnitude atom d) the small-d formula is the d -> 0 expansion of the large-d formula - '
                     'no negative order, equal coefficients up to the degree the branch states, as functions of the variables free in both regimes',
                     floor=floor)
    decided = 0
    sq_seen = set()
    for mod, q in targets:
        f = repo.func(mod, q)
        groups, guards, inl = masks.analyse_function(f.node)
        for gi, g in enumerate(groups):
            label = g.target or ('sum#%d' % gi)
            table = atom_table([m[2] for m in g.members])
            atoms = []
            for m in g.members:
                masks.atoms_of(m[0], atoms)
            # a magnitude guard compares a quantity of degree ONE in the data with eps (|x| > eps, norm > eps): a squared quantity (x * x, x.square(), x ** 2)
            # against the same eps moves the switch-over to sqrt(eps), where the small-argument branch (a limit / low-order Taylor polynomial) is not accurate
            for a in atoms:
                if a in table and _is_square(table[a][0]) and (f.fq, label, a) not in sq_seen:
                    sq_seen.add((f.fq, label, a))
                    res.add(Finding(rid, f, 'the magnitude guard of `%s` compares the SQUARED quantity `%s` with eps: the branch written for |x| <= eps now serves '
                                    '|x| <= sqrt(eps), far outside the range in which its limit / truncated series is accurate' % (label, _short(table[a][0], 40)),
                                    construct='squared quantity compared with eps|' + label))
            if not atoms or any(a not in table for a in atoms) or len(atoms) > 3:
                continue
            # one variable per atom; atoms on the same root would need interval reasoning
            roots = {a: dump(table[a][0]) for a in atoms}
            if len(set(roots.values())) != len(atoms):
                res.notes.append('%s.%s: two magnitude atoms on one quantity - not decided' % (q, label))
                continue
            large = {a: (table[a][1] > 0) for a in atoms}        # truth value of the atom that means "large"
            stat = []
            for m in g.members:
                st = _status(m[0], atoms)
                stat.append({a: (None if v is None else ('large' if v == large[a] else 'small')) for a, v in st.items()})
            names = {a: 'v%d' % i for i, a in enumerate(atoms)}
            pretty = {a: _short(table[a][0], 30) for a in atoms}
            for i, ms in enumerate(g.members):
                for j, mb in enumerate(g.members):
                    if i == j:
                        continue
                    D = [a for a in atoms if stat[i][a] == 'small' and stat[j][a] == 'large']
                    if len(D) != 1:
                        continue
                    d = D[0]
                    C, F, ok = [], [], True
                    for a in atoms:
                        if a == d:
                            continue
                        si, sj = stat[i][a], stat[j][a]
                        if si == 'small' and sj == 'small':
                            C.append(a)
                        elif si != 'small' and sj != 'small':
                            F.append(a)
                        else:
                            ok = False
                    if not ok:
                        continue
                    order = C + [d] + F
                    ring, gens, rings = series.tower([names[a] for a in order])
                    varmap = {roots[a]: gens[names[a]] for a in order}
                    modes = ['zero'] * len(C) + [None] + ['free'] * len(F)
                    inst = {'function': f.fq, 'coefficient': label, 'small_branch': _short(member_value(ms, g.kind)),
                            'large_branch': _short(member_value(mb, g.kind)), 'limit_variable': pretty[d],
                            'free_variables': [pretty[a] for a in F], 'small_in_both': [pretty[a] for a in C]}
                    key = (f.fq, label, i, j)
                    try:
                        M = Evaluator(ring, varmap, ms[0]).ev(member_value(ms, g.kind))
                        G = Evaluator(ring, varmap, mb[0]).ev(member_value(mb, g.kind))
                        deg = _level_degree(ring, M, len(C))
                        modes[len(C)] = ('limit', deg)
                        diff = series.compare(ring, M, G, modes)
                        inst.update({'decided': True, 'degree_of_branch': deg, 'agree': diff is None})
                        res.inst(inst, key)
                        decided += 1
                        if diff is not None:
                            diff = diff.replace(names[d] + '^', '(' + pretty[d] + ')^')
                            for a in order:
                                diff = diff.replace(names[a] + '^', '(' + pretty[a] + ')^')
                            node = ms[3] if ms[3] is not None else None
                            res.add(Finding(rid, f, 'coefficient `%s` of %s: the branch for small %s, `%s`, is not the limit of the adjacent branch `%s`: '
                                            '%s' % (label, q, pretty[d], _short(member_value(ms, g.kind), 60), _short(member_value(mb, g.kind), 60), diff),
                                            node=node, construct='limit|%s|branch %d<-%d|%s' % (label, i, j, pretty[d])))
                    except (Unsupported, Inconclusive) as ex:
                        inst.update({'decided': False, 'reason': '%s: %s' % (type(ex).__name__, ex)})
                        res.inst(inst, key)
    res.notes.append('%d adjacent pairs decided' % decided)
    if decided_floor is not None and decided < decided_floor and not res.findings:
        raise AnalysisError('%s: only %d adjacent regime pairs could be decided (expected >= %d): the rule lost its anchors' % (rid, decided, decided_floor))
    _fixture(rid)
    return res


def _fixture(rid):
    """positive and negative fixture, evaluated on every run"""
    ring, gens, _ = series.tower(['t'])
    vm = {dump(ast.parse('t', mode='eval').body): gens['t']}
    ev = lambda s: Evaluator(ring, vm, ('atom', ('x',))).ev(ast.parse(s, mode='eval').body)
    good = series.compare(ring, ev('0.5 - (1.0/24.0) * t**2'), ev('(1 - t.cos()) / (t * t)'), [('limit', 2)])
    bad = series.compare(ring, ev('0.5 - (1.0/12.0) * t**2'), ev('(1 - t.cos()) / (t * t)'), [('limit', 2)])
    div = series.compare(ring, ev('1.0/6'), ev('(t - t.sin()) / t**4'), [('limit', 0)])
    if good is not None or bad is None or div is None:
        raise AnalysisError('%s: series fixture no longer classified (%r, %r, %r)' % (rid, good, bad, div))


@guarded
def rule_bernoulli(repo, rid, module, pairs):
    """pairs: [(Jl function, Jl_inv function, adjoint helper)].  The truncated series of the left Jacobian and of its inverse are polynomials in ONE
    matrix, the adjoint ad(xi): J_l = sum ad^n / (n+1)!  and  J_l^-1 = sum B_n ad^n / n!  (Bernoulli numbers).  Powers of one matrix commute, so both
    are decided as scalar series in t = ad: the code polynomial must agree with (e^t - 1)/t resp. t/(e^t - 1) up to its own degree, and the product of
    the two must be 1 up to the smaller degree."""
    res = RuleResult(rid, 'the series of sim3_Jl is sum ad^n/(n+1)! = (e^t - 1)/t and that of sim3_Jl_inv is sum B_n ad^n/n! = t/(e^t - 1), coefficient by '
                     'coefficient up to the degree written in the code; their product is the identity up to the smaller degree', floor=2)
    ring, gens, _ = series.tower(['t'])
    t = gens['t']
    et1 = ring.sub(ring.fn('exp', t), ring.one())
    gen = {'Jl': ring.mul(et1, ring.inv(t)), 'Jl_inv': ring.mul(t, ring.inv(et1))}
    for jl, jli, adj in pairs:
        polys = {}
        for kind, q in (('Jl', jl), ('Jl_inv', jli)):
            f = repo.func(module, q)
            from .expr import inline_straight, returns_of
            rets = returns_of(f.node)
            if len(rets) != 1:
                raise AnalysisError('%s: %s has %d returns' % (rid, q, len(rets)))
            v = inline_straight(f.node, upto=rets[0]).value(rets[0].value)
            vm = {}
            for n in ast.walk(v):
                if isinstance(n, ast.Call) and dotted(n.func) == adj:
                    vm[dump(n)] = t
            if not vm:
                raise AnalysisError('%s: %s no longer builds its series from %s' % (rid, q, adj))
            ev = Evaluator(ring, vm, ('atom', ('none',)))
            ev.matmul_commutes = True
            try:
                P = ev.ev(v)
            except (Unsupported, Inconclusive) as ex:
                res.inst({'function': f.fq, 'decided': False, 'reason': str(ex)}, f.fq)
                continue
            if P.prec < INF:
                res.inst({'function': f.fq, 'decided': False, 'reason': 'not a polynomial in the adjoint'}, f.fq)
                continue
            deg = max(list(P.c) + [0])
            diff = series.compare(ring, P, gen[kind], [('limit', deg)])
            polys[kind] = (P, deg)
            res.inst({'function': f.fq, 'series': ring.show(P, 8), 'degree': deg, 'matches': '(e^t - 1)/t' if kind == 'Jl' else 't/(e^t - 1)', 'agree': diff is None}, f.fq)
            if diff is not None:
                res.add(Finding(rid, f, '%s: the series %s is not the truncation of %s (t = the adjoint matrix): %s' % (q, ring.show(P, 8), 'sum t^n/(n+1)!' if kind == 'Jl' else
                                'sum B_n t^n/n! (Bernoulli)', diff.replace('branch', 'code').replace('reference', 'exact')), node=rets[0], construct='series of ' + q))
        if len(polys) == 2:
            d = min(polys['Jl'][1], polys['Jl_inv'][1])
            prod = ring.mul(polys['Jl'][0], polys['Jl_inv'][0])
            pd = series.compare(ring, series.S({e: c for e, c in prod.c.items()}, INF), ring.one(), [('limit', d)])
            res.inst({'pair': '%s * %s' % (jl, jli), 'identity up to degree': d, 'ok': pd is None}, (jl, jli))
            if pd is not None and not res.findings:
                res.add(Finding(rid, repo.func(module, jli), 'the product of the series of %s and %s is not the identity up to degree %d: %s' % (jl, jli, d, pd),
                                construct='product of the two series'))
    return res
