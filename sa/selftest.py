"""Sensitivity self-test (thorough tier): in-memory variants of the *current* tree, one instance broken
(or harmlessly refactored) per variant; each must-fire variant has to be reported by the named rule, each
must-stay-silent variant has to add no finding.  Variants live in sa/variants/<prop>.py as

    V = [ (name, relpath, old_text, new_text, expected_rule_or_None), ... ]

A variant whose anchor text is absent from the current tree is skipped and counted.  Nothing is written to disk:
the edited source is handed to the analysis as an overlay.
"""
import importlib, os, sys, json, time, ast
from concurrent.futures import ProcessPoolExecutor
from .core import Repo, AnalysisError, DEFAULT_ROOT, VERIF_DIR


def _load(prop):
    try:
        m = importlib.import_module('sa.variants.' + prop.lower())
    except ModuleNotFoundError:
        return []
    return list(m.V)


def _keys(prop, root, overlay, _base=None):
    mod = importlib.import_module('sa.rules.' + prop.lower())
    repo = Repo(root, overlay)
    out, err = set(), None
    for r in mod.rules(repo, 'quick'):
        for f in r.findings:
            out.add((f.rule, f.key))
        try:
            r.check_floor()
        except AnalysisError as e:
            err = err or e
    if err is not None and not (out - (_base or set())):
        raise err                 # like the CLI: findings first; a lost anchor without any new finding is the fail-closed outcome
    return out


def _one(args):
    prop, root, v, base = args
    name, rel, old, new, expect = v
    path = os.path.join(root, rel)
    try:
        with open(path, encoding='utf-8') as fh:
            srctext = fh.read()
    except OSError:
        return (name, 'skipped', 'file missing')
    if srctext.count(old) < 1:
        return (name, 'skipped', 'anchor text absent')
    edited = srctext.replace(old, new, 1)
    try:
        ast.parse(edited)
    except SyntaxError as e:
        return (name, 'broken-variant', 'variant does not parse: %s' % e)
    try:
        keys = _keys(prop, root, {rel: edited}, base)
    except AnalysisError as e:
        # an anchor that vanished under a must-fire edit counts as detected-by-fail-closed, but is reported as such
        if expect is not None:
            return (name, 'fired', 'ANALYSIS-ERROR(fail-closed): %s' % str(e)[:120])
        return (name, 'FALSE-ALARM', 'analysis error on a behaviour-preserving variant: %s' % str(e)[:160])
    new_f = sorted(k for k in keys if k not in base)
    if expect is None:
        if new_f:
            return (name, 'FALSE-ALARM', 'silent variant raised %s' % new_f[:2])
        return (name, 'silent', '')
    hit = [k for k in new_f if k[0] == expect or k[0].startswith(expect)]
    if hit:
        return (name, 'fired', hit[0][0])
    if new_f:
        return (name, 'MISSED', 'expected %s, got only %s' % (expect, [k[0] for k in new_f][:3]))
    return (name, 'MISSED', 'expected %s, nothing reported' % expect)


def run_for(prop, root=None, verbose=True, jobs=16):
    root = root or DEFAULT_ROOT
    vs = _load(prop)
    if not vs and not seed_variants(prop):
        if verbose:
            print('  self-test: no variants registered for %s' % prop)
        return True
    t0 = time.time()
    base = _keys(prop, root, None)
    work = [(prop, root, v, base) for v in vs]
    if jobs > 1 and len(work) > 3:
        with ProcessPoolExecutor(max_workers=min(jobs, len(work))) as ex:
            results = list(ex.map(_one, work))
    else:
        results = [_one(w) for w in work]
    seeds = [(prop, root, sid, rules_, base) for sid, rules_ in seed_variants(prop)]
    if seeds:
        if jobs > 1 and len(seeds) > 2:
            with ProcessPoolExecutor(max_workers=min(jobs, len(seeds))) as ex:
                results += list(ex.map(_one_seed, seeds))
        else:
            results += [_one_seed(w) for w in seeds]
    oks = [(prop, root, name, base) for name in ok_patches()]
    if oks:
        if jobs > 1 and len(oks) > 2:
            with ProcessPoolExecutor(max_workers=min(jobs, len(oks))) as ex:
                results += list(ex.map(_one_ok, oks))
        else:
            results += [_one_ok(w) for w in oks]
    bad = [r for r in results if r[1] in ('MISSED', 'FALSE-ALARM', 'broken-variant')]
    cnt = {}
    for r in results:
        cnt[r[1]] = cnt.get(r[1], 0) + 1
    if verbose:
        print('  self-test %s: %d variants %s in %.1fs' % (prop, len(results), cnt, time.time() - t0))
        for r in results:
            if r[1] not in ('fired', 'silent'):
                print('    %-12s %-40s %s' % (r[1], r[0], r[2]))
    # record in the evidence file
    ev = os.path.join(VERIF_DIR, 'evidence', prop + '.json')
    try:
        with open(ev) as fh:
            d = json.load(fh)
        d['coverage']['sensitivity_selftest'] = {'variants': len(results), 'outcomes': cnt,
                                                 'details': [{'variant': r[0], 'outcome': r[1], 'by': r[2]} for r in results]}
        with open(ev, 'w') as fh:
            json.dump(d, fh, indent=1, default=str)
    except OSError:
        pass
    fired = cnt.get('fired', 0) + cnt.get('silent', 0)
    if results and fired == 0:
        return False
    return not bad


# ------------------------------------------------------------------ seeded changes as regression variants

def apply_unified_diff(files, diff_text):
    """apply a git unified diff to {relpath: text}; returns {relpath: new text} for the touched files (pure python, in memory)"""
    out = {}
    cur = None
    hunks = []
    lines = diff_text.splitlines()
    i = 0
    patches = []
    while i < len(lines):
        l = lines[i]
        if l.startswith('+++ '):
            path = l[4:].strip()
            path = path[2:] if path.startswith('b/') else path
            cur = {'path': path, 'hunks': []}
            patches.append(cur)
        elif l.startswith('@@') and cur is not None:
            import re
            m = re.match(r'@@ -(\d+)(?:,(\d+))? \+(\d+)(?:,(\d+))? @@', l)
            h = {'old_start': int(m.group(1)), 'lines': []}
            cur['hunks'].append(h)
            i += 1
            while i < len(lines) and not lines[i].startswith('@@') and not lines[i].startswith('diff --git'):
                if lines[i].startswith('\\'):
                    i += 1
                    continue
                h['lines'].append(lines[i])
                i += 1
            continue
        i += 1
    for p in patches:
        src_lines = files[p['path']].split('\n')
        shift = 0
        for h in p['hunks']:
            old_block = [hl[1:] for hl in h['lines'] if hl[:1] in (' ', '-') or hl == '']
            new_block = [hl[1:] for hl in h['lines'] if hl[:1] in (' ', '+') or hl == '']
            want = h['old_start'] - 1 + shift
            pos = None
            for delta in range(0, 400):          # like git apply: accept the hunk at an offset when the file has moved
                for cand in (want + delta, want - delta):
                    if 0 <= cand <= len(src_lines) - len(old_block) and src_lines[cand:cand + len(old_block)] == old_block:
                        pos = cand
                        break
                if pos is not None:
                    break
            if pos is None:
                raise ValueError('hunk at line %d of %s does not match the current file' % (h['old_start'], p['path']))
            src_lines[pos:pos + len(old_block)] = new_block
            shift += len(new_block) - len(old_block)
        out[p['path']] = '\n'.join(src_lines)
    return out


def seed_variants(prop):
    """[(seed id, overlay or None, expected rule ids)] for the seeded changes this property's check is recorded to detect"""
    p = os.path.join(VERIF_DIR, 'seeded', 'DETECTION.json')
    if not os.path.exists(p):
        return []
    table = json.load(open(p))
    out = []
    for sid, info in sorted(table.items()):
        rules_ = info['detected_by'].get(prop)
        if rules_:
            out.append((sid, rules_))
    return out


def _one_seed(args):
    prop, root, sid, rules_, base = args
    try:
        diff = open(os.path.join(VERIF_DIR, 'seeded', sid, 'patch.diff')).read()
        touched = [l[6:].strip() for l in diff.splitlines() if l.startswith('+++ b/')]
        files = {t: open(os.path.join(root, t), encoding='utf-8').read() for t in touched}
        overlay = apply_unified_diff(files, diff)
    except (OSError, ValueError, KeyError) as e:
        return ('seed:' + sid, 'skipped', 'patch does not apply to the current tree: %s' % str(e)[:80])
    try:
        keys = _keys(prop, root, overlay, base)
    except AnalysisError as e:
        return ('seed:' + sid, 'fired', 'ANALYSIS-ERROR(fail-closed): %s' % str(e)[:100])
    new_f = [k for k in keys if k not in base]
    hit = [k for k in new_f if k[0] in rules_] or new_f          # any new finding makes the check exit 1; the recorded rule ids say which ones did when it was recorded
    if hit:
        return ('seed:' + sid, 'fired', hit[0][0])
    return ('seed:' + sid, 'MISSED', 'recorded as detected by %s, now reports %s' % (rules_, sorted({k[0] for k in new_f})))


# ------------------------------------------------------------------ behaviour-preserving patches (multi-site refactorings): every check stays silent

def ok_patches():
    d = os.path.join(VERIF_DIR, 'okpatches')
    return sorted(n for n in os.listdir(d) if os.path.exists(os.path.join(d, n, 'patch.diff'))) if os.path.isdir(d) else []


def _one_ok(args):
    prop, root, name, base = args
    try:
        diff = open(os.path.join(VERIF_DIR, 'okpatches', name, 'patch.diff')).read()
        touched = [l[6:].strip() for l in diff.splitlines() if l.startswith('+++ b/')]
        files = {t: open(os.path.join(root, t), encoding='utf-8').read() for t in touched}
        overlay = apply_unified_diff(files, diff)
    except (OSError, ValueError, KeyError) as e:
        return ('ok:' + name, 'skipped', 'patch does not apply to the current tree: %s' % str(e)[:80])
    try:
        keys = _keys(prop, root, overlay, base)
    except AnalysisError as e:
        return ('ok:' + name, 'FALSE-ALARM', 'analysis error on a behaviour-preserving patch: %s' % str(e)[:120])
    new_f = [k for k in keys if k not in base]
    if new_f:
        return ('ok:' + name, 'FALSE-ALARM', 'behaviour-preserving patch raised %s' % new_f[:2])
    return ('ok:' + name, 'silent', '')


if __name__ == '__main__':
    ok = True
    props = sys.argv[1:] or sorted(p[:-3].upper() for p in os.listdir(os.path.join(os.path.dirname(__file__), 'variants')) if p.startswith('c'))
    for p in props:
        ok = run_for(p) and ok
    sys.exit(0 if ok else 2)
