#!/venv/bin/python
"""False-alarm battery (not a registered check): behaviour-preserving whole-package rewrites must leave every check silent.
   modes: unparse  - every file re-emitted by ast.unparse (formatting, quotes, comments, parentheses change)
          rename   - every function-local variable (not parameters, not globals/nonlocals) renamed x -> x_r
          assert2raise - assert C, m -> if not C: raise AssertionError(m);  meth2func - x.sin() -> torch.sin(x);  dimkw - torch.cat(xs, -1) -> torch.cat(xs, dim=-1);
          cmpflip  - a > b -> b < a
"""
import ast, os, sys, importlib, copy, builtins
from .core import Repo, AnalysisError, local_names, DEFAULT_ROOT

ROOT = DEFAULT_ROOT


class RenameLocals(ast.NodeTransformer):
    def __init__(self):
        self.stack = []

    def _fn(self, node):
        params = {a.arg for a in node.args.posonlyargs + node.args.args + node.args.kwonlyargs}
        if node.args.vararg:
            params.add(node.args.vararg.arg)
        if node.args.kwarg:
            params.add(node.args.kwarg.arg)
        declared = set()
        for n in ast.walk(node):
            if isinstance(n, (ast.Global, ast.Nonlocal)):
                declared |= set(n.names)
        stores = set()
        for n in ast.walk(node):
            if isinstance(n, ast.Name) and isinstance(n.ctx, ast.Store):
                stores.add(n.id)
        # names used by nested functions / lambdas / comprehensions keep working because we rename consistently in the whole subtree
        nested_defs = {n.name for n in ast.walk(node) if isinstance(n, (ast.FunctionDef, ast.ClassDef)) and n is not node}
        loc = stores - params - declared - nested_defs - set(dir(builtins))
        # parameters of nested functions/lambdas with the same name would be captured wrongly: skip those names
        inner_params = set()
        for n in ast.walk(node):
            if n is not node and isinstance(n, (ast.FunctionDef, ast.Lambda)):
                inner_params |= {a.arg for a in n.args.posonlyargs + n.args.args + n.args.kwonlyargs}
        loc -= inner_params
        self.stack.append(loc)
        node.body = [self.visit(s) for s in node.body]
        self.stack.pop()
        return node

    visit_FunctionDef = _fn

    def visit_Name(self, n):
        for loc in reversed(self.stack[-1:]):
            if n.id in loc:
                return ast.copy_location(ast.Name(n.id + '_r', n.ctx), n)
        return n


class ReturnTemp(ast.NodeTransformer):
    """return E  ->  _ret = E ; return _ret   (for non-trivial E, outside lambdas)"""
    def _block(self, stmts):
        out = []
        for st in stmts:
            st = self.visit(st)
            if isinstance(st, ast.Return) and st.value is not None and not isinstance(st.value, (ast.Name, ast.Constant)):
                out.append(ast.Assign([ast.Name('_ret', ast.Store())], st.value))
                out.append(ast.Return(ast.Name('_ret', ast.Load())))
            else:
                out.append(st)
        return out

    def generic_visit(self, node):
        super().generic_visit(node)
        for f in ('body', 'orelse', 'finalbody'):
            v = getattr(node, f, None)
            if isinstance(v, list) and v and isinstance(v[0], ast.stmt):
                setattr(node, f, self._block(v))
        return node


class SplitTuples(ast.NodeTransformer):
    """a, b = x, y  ->  a = x ; b = y   when no right-hand element reads a target name"""
    def generic_visit(self, node):
        super().generic_visit(node)
        for f in ('body', 'orelse', 'finalbody'):
            v = getattr(node, f, None)
            if isinstance(v, list) and v and isinstance(v[0], ast.stmt):
                out = []
                for st in v:
                    if isinstance(st, ast.Assign) and len(st.targets) == 1 and isinstance(st.targets[0], ast.Tuple) and isinstance(st.value, ast.Tuple) \
                            and len(st.targets[0].elts) == len(st.value.elts) and all(isinstance(t, ast.Name) for t in st.targets[0].elts):
                        tn = {t.id for t in st.targets[0].elts}
                        reads = {n.id for e in st.value.elts for n in ast.walk(e) if isinstance(n, ast.Name)}
                        if not (tn & reads):
                            for t, e in zip(st.targets[0].elts, st.value.elts):
                                out.append(ast.Assign([t], e))
                            continue
                    out.append(st)
                setattr(node, f, out)
        return node


class SwapIndependent(ast.NodeTransformer):
    """swap adjacent simple assignments that do not depend on each other and contain no in-place / state-changing call"""
    @staticmethod
    def _simple(st):
        if not (isinstance(st, ast.Assign) and len(st.targets) == 1 and isinstance(st.targets[0], ast.Name)):
            return None
        for n in ast.walk(st.value):
            if isinstance(n, ast.Call):
                f = n.func
                name = f.attr if isinstance(f, ast.Attribute) else (f.id if isinstance(f, ast.Name) else '')
                if name.endswith('_') or name in ('rand', 'randn', 'randint', 'randperm', 'sample', 'print', 'warn', 'set_refpoint', 'reset',
                                                    'step', 'update', 'update_parameter', 'loss', 'solver', 'append', 'pop', 'register_buffer'):
                    return None
                if isinstance(f, ast.Attribute) and isinstance(f.value, ast.Name) and f.value.id == 'self':
                    return None
                if isinstance(f, ast.Attribute) and isinstance(f.value, ast.Attribute) and isinstance(f.value.value, ast.Name) and f.value.value.id == 'self':
                    return None
            if isinstance(n, (ast.Yield, ast.Await, ast.NamedExpr)):
                return None
        reads = {n.id for n in ast.walk(st.value) if isinstance(n, ast.Name)}
        return st.targets[0].id, reads

    def generic_visit(self, node):
        super().generic_visit(node)
        for f in ('body', 'orelse', 'finalbody'):
            v = getattr(node, f, None)
            if isinstance(v, list) and len(v) >= 2 and isinstance(v[0], ast.stmt):
                out = list(v)
                i = 0
                while i + 1 < len(out):
                    a, b = self._simple(out[i]), self._simple(out[i + 1])
                    if a and b and a[0] != b[0] and a[0] not in b[1] and b[0] not in a[1]:
                        out[i], out[i + 1] = out[i + 1], out[i]
                        i += 2
                    else:
                        i += 1
                setattr(node, f, out)
        return node



class AssertToRaise(ast.NodeTransformer):
    """assert cond, msg  ->  if not cond: raise AssertionError(msg)   (asserts are stripped under python -O; a common hardening edit)"""
    def visit_Assert(self, n):
        exc = ast.Call(ast.Name('AssertionError', ast.Load()), [n.msg] if n.msg is not None else [], [])
        return ast.copy_location(ast.If(ast.UnaryOp(ast.Not(), n.test), [ast.Raise(exc, None)], []), n)


class MethodToFunction(ast.NodeTransformer):
    """x.sin() -> torch.sin(x) for argument-less element-wise methods (the two spellings are the same operation)"""
    NAMES = {'sin', 'cos', 'tan', 'exp', 'log', 'sqrt', 'abs', 'atan', 'asin', 'acos', 'square', 'tanh', 'det', 'inverse'}

    def visit_Call(self, n):
        self.generic_visit(n)
        if isinstance(n.func, ast.Attribute) and n.func.attr in self.NAMES and not n.args and not n.keywords and not isinstance(n.func.value, ast.Name) or \
                (isinstance(n.func, ast.Attribute) and n.func.attr in self.NAMES and not n.args and not n.keywords and isinstance(n.func.value, ast.Name)
                 and n.func.value.id not in ('torch', 'math', 'np', 'self')):
            return ast.copy_location(ast.Call(ast.Attribute(ast.Name('torch', ast.Load()), n.func.attr, ast.Load()), [n.func.value], []), n)
        return n



class DimKeyword(ast.NodeTransformer):
    """torch.cat([..], -1) -> torch.cat([..], dim=-1)  (and stack / cumsum / cumprod / sum / squeeze / unsqueeze given their axis positionally)"""
    FUNCS = {'torch.cat': 1, 'torch.stack': 1, 'torch.cumsum': 1, 'torch.cumprod': 1, 'torch.sum': 1, 'torch.squeeze': 1, 'torch.unsqueeze': 1}

    def visit_Call(self, n):
        self.generic_visit(n)
        d = dotted_name(n.func)
        k = self.FUNCS.get(d)
        if k is not None and len(n.args) == k + 1 and not any(kw.arg == 'dim' for kw in n.keywords):
            a = n.args[k]
            if isinstance(a, ast.Constant) or (isinstance(a, ast.UnaryOp) and isinstance(a.operand, ast.Constant)):
                n.keywords.append(ast.keyword('dim', a))
                n.args = n.args[:k]
        return n


def dotted_name(e):
    parts = []
    while isinstance(e, ast.Attribute):
        parts.append(e.attr)
        e = e.value
    if isinstance(e, ast.Name):
        parts.append(e.id)
        return '.'.join(reversed(parts))
    return None


class FlipComparisons(ast.NodeTransformer):
    """a > b -> b < a (one comparison operator, ordering only)"""
    FLIP = {ast.Gt: ast.Lt, ast.Lt: ast.Gt, ast.GtE: ast.LtE, ast.LtE: ast.GtE}

    def visit_Compare(self, n):
        self.generic_visit(n)
        if len(n.ops) == 1 and type(n.ops[0]) in self.FLIP:
            return ast.copy_location(ast.Compare(n.comparators[0], [self.FLIP[type(n.ops[0])]()], [n.left]), n)
        return n



class FlipIfElse(ast.NodeTransformer):
    """if c: A else: B  ->  if not c: B else: A   (only plain if/else, no elif chains; ternaries likewise)"""
    def visit_If(self, n):
        self.generic_visit(n)
        if n.orelse and not (len(n.orelse) == 1 and isinstance(n.orelse[0], ast.If)):
            t = n.test.operand if isinstance(n.test, ast.UnaryOp) and isinstance(n.test.op, ast.Not) else ast.UnaryOp(ast.Not(), n.test)
            return ast.copy_location(ast.If(t, n.orelse, n.body), n)
        return n

    def visit_IfExp(self, n):
        self.generic_visit(n)
        t = n.test.operand if isinstance(n.test, ast.UnaryOp) and isinstance(n.test.op, ast.Not) else ast.UnaryOp(ast.Not(), n.test)
        return ast.copy_location(ast.IfExp(t, n.orelse, n.body), n)



class TernaryToIf(ast.NodeTransformer):
    """x = a if c else b  ->  if c: x = a  else: x = b   (single plain-name target)"""
    def visit_Assign(self, n):
        if len(n.targets) == 1 and isinstance(n.targets[0], ast.Name) and isinstance(n.value, ast.IfExp):
            t = n.targets[0]
            a = ast.copy_location(ast.Assign([ast.Name(t.id, ast.Store())], n.value.body), n)
            b = ast.copy_location(ast.Assign([ast.Name(t.id, ast.Store())], n.value.orelse), n)
            return ast.copy_location(ast.If(n.value.test, [a], [b]), n)
        return n


class MergeAssigns(ast.NodeTransformer):
    """a = e1; b = e2 (adjacent, plain names, e2 does not read a)  ->  a, b = e1, e2"""
    def _merge(self, body):
        out, i = [], 0
        while i < len(body):
            s1 = body[i]
            if i + 1 < len(body):
                s2 = body[i + 1]
                if all(isinstance(x, ast.Assign) and len(x.targets) == 1 and isinstance(x.targets[0], ast.Name) for x in (s1, s2)) and \
                        s1.targets[0].id != s2.targets[0].id and \
                        not any(isinstance(y, ast.Name) and y.id == s1.targets[0].id for y in ast.walk(s2.value)) and \
                        not any(isinstance(y, (ast.Call, ast.Yield, ast.Await)) for v in (s1.value, s2.value) for y in ast.walk(v) if isinstance(y, ast.Call) and isinstance(y.func, ast.Attribute) and y.func.attr.endswith('_')):
                    out.append(ast.copy_location(ast.Assign([ast.Tuple([ast.Name(s1.targets[0].id, ast.Store()), ast.Name(s2.targets[0].id, ast.Store())], ast.Store())],
                                                            ast.Tuple([s1.value, s2.value], ast.Load())), s1))
                    i += 2
                    continue
            out.append(s1)
            i += 1
        return out

    def generic_visit(self, node):
        super().generic_visit(node)
        for fld in ('body', 'orelse', 'finalbody'):
            b = getattr(node, fld, None)
            if isinstance(b, list) and b and isinstance(b[0], ast.stmt) and not isinstance(node, (ast.Module, ast.ClassDef)):
                setattr(node, fld, self._merge(b))
        return node


def overlay(mode):
    ov = {}
    for dp, dn, fn in os.walk(os.path.join(ROOT, 'pypose')):
        for f in fn:
            if f.endswith('.py'):
                p = os.path.join(dp, f)
                rel = os.path.relpath(p, ROOT)
                import warnings
                with warnings.catch_warnings():
                    warnings.simplefilter('ignore')
                    tree = ast.parse(open(p, encoding='utf-8').read())
                if mode == 'rename':
                    # only top-level functions and methods (nested functions share their parent's renaming scope)
                    r = RenameLocals()
                    for n in ast.walk(tree):
                        pass
                    class Top(ast.NodeTransformer):
                        def visit_FunctionDef(self, node):
                            return r._fn(node)
                    tree = Top().visit(tree)
                    ast.fix_missing_locations(tree)
                elif mode == 'rettemp':
                    tree = ReturnTemp().visit(tree)
                    ast.fix_missing_locations(tree)
                elif mode == 'swap':
                    tree = SwapIndependent().visit(tree)
                    ast.fix_missing_locations(tree)
                elif mode == 'split':
                    tree = SplitTuples().visit(tree)
                    ast.fix_missing_locations(tree)
                elif mode == 'dimkw':
                    tree = DimKeyword().visit(tree)
                    ast.fix_missing_locations(tree)
                elif mode == 'cmpflip':
                    tree = FlipComparisons().visit(tree)
                    ast.fix_missing_locations(tree)
                elif mode == 'elseflip':
                    tree = FlipIfElse().visit(tree)
                    ast.fix_missing_locations(tree)
                elif mode == 'if2ternary':
                    from .core import _IfElseToTernary
                    tree = _IfElseToTernary().visit(tree)
                    ast.fix_missing_locations(tree)
                elif mode == 'ternary2if':
                    tree = TernaryToIf().visit(tree)
                    ast.fix_missing_locations(tree)
                elif mode == 'merge':
                    tree = MergeAssigns().visit(tree)
                    ast.fix_missing_locations(tree)
                elif mode == 'assert2raise':
                    tree = AssertToRaise().visit(tree)
                    ast.fix_missing_locations(tree)
                elif mode == 'meth2func':
                    tree = MethodToFunction().visit(tree)
                    ast.fix_missing_locations(tree)
                ov[rel] = ast.unparse(tree)
    return ov


_OV_CACHE = {}


def run_for(prop, modes=('unparse', 'rename', 'rettemp', 'split', 'swap', 'assert2raise', 'meth2func', 'dimkw', 'cmpflip', 'elseflip', 'merge', 'ternary2if', 'if2ternary'), verbose=True):
    """battery restricted to one property's rules -> list of false alarms"""
    mod = importlib.import_module('sa.rules.' + prop.lower())
    out = []
    try:
        base = {(x.rule, x.key) for r in mod.rules(Repo(ROOT), 'quick') for x in r.findings}
    except AnalysisError as e:
        return [('base', 'ANALYSIS-ERROR', str(e)[:150])]
    for mode in modes:
        if mode not in _OV_CACHE:
            _OV_CACHE[mode] = overlay(mode)
        try:
            res = mod.rules(Repo(ROOT, _OV_CACHE[mode]), 'quick')
            for r in res:
                r.check_floor()
            for r in res:
                for x in r.findings:
                    if (x.rule, x.key) not in base:
                        out.append((mode, x.rule, x.func + ': ' + x.what[:100]))
        except AnalysisError as e:
            out.append((mode, 'ANALYSIS-ERROR', str(e)[:150]))
    return out


def main():
    modes = sys.argv[1:] or ['unparse', 'rename', 'rettemp', 'split', 'swap', 'assert2raise', 'meth2func', 'dimkw', 'cmpflip', 'elseflip', 'merge', 'ternary2if', 'if2ternary']
    bad = 0
    for mode in modes:
        ov = overlay(mode)
        for f in sorted(os.listdir('sa/rules')):
            if not (f.startswith('c') and f.endswith('.py')):
                continue
            prop = f[:-3].upper()
            mod = importlib.import_module('sa.rules.' + f[:-3])
            try:
                base = {(x.rule, x.key) for r in mod.rules(Repo(ROOT), 'quick') for x in r.findings}
                res = mod.rules(Repo(ROOT, ov), 'quick')
                for r in res:
                    r.check_floor()
                new = [(x.rule, x.func, x.what[:110]) for r in res for x in r.findings if (x.rule, x.key) not in base]
            except AnalysisError as e:
                new = [('ANALYSIS-ERROR', prop, str(e)[:150])]
            if new:
                bad += len(new)
                for n in new[:6]:
                    print('FALSE-ALARM mode=%s %s: %s' % (mode, prop, n))
        print('mode %s done' % mode)
    print('battery: %d false alarms' % bad)
    return 1 if bad else 0


if __name__ == '__main__':
    sys.exit(main())
