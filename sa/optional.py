"""Presence-test rule: an optional argument documented as "None = use the default" is tested for presence with `is None` / `is not None`,
never by truthiness (`p or default`, `if not p:`, `p if p else default`).

Necessary condition of "for every admissible value of the argument": truthiness conflates None with every falsy VALUE - 0, 0.0, a
one-element zero tensor - so a legitimate zero (gravity 0, reference time 0, sigma-point parameter k = 0) is silently replaced by the
default; a multi-element tensor makes the test raise.  Boolean flags (default True/False), callables and containers are not value-like and
are left alone.  Expected count on the tree: zero; a positive and a negative fixture run on every invocation.
"""
import ast
from .core import RuleResult, Finding, AnalysisError, dotted, src, norm_construct, guarded


def _own_nodes(fnode):
    stack = list(fnode.body)
    while stack:
        n = stack.pop()
        if isinstance(n, (ast.FunctionDef, ast.AsyncFunctionDef, ast.ClassDef)):
            continue
        yield n
        stack.extend(ast.iter_child_nodes(n))


def optional_value_params(fnode):
    """parameters whose default is None and that are used as values (not called, not iterated, not len()-ed)"""
    a = fnode.args
    pos = a.posonlyargs + a.args
    out = set()
    for p, d in zip(pos[len(pos) - len(a.defaults):], a.defaults):
        if isinstance(d, ast.Constant) and d.value is None:
            out.add(p.arg)
    for p, d in zip(a.kwonlyargs, a.kw_defaults):
        if d is not None and isinstance(d, ast.Constant) and d.value is None:
            out.add(p.arg)
    not_value = set()
    for n in _own_nodes(fnode):
        if isinstance(n, ast.Call) and isinstance(n.func, ast.Name) and n.func.id in out:
            not_value.add(n.func.id)                      # a callable
        if isinstance(n, ast.Call) and isinstance(n.func, ast.Name) and n.func.id in ('len', 'list', 'tuple', 'iter', 'enumerate', 'zip', 'dict', 'isinstance') \
                and n.args and isinstance(n.args[0], ast.Name) and n.args[0].id in out and n.func.id != 'isinstance':
            not_value.add(n.args[0].id)                   # a container
        if isinstance(n, (ast.For, ast.comprehension)) and isinstance(n.iter, ast.Name) and n.iter.id in out:
            not_value.add(n.iter.id)
    for p in pos + a.kwonlyargs:
        if p.arg in out and p.annotation is not None and any(t in src(p.annotation) for t in ('bool', 'Callable', 'List', 'list', 'Sequence', 'str', 'Module', 'dict', 'Dict')):
            not_value.add(p.arg)
    return out - not_value


def truthiness_uses(fnode):
    """[(node, param, form)]"""
    params = optional_value_params(fnode)
    if not params:
        return []
    out = []
    for n in _own_nodes(fnode):
        if isinstance(n, ast.BoolOp) and isinstance(n.op, (ast.Or, ast.And)):
            for v in n.values[:-1] if isinstance(n.op, ast.Or) else n.values:
                if isinstance(v, ast.Name) and v.id in params:
                    out.append((n, v.id, '`%s`' % src(n)[:50]))
                elif isinstance(v, ast.UnaryOp) and isinstance(v.op, ast.Not) and isinstance(v.operand, ast.Name) and v.operand.id in params:
                    out.append((n, v.operand.id, '`%s`' % src(n)[:50]))
        elif isinstance(n, (ast.If, ast.IfExp, ast.While, ast.Assert)):
            t = n.test
            if isinstance(t, ast.UnaryOp) and isinstance(t.op, ast.Not):
                t = t.operand
            if isinstance(t, ast.Name) and t.id in params:
                out.append((n, t.id, 'the test `%s`' % src(n.test)[:40]))
    return out


@guarded
def rule_optional(repo, rid, modules, floor=0):
    res = RuleResult(rid, 'optional value arguments (default None) are tested for presence with `is None`, never by truthiness: a legitimate zero '
                     '(0, 0.0, a zero tensor) is a value, not an absent argument', floor=floor)
    n = 0
    for m in modules:
        for f in repo.module(m).functions.values():
            ps = optional_value_params(f.node)
            if not ps:
                continue
            n += 1
            uses = truthiness_uses(f.node)
            res.inst({'function': f.fq, 'optional value arguments': sorted(ps), 'truthiness tests': [form for _, _, form in uses]}, f.fq)
            for node, p, form in uses:
                res.add(Finding(rid, f, '%s decides whether the optional argument `%s` was given by its truth value: a caller passing the legitimate value 0 '
                                '(or a zero tensor) silently gets the default instead, and a multi-element tensor makes the test raise'
                                % (form, p), node=node, construct='truthiness|%s|%s' % (p, norm_construct(node, f.node))))
    _fixture(rid)
    return res


def _fixture(rid):
    code = ('def f(x, k=None, g=None, cb=None, flag=False):\n'
            '    k = k or 3 - x\n'
            '    g = 9.8 if g is None else g\n'
            '    if cb:\n'
            '        cb(x)\n'
            '    if flag:\n'
            '        x = -x\n'
            '    return x * k + g\n')
    fn = ast.parse(code).body[0]
    got = sorted(p for _, p, _ in truthiness_uses(fn))
    if got != ['k']:
        raise AnalysisError('%s: positive/negative fixture no longer classified (%r)' % (rid, got))
