"""Presence-test rule: an optional argument documented as "None = use the default" is tested for presence with `is None` / `is not None`,
never by truthiness (`p or default`, `if not p:`, `p if p else default`).

Necessary condition of "for every admissible value of the argument": truthiness conflates None with every falsy VALUE - 0, 0.0, a
one-element zero tensor - so a legitimate zero (gravity 0, reference time 0, sigma-point parameter k = 0) is silently replaced by the
default; a multi-element tensor makes the test raise.  Boolean flags (default True/False), callables and containers are not value-like and
are left alone.  Expected count on the tree: zero; a positive and a negative fixture run on every invocation.
"""
import ast
from .core import RuleResult, Finding, AnalysisError, dotted, src, norm_construct, guarded


def _own_nodes(fnode):
    stack = list(fnode.body)
    while stack:
        n = stack.pop()
        if isinstance(n, (ast.FunctionDef, ast.AsyncFunctionDef, ast.ClassDef)):
            continue
        yield n
        stack.extend(ast.iter_child_nodes(n))


def optional_value_params(fnode):
    """parameters whose default is None and that are used as values (not called, not iterated, not len()-ed)"""
    a = fnode.args
    pos = a.posonlyargs + a.args
    out = set()
    for p, d in zip(pos[len(pos) - len(a.defaults):], a.defaults):
        if isinstance(d, ast.Constant) and d.value is None:
            out.add(p.arg)
    for p, d in zip(a.kwonlyargs, a.kw_defaults):
        if d is not None and isinstance(d, ast.Constant) and d.value is None:
            out.add(p.arg)
    not_value = set()
    for n in _own_nodes(fnode):
        if isinstance(n, ast.Call) and isinstance(n.func, ast.Name) and n.func.id in out:
            not_value.add(n.func.id)                      # a callable
        if isinstance(n, ast.Call) and isinstance(n.func, ast.Name) and n.func.id in ('len', 'list', 'tuple', 'iter', 'enumerate', 'zip', 'dict', 'isinstance') \
                and n.args and isinstance(n.args[0], ast.Name) and n.args[0].id in out and n.func.id != 'isinstance':
            not_value.add(n.args[0].id)                   # a container
        if isinstance(n, (ast.For, ast.comprehension)) and isinstance(n.iter, ast.Name) and n.iter.id in out:
            not_value.add(n.iter.id)
    for p in pos + a.kwonlyargs:
        if p.arg in out and p.annotation is not None and any(t in src(p.annotation) for t in ('bool', 'Callable', 'List', 'list', 'Sequence', 'str', 'Module', 'dict', 'Dict')):
            not_value.add(p.arg)
    return out - not_value


def truthiness_uses(fnode):
    """[(node, param, form)]"""
    params = optional_value_params(fnode)
    if not params:
        return []
    out = []
    for n in _own_nodes(fnode):
        if isinstance(n, ast.BoolOp) and isinstance(n.op, (ast.Or, ast.And)):
            for v in n.values[:-1] if isinstance(n.op, ast.Or) else n.values:
                if isinstance(v, ast.Name) and v.id in params:
                    out.append((n, v.id, '`%s`' % src(n)[:50]))
                elif isinstance(v, ast.UnaryOp) and isinstance(v.op, ast.Not) and isinstance(v.operand, ast.Name) and v.operand.id in params:
                    out.append((n, v.operand.id, '`%s`' % src(n)[:50]))
        elif isinstance(n, (ast.If, ast.IfExp, ast.While, ast.Assert)):
            t = n.test
            if isinstance(t, ast.UnaryOp) and isinstance(t.op, ast.Not):
                t = t.operand
            if isinstance(t, ast.Name) and t.id in params:
                out.append((n, t.id, 'the test `%s`' % src(n.test)[:40]))
    return out


def _tests_none(fnode, p):
    for n in _own_nodes(fnode):
        if isinstance(n, ast.Compare) and len(n.ops) == 1 and isinstance(n.ops[0], (ast.Is, ast.IsNot, ast.Eq, ast.NotEq)):
            sides = [n.left, n.comparators[0]]
            if any(isinstance(x, ast.Name) and x.id == p for x in sides) and any(isinstance(x, ast.Constant) and x.value is None for x in sides):
                return True
        if isinstance(n, ast.Call) and isinstance(n.func, ast.Name) and n.func.id in ('isinstance', 'hasattr', 'getattr', 'callable') and n.args \
                and isinstance(n.args[0], ast.Name) and n.args[0].id == p:
            return True
    return False


def _rebound(fnode, p):
    for n in _own_nodes(fnode):
        if isinstance(n, (ast.Assign, ast.AugAssign, ast.AnnAssign)):
            tg = n.targets if isinstance(n, ast.Assign) else [n.target]
            for t in tg:
                for x in (t.elts if isinstance(t, ast.Tuple) else [t]):
                    if isinstance(x, ast.Name) and x.id == p:
                        return True
    return False


def strict_uses(repo, f, p, depth=0):
    """places where the value of parameter p is used in a way None cannot survive"""
    out = []
    me = f.pos_params[0] if (f.cls is not None and f.pos_params) else None
    for n in _own_nodes(f.node):
        if isinstance(n, ast.BinOp) and any(isinstance(x, ast.Name) and x.id == p for x in (n.left, n.right)):
            out.append((n, 'arithmetic'))
        elif isinstance(n, (ast.Attribute, ast.Subscript)) and isinstance(n.value, ast.Name) and n.value.id == p and isinstance(n.ctx, ast.Load):
            out.append((n, 'attribute / item access'))
        elif isinstance(n, ast.Call) and (dotted(n.func) or '').startswith('torch.') and any(isinstance(a, ast.Name) and a.id == p for a in n.args):
            if (dotted(n.func) or '').split('.')[-1] not in ('is_tensor',):
                out.append((n, 'argument of %s' % dotted(n.func)))
        elif isinstance(n, ast.Assign) and isinstance(n.value, ast.Name) and n.value.id == p and me is not None and depth < 1:
            for t in n.targets:
                d = dotted(t)
                if d and d.startswith(me + '.') and d.count('.') == 1:
                    setter = repo.find_method(f.cls, d.split('.')[1] + '.setter') if hasattr(repo, 'find_method') else None
                    if setter is not None and len(setter.pos_params) >= 2:
                        sp = setter.pos_params[1]
                        inner = strict_uses(repo, setter, sp, depth + 1)
                        # an isinstance test in the setter routes None into its strict branch as well (torch.tensor(None)); only a None test protects
                        if inner and not any(isinstance(c, ast.Compare) and any(isinstance(x, ast.Constant) and x.value is None for x in [c.left] + c.comparators)
                                             and any(isinstance(x, ast.Name) and x.id == sp for x in [c.left] + c.comparators) for c in _own_nodes(setter.node)):
                            out.append((n, 'the property setter %s, which uses its value in %s' % (setter.qual, inner[0][1])))
    return out


def none_unchecked(repo, f):
    out = []
    for p in sorted(optional_value_params(f.node)):
        if _tests_none(f.node, p) or _rebound(f.node, p):
            continue
        # a truthiness test is reported by the other clause and does protect against None
        if any(q == p for _, q, _ in truthiness_uses(f.node)):
            continue
        for node, how in strict_uses(repo, f, p):
            out.append((node, p, how))
            break
    return out


@guarded
def rule_optional(repo, rid, modules, floor=0):
    res = RuleResult(rid, 'optional value arguments (default None) are tested for presence with `is None`, never by truthiness: a legitimate zero '
                     '(0, 0.0, a zero tensor) is a value, not an absent argument', floor=floor)
    n = 0
    for m in modules:
        for f in repo.functions_view(m):
            ps = optional_value_params(f.node)
            if not ps:
                continue
            n += 1
            uses = truthiness_uses(f.node)
            res.inst({'function': f.fq, 'optional value arguments': sorted(ps), 'truthiness tests': [form for _, _, form in uses]}, f.fq)
            for node, p, how in none_unchecked(repo, f):
                res.add(Finding(rid, f, 'the optional argument `%s` (default None, documented as "use the current value") reaches %s without any test for None: '
                                'the default call raises instead of falling back' % (p, how), node=node, construct='none-flow|%s' % p))
            for node, p, form in uses:
                res.add(Finding(rid, f, '%s decides whether the optional argument `%s` was given by its truth value: a caller passing the legitimate value 0 '
                                '(or a zero tensor) silently gets the default instead, and a multi-element tensor makes the test raise'
                                % (form, p), node=node, construct='truthiness|%s|%s' % (p, norm_construct(node, f.node))))
    _fixture(rid)
    return res


def _fixture(rid):
    code = ('def f(x, k=None, g=None, cb=None, flag=False):\n'
            '    k = k or 3 - x\n'
            '    g = 9.8 if g is None else g\n'
            '    if cb:\n'
            '        cb(x)\n'
            '    if flag:\n'
            '        x = -x\n'
            '    return x * k + g\n')
    fn = ast.parse(code).body[0]
    got = sorted(p for _, p, _ in truthiness_uses(fn))
    if got != ['k']:
        raise AnalysisError('%s: positive/negative fixture no longer classified (%r)' % (rid, got))
