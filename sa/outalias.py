"""out= overlap rule: the `out=` buffer of a torch call that is not element-wise (matmul, mm, bmm, mv, addmm, einsum, cumsum, index_select,
gather, cat, stack, sort, ...) does not share storage with one of the call's inputs on any feasible path.  Such calls read their inputs
while they write the output; with overlapping storage the result is undefined (NaN / garbage), silently.

Aliases are tracked along enumerated paths (loops unrolled twice): `a = b`, `a = f(..., out=b)`, in-place methods returning their receiver,
views.  Paths that take both truth values of one unchanged test (`M is not None` ... `M is None`) are discarded as infeasible.
"""
import ast
from .core import RuleResult, Finding, AnalysisError, dotted, src, norm_construct, guarded
from . import paths

NON_ELEMENTWISE = {'matmul', 'mm', 'bmm', 'mv', 'addmm', 'addmv', 'baddbmm', 'einsum', 'cumsum', 'cumprod', 'index_select', 'gather', 'cat', 'stack',
                   'sort', 'topk', 'take', 'flip', 'roll', 'cross', 'linalg.solve', 'solve', 'cholesky_solve', 'outer', 'kron', 'tensordot', 'dot'}
VIEW = {'view', 'reshape', 'unsqueeze', 'squeeze', 'transpose', 'permute', 'expand', 'detach', 'narrow', 'select', 'flatten', 'contiguous', 'movedim'}


def _root(e, alias):
    while True:
        if isinstance(e, ast.Name):
            return alias.get(e.id, e.id)
        if isinstance(e, ast.Subscript):
            e = e.value
        elif isinstance(e, ast.Attribute) and e.attr in ('mT', 'T', 'data'):
            e = e.value
        elif isinstance(e, ast.Call) and isinstance(e.func, ast.Attribute) and (e.func.attr in VIEW or (e.func.attr.endswith('_') and not e.func.attr.startswith('_'))):
            e = e.func.value
        else:
            return None


def _value_root(v, alias):
    """storage root the value of expression v shares, or None for a fresh tensor"""
    if isinstance(v, ast.IfExp):
        a, b = _value_root(v.body, alias), _value_root(v.orelse, alias)
        return a or b
    if isinstance(v, ast.Call):
        for k in v.keywords:
            if k.arg == 'out':
                return _root(k.value, alias)
    return _root(v, alias)


def overlaps(fnode, limit=20000):
    found = {}
    pths, _ = paths.function_paths(fnode, limit=limit, strict=False, unroll=lambda l: 2)
    for ev, ex in pths:
        alias = {}
        assumed = {}
        feasible = True
        for e in ev:
            if e[0] == 'assume':
                key = ast.dump(e[1])
                if key in assumed and assumed[key] != e[2]:
                    feasible = False
                    break
                assumed[key] = e[2]
            elif e[0] == 'stmt':
                st = e[1]
                for c in paths.calls_in(st):
                    d = dotted(c.func) or ''
                    name = d.split('.')[-1] if d else (c.func.attr if isinstance(c.func, ast.Attribute) else '')
                    out = next((k.value for k in c.keywords if k.arg == 'out'), None)
                    if out is None or name not in NON_ELEMENTWISE:
                        continue
                    ro = _root(out, alias)
                    if ro is None:
                        continue
                    for a in c.args:
                        if _root(a, alias) == ro:
                            found.setdefault(id(c), (c, src(a), src(out)))
                if isinstance(st, ast.Assign):
                    # a test variable that is reassigned invalidates remembered assumptions on it
                    tnames = {t.id for t in st.targets if isinstance(t, ast.Name)} | \
                             {x.id for t in st.targets if isinstance(t, ast.Tuple) for x in t.elts if isinstance(x, ast.Name)}
                    for k in [k for k in assumed if any(("id='%s'" % n) in k for n in tnames)]:
                        del assumed[k]
                    for t in st.targets:
                        if isinstance(t, ast.Name):
                            r = _value_root(st.value, alias)
                            if r is None or r == t.id:
                                alias.pop(t.id, None)
                            else:
                                alias[t.id] = r
                        elif isinstance(t, ast.Tuple) and isinstance(st.value, ast.Tuple) and len(t.elts) == len(st.value.elts):
                            for x, v in zip(t.elts, st.value.elts):
                                if isinstance(x, ast.Name):
                                    r = _value_root(v, alias)
                                    if r is None or r == x.id:
                                        alias.pop(x.id, None)
                                    else:
                                        alias[x.id] = r
        if not feasible:
            continue
    return list(found.values())


@guarded
def rule_outalias(repo, rid, targets, floor=None):
    res = RuleResult(rid, 'no non-element-wise torch call writes its out= buffer over storage one of its inputs shares (aliases followed along feasible '
                     'paths): matmul(M, r, out=z) with r and z sharing memory returns garbage without an error', floor=floor if floor is not None else len(targets))
    for mod, q in targets:
        f = repo.func(mod, q)
        n_out = sum(1 for c in paths.calls_in(f.node) if any(k.arg == 'out' for k in c.keywords))
        ov = overlaps(f.node)
        res.inst({'function': f.fq, 'calls with out=': n_out, 'overlapping': [(a, o) for _, a, o in ov]}, f.fq)
        for c, a, o in ov:
            res.add(Finding(rid, f, '`%s` writes its result into `%s`, which on some feasible path shares storage with its input `%s`: the product is '
                            'computed from memory it is overwriting' % (src(c)[:60], o, a), node=c))
    fx = ast.parse('def f(A, b, M):\n    z = torch.empty_like(b)\n    r = torch.sub(b, A, out=z)\n    torch.matmul(M, r, out=z)\n    return z\n'
                   'def g(A, b, M):\n    z = torch.empty_like(b)\n    r = b - A\n    if M is not None:\n        torch.matmul(M, r, out=z)\n    else:\n        z = r\n'
                   '    if M is not None:\n        torch.matmul(M, r, out=z)\n    return z\n').body
    if len(overlaps(fx[0])) != 1 or len(overlaps(fx[1])) != 0:
        raise AnalysisError('%s: fixtures no longer classified' % rid)
    return res
